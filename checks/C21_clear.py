"""C21, empty() / clear( disposer ) — cds::intrusive::FreeList / TaggedFreeList  (Properties_C21_Clear.v).

run_clear(ctx, report=False) -> dict   (to be called from checks/C21.py; reports nothing itself unless report=True)

Step correspondence (same program, same schedule, event logs compared line by line; harness/C21/clear_main.cpp vs
coq/Extract/Extract_FreeListClear.v):
  variant 0 : LV.Model.FreeListClear (put / get / empty() threads = init_cfg2, then solo_ev (clear lfuel) from the final,
              quiescent state) vs cds::intrusive::FreeList
  variant 1 : LV.Model.FreeListTagged put / get threads, then LV.Model.FreeListTaggedClear tsolo_ev (tclear lfuel)
              vs cds::intrusive::TaggedFreeList            (the tagged model has no empty() client operation)
Observable only: TaggedFreeList programs WITH empty() ('o' cases: monitors only).
Fixed case: the witness of C21_empty_strong_refuted (Proofs/FreeListClearThm.wit_ths / wit_sched): the real FreeList must
show "ret_empty 1" and "ret_get -1" of thread 0 after its "ret_put" there too.
Implementation-side monitors:
  clear   : after clear() every existing node is either held by exactly one client or was handed to the disposer exactly
            once (twice / held_disposed / lost = 0), empty() = true and get() = nullptr afterwards; empty() just before
            clear (quiescent) is true iff nothing is available                      (C21_clear_disposes_available_once,
            C21_clear_no_loss)
  empty   : an empty() whose load of m_Head happens while no get / put is in flight returns true iff no node is
            available; empty() = true with an available node needs some get / put in flight at the load
                                                                                    (C21_empty_true, C21_empty_true_quiet)
  double_get / bad_node as in checks/C21.py."""
import os
import vcheck, conc_check

HARNESS = os.path.join(vcheck.VERIF, "harness/C21/clear_main.cpp")
EXTRACT = "Extract_FreeListClear.v"
PROPS = "Properties/Properties_C21_Clear.v"
LFUEL = 60
EXTRA = ("-Wl,--no-as-needed", "-latomic")
VARIANT_NAMES = {0: "FreeList", 1: "TaggedFreeList"}
CORRESPONDENCE = ("LV.Model.FreeListClear (init_cfg2; solo_ev clear) / LV.Model.FreeListTagged + FreeListTaggedClear (tsolo_ev tclear) vs "
                  "cds::intrusive::FreeList / TaggedFreeList put, get, empty, clear (cds/intrusive/free_list.h, free_list_tagged.h)")

# Proofs/FreeListClearThm.v: wit_ths = [([O2Get; O2Put 0; O2Empty; O2Get], []); ([O2Get], [])], k = 1, wit_sched
WITNESS = {"id": "witness_strong_empty", "cfg": [0, LFUEL, 1, 1], "threads": [[[1], [2, 0], [3], [1]], [[1]]],
           "sched": [1, 1, 1, 1] + [0] * 10 + [1] * 10}


def mk_case(cid, variant, nnodes, k, owners, threads, sched):
    return {"id": cid, "cfg": [variant, LFUEL, nnodes, k] + list(owners), "threads": threads, "sched": sched}


def gen_program(rng, nthreads, owners, maxops, with_empty):
    threads = []
    for t in range(nthreads):
        have = sum(1 for o in owners if o == t)
        ops = []
        for _ in range(1 + rng.below(maxops)):
            if with_empty and rng.chance(1, 4):
                ops.append([3])
            elif have > 0 and rng.chance(1, 2):
                ops.append([2, rng.below(have)]); have -= 1
            else:
                ops.append([1]); have += 1
        threads.append(ops)
    return threads


def gen_sched(rng, nthreads, kind):
    if kind == 0:
        return [rng.below(nthreads) for _ in range(20 + rng.below(100))]
    if kind == 1:
        s = []
        for _ in range(2 + rng.below(10)):
            s += [rng.below(nthreads)] * (1 + rng.below(12))
        return s
    if kind == 2:
        # a getter stalls after its refs CAS (4 steps) or one load later, the others run whole operations (a put then only
        # sets the should-be-on-freelist bit: the window in which empty() is true although a node is available)
        g = rng.below(nthreads)
        s = [g] * (4 + rng.below(2))
        others = [t for t in range(nthreads) if t != g] or [g]
        for _ in range(1 + rng.below(4)):
            s += [rng.choice(others)] * (3 + rng.below(20))
        s += [g] * (1 + rng.below(4))
        return s + [rng.below(nthreads) for _ in range(rng.below(30))]
    a = rng.below(nthreads)
    b = (a + 1 + rng.below(nthreads - 1)) % nthreads if nthreads > 1 else a
    s = [a] * (3 + rng.below(4)) + [b] * (2 + rng.below(12)) + [a] * (1 + rng.below(6)) + [b] * (1 + rng.below(8))
    return s + [rng.below(nthreads) for _ in range(rng.below(40))]


def gen_cases(rng, n, prefix, variants, with_empty):
    cases = []
    for i in range(n):
        variant = variants[rng.below(len(variants))]
        nthreads = 2 + rng.below(3)
        nnodes = 1 + rng.below(4)
        k = rng.below(nnodes + 1)
        maxops = 4
        if rng.chance(1, 3):
            # a long list at the end: clear() has a chain to walk
            nnodes = 3 + rng.below(3); k = nnodes - rng.below(2); maxops = 2
        owners = [rng.below(nthreads) for _ in range(nnodes - k)]
        threads = gen_program(rng, nthreads, owners, maxops, with_empty(variant))
        cases.append(mk_case("%s%d" % (prefix, i), variant, nnodes, k, owners, threads, gen_sched(rng, nthreads, rng.below(4))))
    return cases


def witness_variants():
    """the witness and its neighbours: the stall of thread 1 moved by -2..+2 steps, thread 0's burst 8..12 steps"""
    out = [dict(WITNESS)]
    for a in range(2, 7):
        for b in (8, 9, 10, 11, 12):
            if (a, b) != (4, 10):
                out.append({"id": "witness_nb_%d_%d" % (a, b), "cfg": list(WITNESS["cfg"]), "threads": WITNESS["threads"],
                            "sched": [1] * a + [0] * b + [1] * 10})
    return out


# ------------------------------------------------------------------------------------------------------
# monitors

def monitor_case(c, ilog):
    """-> list of (kind, what, details)"""
    bad = []
    name = VARIANT_NAMES.get(c["cfg"][0], "?")
    nnodes, k = c["cfg"][2], c["cfg"][3]
    nth = len(c["threads"])
    owners = c["cfg"][4:4 + nnodes - k]
    own = {}                      # node -> tid or None (available); nodes nobody owns initially do not exist
    for j in range(1, k + 1):
        own[j] = None
    for j, o in enumerate(owners):
        if 0 <= o < nth:
            own[k + 1 + j] = o
    opens = {}; inempty = {}
    for l in ilog["lines"]:
        t = l.split(" ")
        tid = t[0]
        if len(t) >= 3 and t[1] == "ev":
            nm = t[2]
            if nm in ("inv_get", "inv_put"):
                opens[tid] = 1
                if nm == "inv_put":
                    own[int(t[3])] = None
            elif nm in ("ret_get", "ret_put"):
                opens[tid] = 0
                if nm == "ret_get" and t[3] != "-1":
                    own[int(t[3])] = int(tid)
            elif nm == "inv_empty":
                inempty[tid] = "wait"
            elif nm == "ret_empty":
                snap = inempty.pop(tid, None)
                if isinstance(snap, tuple):
                    avail, quiet = snap
                    if t[3] == "1" and avail and quiet:
                        bad.append(("empty_true", "%s::empty() returned true although a node was available (put and not taken) and no get/put was in flight at its load of m_Head" % name, {"available": avail}))
                    if t[3] == "0" and not avail and quiet:
                        bad.append(("empty_false", "%s::empty() returned false in a quiescent state in which every node is held by a client" % name, {}))
        elif len(t) >= 2 and t[1] == "ld" and inempty.get(tid) == "wait":
            inempty[tid] = (sorted(n for n, o in own.items() if o is None), not any(opens.values()))
    mon = {}
    for x in ilog["extra"]:
        w = x.split()
        if x.startswith("monitor double_get"):
            mon["double_get"] = int(w[2]); mon["bad_node"] = int(w[4])
        elif x.startswith("monitor clear held"):
            for i in range(2, len(w) - 1, 2):
                mon[w[i]] = int(w[i + 1])
        elif x.startswith("monitor clear skipped"):
            mon["skipped"] = 1
        elif x.startswith("monitor hang"):
            bad.append(("hang", "%s: the case did not finish within 30 s" % name, {}))
    if mon.get("double_get"):
        bad.append(("double_get", "%s::get() returned a node that a client holds" % name, {}))
    if mon.get("bad_node"):
        bad.append(("bad_node", "%s::get() returned a pointer that is not a node" % name, {}))
    if "held" in mon:
        avail = sorted(n for n, o in own.items() if o is None)
        if mon["twice"]:
            bad.append(("clear_twice", "%s::clear() handed a node to the disposer more than once" % name, {"monitor": mon}))
        if mon["held_disposed"]:
            bad.append(("clear_held", "%s::clear() handed a node to the disposer that a client holds (or that is no node of the list)" % name, {"monitor": mon}))
        if mon["lost"]:
            bad.append(("clear_lost", "%s::clear() from a quiescent state did not hand every available node to the disposer: some node is neither held by a client nor disposed" % name, {"monitor": mon, "lost": mon["lost"], "available_before_clear": avail}))
        if mon["disposed"] + mon["lost"] != len(avail) or mon["held"] != len([1 for o in own.values() if o is not None]):
            bad.append(("clear_count", "%s: held + disposed after clear() does not match the ownership computed from the event log" % name, {"monitor": mon, "available_before_clear": avail}))
        if not mon["empty_after"] or mon["get_after"] != -1:
            bad.append(("clear_not_empty", "%s: after clear() empty() is not true or get() does not return nullptr" % name, {"monitor": mon, "empty_after": mon["empty_after"], "get_after": mon["get_after"]}))
        if bool(mon["empty_before"]) != (len(avail) == 0):
            bad.append(("empty_quiescent", "%s::empty() in the quiescent state before clear() is not (no node available)" % name, {"monitor": mon, "empty_before": mon["empty_before"], "available_before_clear": avail}))
    elif ilog["end"] == "finished":
        bad.append(("no_clear_monitor", "%s: the harness did not report on clear()" % name, {}))
    return bad, mon


def check_witness(c, ilog):
    """the refuted strong reading of empty(): the real code must show the same thing"""
    th0 = [" ".join(l.split(" ")[2:]) for l in ilog["lines"] if l.startswith("0 ev ")]
    want = ["inv_get", "ret_get 1", "inv_put 1", "ret_put", "inv_empty", "ret_empty 1", "inv_get", "ret_get -1"]
    if th0 != want:
        return [("witness", "the witness schedule of C21_empty_strong_refuted does not show empty() = true / get() = nullptr after a returned put on the real FreeList: the model is wrong (or the code changed)",
                 {"thread0_events": th0, "expected": want})]
    return []


def run_batch(ctx, model, impl, cases, tag, step=True):
    cf = os.path.join(ctx.work, tag + ".txt")
    conc_check.write_cases(cf, cases)
    mlog = {}
    if step:
        rc1, out1 = vcheck.sh("%s %d < %s" % (model, 20000, cf), timeout=900)
        mlog = conc_check.parse_logs(out1)
    ilog = {}; crashes = []; todo = list(cases)
    for attempt in range(8):
        if not todo:
            break
        cfi = os.path.join(ctx.work, tag + ".impl.txt")
        conc_check.write_cases(cfi, todo)
        rc2, raw = vcheck.sh([impl, cfi], timeout=900)
        part = conc_check.parse_logs(raw)
        for c in todo:
            if c["id"] in part and part[c["id"]]["end"] is not None:
                ilog[c["id"]] = part[c["id"]]
        if rc2 == 0:
            break
        hung = [c for c in todo if c["id"] in part and part[c["id"]]["end"] == "hang"]
        rest = [c for c in todo if c["id"] not in ilog]
        culprit = hung[0] if hung else (rest[0] if rest else None)
        if culprit is None:
            break
        crashes.append((rc2, culprit, raw[-400:]))
        todo = [c for c in rest if c is not culprit]
    st = {"n": len(cases), "diverged": 0, "first_div": None, "violations": [], "shapes": set(), "nontrivial": set(), "overrun": 0, "steps": 0,
          "ops": {"get_node": 0, "get_null": 0, "put": 0, "empty_true": 0, "empty_false": 0, "empty_true_while_available": 0, "clear": 0},
          "disposed_by_clear": 0, "held_at_clear": 0, "clear_on_empty_list": 0, "clear_chain_ge2": 0}
    for rc, culprit, tail in crashes:
        st["violations"].append(("the real free list crashed or hung under the scheduler (harness exit status %d) on %s" % (rc, VARIANT_NAMES.get(culprit["cfg"][0], "?")),
                                 {"case": culprit, "harness_tail": tail}, False))
    crashed = set(c["id"] for _, c, _ in crashes)
    for c in cases:
        if c["id"] in crashed:
            continue
        i = ilog.get(c["id"])
        if i is None or i["end"] in ("badcfg", "hang"):
            st["diverged"] += 1
            st["first_div"] = st["first_div"] or (c, {"index": -1, "model": "?", "impl": "<no output from the harness>", "prefix": []})
            continue
        st["steps"] += len(i["lines"])
        sh = hash(tuple(conc_check.norm_impl_line(l) for l in i["lines"]))
        st["shapes"].add(sh)
        if any(len(l.split(" ")) > 3 and l.split(" ")[1] == "cas" and l.split(" ")[3] == "0" for l in i["lines"]):
            st["nontrivial"].add(sh)
        for l in i["lines"]:
            if " ev ret_get -1" in l: st["ops"]["get_null"] += 1
            elif " ev ret_get" in l: st["ops"]["get_node"] += 1
            elif " ev ret_put" in l: st["ops"]["put"] += 1
            elif " ev ret_empty 1" in l: st["ops"]["empty_true"] += 1
            elif " ev ret_empty 0" in l: st["ops"]["empty_false"] += 1
            elif " ev ret_clear" in l: st["ops"]["clear"] += 1
        bad, mon = monitor_case(c, i)
        if c["id"].startswith("witness_strong_empty"):
            bad += [(k_, w_, d_) for k_, w_, d_ in check_witness(c, i)]
            st["ops"]["empty_true_while_available"] += 0 if bad else 1
        if "skipped" in mon or i["end"] != "finished":
            st["overrun"] += 1
        if "held" in mon:
            st["disposed_by_clear"] += mon["disposed"]; st["held_at_clear"] += mon["held"]
            st["clear_on_empty_list"] += 1 if mon["disposed"] == 0 else 0
            st["clear_chain_ge2"] += 1 if mon["disposed"] >= 2 else 0
        for kind, what, det in bad:
            det = dict(det); det.update({"case": c, "impl_log": i["lines"], "impl_monitor_lines": i["extra"], "monitor": kind})
            st["violations"].append((what, det, False))
        if step:
            m = mlog.get(c["id"])
            d = conc_check.compare(m, i) if m is not None else {"index": -1, "model": "<no output>", "impl": "ok", "prefix": []}
            if d is not None:
                st["diverged"] += 1
                if st["first_div"] is None:
                    st["first_div"] = (c, d)
    return st


def run_clear(ctx, report=False, case=None):
    """-> {"coq": CoqResult, "stats": {...}, "violations": [(what, details, no_input)], "coverage": {...}, "trusted": [...], "assumptions": [...]}
    report=True additionally turns the violations into ctx.violation calls."""
    res = vcheck.coq_build([PROPS])
    model = conc_check.build_model(ctx, EXTRACT, tag="model_freelist_clear")
    impl = vcheck.cxx_build(HARNESS, os.path.join(ctx.work, "harness_clear"), hook=True, link_cds=False, extra=EXTRA)
    rng = ctx.rng.fork() if hasattr(ctx.rng, "fork") else ctx.rng
    big = ctx.thorough()
    stats = {}
    if case is not None:
        stats["replay"] = run_batch(ctx, model, impl, [case], "clear_replay", step=not (case["cfg"][0] == 1 and any(op and op[0] == 3 for th in case["threads"] for op in th)))
    else:
        stats["step_witness"] = run_batch(ctx, model, impl, witness_variants(), "clear_witness", step=True)
        stats["step_freelist"] = run_batch(ctx, model, impl, gen_cases(rng, 3000 if big else 500, "f", (0,), lambda v: True), "clear_step_fl", step=True)
        stats["step_tagged"] = run_batch(ctx, model, impl, gen_cases(rng, 1500 if big else 250, "t", (1,), lambda v: False), "clear_step_tagged", step=True)
        stats["obs_tagged_empty"] = run_batch(ctx, model, impl, gen_cases(rng, 1000 if big else 200, "o", (1,), lambda v: True), "clear_obs_tagged", step=False)
    viol = []
    for s in stats.values():
        viol += s["violations"]
    first_div = None
    for k, s in stats.items():
        if s["first_div"] is not None and first_div is None:
            first_div = (k, s["first_div"])
    if first_div is not None and not viol:
        k, (c, d) = first_div
        viol.append(("step correspondence no longer holds: " + CORRESPONDENCE, {"correspondence": CORRESPONDENCE, "case": c, "first_divergence": d}, True))
    if not res.ok and not viol:
        viol.append(("Coq obligations of C21 (empty / clear) do not check: %s" % (res.failed[:2],), {"theorem": [f[2] for f in res.failed], "errors": res.failed[:3]}, True))
    shapes = set(); nontriv = set()
    for s in stats.values():
        shapes |= s["shapes"]; nontriv |= s["nontrivial"]
    per = {}
    for k, s in stats.items():
        per[k] = {"cases": s["n"], "diverged": s["diverged"], "distinct_logs": len(s["shapes"]), "distinct_contended": len(s["nontrivial"]), "overrun": s["overrun"],
                  "ops": s["ops"], "impl_events": s["steps"], "nodes_disposed_by_clear": s["disposed_by_clear"], "nodes_held_at_clear": s["held_at_clear"],
                  "clear_on_empty_list": s["clear_on_empty_list"], "clear_walked_2_or_more_nodes": s["clear_chain_ge2"]}
    cov = {"evaluations": sum(s["n"] for s in stats.values()), "distinct_nontrivial": len(nontriv), "distinct_event_logs": len(shapes),
           "rule": "program x schedule pairs (2-4 threads, 1-4 operations each of get / put / empty (25%), 1-5 nodes, any split listed / held, one third with a list of 2+ nodes left for clear; uniform, bursty, getter-stalled-after-its-refs-CAS and two-stall schedules), clear(disposer) from the final quiescent state of every case; the witness of C21_empty_strong_refuted and 24 neighbouring schedules; distinct = distinct implementation event logs; non-trivial = at least one failed CAS",
           "traces_validated_against_impl": sum(s["n"] - s["diverged"] for k, s in stats.items() if k.startswith("step")),
           "strong_empty_witness_reproduced_on_real_code": bool(stats.get("step_witness") and stats["step_witness"]["ops"]["empty_true_while_available"] == 1),
           "per_variant": per, "obligation_names": res.obligations, "obligations": len(res.obligations), "discharged": len(res.discharged),
           "print_assumptions": res.assumptions}
    if report:
        for what, det, no_input in viol:
            ctx.violation(what, det, no_input=no_input)
    return {"coq": res, "stats": stats, "violations": viol, "coverage": cov,
            "trusted": ["harness/C21/clear_main.cpp: ownership map, per-node dispose counter, clear() run as a one-worker scheduled run continuing the log and object numbering (lines re-attributed to pseudo-thread N)",
                        "coq/Extract/Extract_FreeListClear.v: output glue (clear_part) around fl2_run_case / tsolo_ev (tclear)"],
            "assumptions": ["clear() is called from a quiescent state only (documented: 'not atomic', 'must be explicitly called before the free list destructor'); a clear() concurrent with put/get is outside the theorems and the checks",
                            "TaggedFreeList::empty() is not a client operation of the tagged model: programs with empty() on TaggedFreeList are checked by the monitors only"]}
