"""C10 — FCDeque is a linearizable deque (DESIGN 7, C10).

Coq: Properties/Properties_C10.v (pure fc_process / fc_apply functions LV.Model.FcBatch, kernel model
LV.Model.FcKernel).  Tie: the kernel is step-checked by C23; the real FCDeque (std::deque and
boost::container::deque, elimination on/off, combine pass counts 1..4) runs under the deterministic scheduler
and every history is decided by the verified lincheck (spec deque): observable correspondence."""
import os, json
import vcheck, conc_check, fc_util


def gen_cases(ctx, n, variants, prefix="g"):
    rng = ctx.rng
    cases = []
    for i in range(n):
        nthreads = 2 + rng.below(3)
        val = 1
        threads = []
        for t in range(nthreads):
            ops = []
            for _ in range(1 + rng.below(3)):
                k = 1 + rng.below(6)        # 1/2 push_front/back( T const& ), 5/6 push_front/back( T&& ), 3/4 pops
                if k in (1, 2, 5, 6):
                    ops.append([k, val]); val += 1
                else:
                    ops.append([k])
            threads.append(ops)
        if rng.chance(1, 2):
            sched, kind = fc_util.park_sched(rng, nthreads), "park"
        else:
            sched, kind = fc_util.gen_sched(rng, nthreads)
        cfg = [rng.choice(variants), rng.choice([1, 2, 2, 8]), 1 + rng.below(4), rng.choice([0, 0, 1, 2])]
        cases.append({"id": "%s%d" % (prefix, i), "cfg": cfg, "threads": threads, "sched": sched, "kind": kind})
    return cases


def gen_pair_cases(ctx, n, variants, prefix="p"):
    """a parked combiner, then a push (copy or move overload, either end) and a pop (either end) published in both
    orders, deque empty or prefilled, elimination on: every (itPrev, it) combination of fc_process is met on empty
    and on non-empty deques"""
    rng = ctx.rng
    elim = [v for v in variants if v in (1, 3)]
    cases = []
    for i in range(n):
        push = rng.choice([1, 2, 5, 6]); pop = rng.choice([3, 4])
        first, second = ([push, 1], [pop]) if rng.chance(1, 2) else ([pop], [push, 1])
        threads = [[[rng.choice([3, 4])] if rng.chance(1, 2) else [rng.choice([1, 2, 5, 6]), 2]], [first], [second]]
        if rng.chance(1, 3):
            threads.append([[rng.choice([3, 4])]])
        nt = len(threads)
        s = [0] * (12 + rng.below(4))
        for t in range(1, nt):
            s += [t] * (14 + rng.below(8))
        s += [0] * (80 + rng.below(60))
        for t in range(1, nt):
            s += [t] * (20 + rng.below(20))
        cfg = [rng.choice(elim), rng.choice([1, 2, 8]), 1 + rng.below(4), rng.choice([0, 1, 1, 2])]
        cases.append({"id": "%s%d" % (prefix, i), "cfg": cfg, "threads": threads, "sched": s, "kind": "pair"})
    return cases


def run(ctx):
    res = vcheck.coq_build(["Properties/Properties_C10.v"])
    ctx.coq_evidence(res)
    boost_dq = fc_util.have_boost_deque()
    variants = [0, 1, 2, 3] if boost_dq else [0, 1]
    src = os.path.join(vcheck.VERIF, "harness/C10/main.cpp")
    impl = vcheck.cxx_build([src] + fc_util.BOOST_LIBS, os.path.join(ctx.work, "harness"), hook=True, link_cds=False,
                            extra=(("-DVERIF_HAVE_BOOST_DEQUE",) if boost_dq else ()))
    if ctx.replay:
        cases = [json.load(open(ctx.replay))["case"]]
        ncorpus = 0
    else:
        cases = []
        cdir = os.path.join(vcheck.VERIF, "corpus", "C10")
        for f in sorted(os.listdir(cdir)) if os.path.isdir(cdir) else []:
            if f.endswith(".json"):
                cases.append(json.load(open(os.path.join(cdir, f))))
        ncorpus = len(cases)
        cases += gen_cases(ctx, 9000 if ctx.thorough() else 1500, variants)
        cases += gen_pair_cases(ctx, 3000 if ctx.thorough() else 600, variants)
    st = fc_util.observable_lincheck(ctx, impl, cases, lambda c: "deque", "cases",
                                     "a history of the real cds::container::FCDeque is not linearizable to a sequential deque (verified lincheck)",
                                     "the real cds::container::FCDeque crashes or does not terminate under the scheduler",
                                     timeout=(900 if ctx.thorough() else 240))
    if not res.ok:
        ctx.violation("Coq obligations of C10 do not check: %s" % (res.failed[:2],), {"theorem": [f[2] for f in res.failed], "errors": res.failed[:3]}, no_input=True)
    vh = {}; kh = {}; ph = {}; oh = {}
    names = {1: "push_front(copy)", 2: "push_back(copy)", 3: "pop_front", 4: "pop_back", 5: "push_front(move)", 6: "push_back(move)"}
    for c in cases:
        for th in c["threads"]:
            for op in th:
                oh[names.get(op[0], str(op[0]))] = oh.get(names.get(op[0], str(op[0])), 0) + 1
        vh[str(c["cfg"][0])] = vh.get(str(c["cfg"][0]), 0) + 1
        kh[c.get("kind", "corpus")] = kh.get(c.get("kind", "corpus"), 0) + 1
        ph[str(c["cfg"][2])] = ph.get(str(c["cfg"][2]), 0) + 1
    ctx.coverage.update({
        "evaluations": st["finished"], "distinct_nontrivial": st["distinct_nontrivial"],
        "rule": "program x schedule pairs on the real FCDeque (2-4 threads, 1-3 mixed-end operations each (copy and move overloads of push_front/push_back, pop_front, pop_back), unique pushed values, prefill 0-2; variants std::deque / boost::container::deque x elimination off/on; compact factor 1,2,8; combine pass count 1-4; half of the schedules park a combiner while the other threads publish so that a batch reaches fc_process); distinct = distinct histories; non-trivial = a pair was eliminated or one combiner session served several requests",
        "distinct_histories": st["distinct_histories"], "histories_linearizable": st["ok"], "histories_not_linearizable": st["notlin"],
        "cases_with_elimination": st["collided_cases"], "cases_with_batches": st["batched_cases"], "pairs_eliminated": st["collided"],
        "requests": st["ops"], "combiner_sessions": st["combs"], "unfinished": st["unfinished"], "corpus_cases": ncorpus,
        "variant_histogram": vh, "schedule_kinds": kh, "pass_count_histogram": ph, "operation_histogram": oh, "boost_container_deque": boost_dq,
        "samples": st["samples"],
        "traces_validated_against_impl": 0,
        "note": "observable correspondence only for FCDeque::fc_process/fc_apply; the kernel underneath is step-checked by C23",
    })
    return ctx.finish(vcheck.STD_TRUSTED + ["hook layer: khizmax_libcds_verif::atomic<T>, baton scheduler (hooks/include)", "ocaml/lincheck_main.ml (parser/printer around the verified lincheck)",
                                            "harness/C10/main.cpp"],
                      ["sequential consistency: memory_order arguments are not modelled",
                       "FCDeque::fc_process and fc_apply are modelled as pure functions (LV.Model.FcBatch) copied from cds/container/fcdeque.h: the tie to the C++ text is by observable histories, not step correspondence",
                       "std::deque / boost::container::deque are modelled by the sequential deque specification", "op_clear and the exclusive apply()/empty() entry points are not covered",
                       "wait_strategy::backoff with an empty back-off (the default delay back-off sleeps; condition-variable strategies are not run under the scheduler)"])
