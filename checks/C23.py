"""C23 — flat combining executes each request exactly once under mutual exclusion (DESIGN 7, C23).

Coq: Properties/Properties_C23.v (models LV.Model.FcKernel and LV.Model.FcKernelWake).  Tie: step correspondence
of the real cds::algo::flat_combining::kernel (counting container, harness/C23/main.cpp) with the extracted model
on generated programs x schedules, for two wait strategies: wait_strategy::backoff (cfg[4] = 0, model
LV.Model.FcKernel) and a condition-variable style strategy whose wait() loads the request word and reports the
per-record notification flag and whose wakeup() calls kernel::wakeup_any() (cfg[4] = 1, model
LV.Model.FcKernelWake with the wakeup inside the combiner lock), the latter also with kernel::invoke_exclusive.  Monitors on the real code: occupancy of fc_apply/fc_process, per-request
execution counter, accesses to freed (zero-poisoned, quarantined) publication records, and the trace
predicate of the theorems (fc_util.fc_monitor) evaluated on the implementation's own event log."""
import os, json
import vcheck, conc_check, fc_util

SIG_UAF = "fc-compact-free-while-linked"
WHAT_UAF = ("flat_combining::kernel::compact_list frees a publication record that is still linked in the publication list "
            "(owner exits between loop 1 and loop 2); a later combining pass reads the freed record")
WHAT_UAF_OTHER = "a publication record of flat_combining::kernel is accessed after compact_list freed it (poisoned-record monitor on the real code)"
WHAT_UAF_WAKE = ("flat_combining::kernel::wakeup_any() - called by a wait strategy's wakeup() - reads a publication record after another "
                 "combiner's compact_list freed it: wakeup() runs without the combiner lock (poisoned-record monitor on the real code)")
WHAT_REAL = ("flat combining with a condition-variable wait strategy on real threads: a requester observed req_Response although its request "
             "was not executed exactly once, or two threads were inside fc_apply/fc_process at the same time (unscheduled run, harness/C23/real.cpp)")
WHAT_HANG = "the real flat_combining::kernel crashes or does not terminate on a case the model finishes"


def gen_cases(ctx, n, prefix="g"):
    """half of the cases use the condition-variable style strategy (cfg[4] = 1); those may contain invoke_exclusive ([4])"""
    rng = ctx.rng
    cases = []
    for i in range(n):
        nthreads = 2 + rng.below(3)
        wake = rng.chance(1, 2)
        rid = 0
        threads = []
        for t in range(nthreads):
            ops = []
            for _ in range(1 + rng.below(3)):
                if rng.chance(1, 5):
                    ops.append([3])
                elif wake and rng.chance(1, 6):
                    ops.append([4])
                else:
                    ops.append([1 if rng.chance(1, 2) else 2, rid]); rid += 1
            threads.append(ops)
        if wake and rng.chance(1, 3):
            sched, kind = wake_sched(rng, nthreads), "wake-race"
        else:
            sched, kind = fc_util.gen_sched(rng, nthreads)
        cfg = [1 + rng.below(2), 1 + rng.below(2), 400]
        if wake:
            cfg += [1, 1]
        cases.append({"id": "%s%d" % (prefix, i), "cfg": cfg, "threads": threads, "sched": sched, "kind": kind})
    return cases


def wake_sched(rng, nthreads):
    """aimed at wakeup_any(): thread a takes the combiner lock and is parked; the others publish and wait (one of them
    is parked inside wait_for_combining just before its try_lock); a serves them and unlocks; a waiter wins try_lock,
    finds its request answered and walks the publication list while the others return, exit, and combine again"""
    a = rng.below(nthreads)
    s = [a] * (13 + rng.below(3))
    others = [t for t in range(nthreads) if t != a]
    for i in range(len(others) - 1, 0, -1):
        j = rng.below(i + 1); others[i], others[j] = others[j], others[i]
    for t in others:
        s += [t] * (13 + rng.below(6))
    s += [a] * (30 + rng.below(30))
    w = others[0]
    rest = others[1:] + [a]
    for t in others[1:]:
        s += [t] * (2 + rng.below(6))
    s += [w] * (3 + rng.below(6))
    for _ in range(3):
        t = rest[rng.below(len(rest))]
        s += [t] * (20 + rng.below(50))
        s += [w] * (1 + rng.below(4))
    return s


def features(lines):
    f = set()
    holder = None
    prev_exec = False
    for l in lines:
        t = l.split(" ")
        if t[1] == "cas" and t[3] == "0":
            f.add("cas_failed")
        if t[1] == "ev":
            if t[2] == "exec":
                if int(t[3]) != int(t[0]):
                    f.add("helped")
                if prev_exec:
                    f.add("pair_collided")
                if t[4] == "3" and not prev_exec:
                    pass
            if t[2] == "free":
                f.add("record_freed")
            if t[2] == "uaf":
                f.add("uaf")
            if t[2] == "excl":
                f.add("invoke_exclusive")
            prev_exec = (t[2] == "exec")
        else:
            prev_exec = False
    return f


def wakeup_path(lines):
    """a "lock" by a thread whose next client event is "unlock" with no faa on the counter in between: the branch of
    wait_for_combining that calls m_waitStrategy.wakeup() (or an invoke_exclusive)"""
    holder = None; combined = False
    for l in lines:
        t = l.split(" ")
        if t[1] == "ev" and t[2] == "lock":
            holder = t[0]; combined = False
        elif holder is not None and t[0] == holder:
            if t[1] == "faa":
                combined = True
            if t[1] == "ev" and t[2] == "unlock":
                if not combined:
                    return True
                holder = None
    return False


def analyse(ctx, c, m, i, stats, report=True):
    """compare one case; returns (divergence or None, impl monitor failure or None, is_known_uaf); the detail of a
    trace-predicate failure is left in stats['detail']"""
    if m is None or i is None:
        return ({"index": -1, "model": "<no output>" if m is None else "ok", "impl": "<no output>" if i is None else "ok", "prefix": []}, None, False)
    nu = fc_util.split_model_uaf(m)
    stats["model_lost_markers"] = stats.get("model_lost_markers", 0) + m.get("lost", 0)
    stats["model_uaf_markers"] = stats.get("model_uaf_markers", 0) + nu
    d = conc_check.compare(m, i)
    mon = fc_util.monitor_extra(i["extra"])
    fail = None
    if mon.get("max_inside", 0) > 1:
        fail = "two threads inside fc_apply/fc_process of one flat-combining kernel at the same time (occupancy monitor)"
    elif mon.get("uaf", 0) > 0:
        fail = "uaf"
    elif mon.get("bad_exec", 0) > 0:
        fail = "a requester observed req_Response while the execution counter of its request was not 1 (execution counter monitor)"
    else:
        e = fc_util.fc_monitor(i["lines"]) if i["end"] == "finished" else None
        if e:
            fail = "flat-combining trace predicate violated on the real code: " + e[0]
            stats["detail"] = e[1]
    if fail is None and m.get("lost", 0) > 0 and m["end"] == "finished":
        fail = "the model releases a publication record whose request was not answered (the containers' compiled-out assert( pRec->is_done()) would fail) and the real code follows the same steps"
    known = (fail == "uaf" and d is None and nu > 0)
    if mon.get("woken", 0) > 0:
        stats["impl_waits_woken_by_notification"] = stats.get("impl_waits_woken_by_notification", 0) + mon.get("woken", 0)
        stats["cases_with_woken_wait"] = stats.get("cases_with_woken_wait", 0) + 1
    if fail == "uaf":
        fail = WHAT_UAF if known else (WHAT_UAF_WAKE if len(c.get("cfg", [])) > 4 and c["cfg"][4] == 1 else WHAT_UAF_OTHER)
        stats["detail"] = "%d accesses after free" % mon.get("uaf", 0)
    return (d, fail, known)


def real_threads(ctx, rounds, reps=1, args=None):
    """unscheduled supplementary search: the three real condition-variable strategies, monitors of the property itself.
    Only hard violations count: a wrong execution counter / result at the response, occupancy > 1, a crash, no termination."""
    rsrc = os.path.join(vcheck.VERIF, "harness/C23/real.cpp")
    rexe = vcheck.cxx_build([rsrc] + fc_util.BOOST_LIBS, os.path.join(ctx.work, "real"), hook=False, link_cds=False, opt="-O2")
    st = {"runs": 0, "requests": 0, "invoke_exclusive": 0, "thread_exits": 0, "violations": 0}
    for k in range(rounds):
        a = args if args is not None else [str([3, 4, 6][ctx.rng.below(3)]), "1500", "0.6", str(1 + ctx.rng.below(1000000))]
        for _ in range(reps):
            rc, out = vcheck.sh([rexe] + a, timeout=90)
            st["runs"] += 1
            lines = [l.split() for l in out.split("\n") if l.startswith("real ")]
            bad = None
            if rc != 0 or len(lines) != 3:
                bad = "crash or no termination (exit status %s, %d of 3 strategies finished)" % (rc, len(lines))
            for t in lines:
                d = dict(zip(t[2::2], t[3::2]))
                st["requests"] += int(d.get("ops", 0)); st["invoke_exclusive"] += int(d.get("excl", 0)); st["thread_exits"] += int(d.get("exits", 0))
                if int(d.get("bad_exec", 0)) > 0 or int(d.get("early_response", 0)) > 0 or int(d.get("max_inside", 0)) > 1:
                    bad = "strategy %s: %s" % (t[1], " ".join(t[2:]))
            if bad:
                st["violations"] += 1
                ctx.violation(WHAT_REAL, {"real_args": a, "detail": bad, "output": out[-1500:],
                                          "how_to_rerun": "harness/C23/real.cpp built without the hook; arguments: threads, requests per thread, seconds per strategy, seed (real threads: not deterministic)"})
                return st
    return st


def run(ctx):
    res = vcheck.coq_build(["Properties/Properties_C23.v"])
    ctx.coq_evidence(res)
    model = conc_check.build_model(ctx, "Extract_FcKernelWake.v")
    src = os.path.join(vcheck.VERIF, "harness/C23/main.cpp")
    impl = vcheck.cxx_build([src] + fc_util.BOOST_LIBS, os.path.join(ctx.work, "harness"), hook=True, link_cds=False)

    if ctx.replay:
        rp = json.load(open(ctx.replay))
        if "real_args" in rp:
            st = real_threads(ctx, 1, reps=20, args=rp["real_args"])
            ctx.coverage.update({"evaluations": st["runs"], "distinct_nontrivial": st["runs"], "rule": "re-runs of one real-thread configuration", "real_threads": st})
            return ctx.finish(vcheck.STD_TRUSTED, ["real threads: the run is not deterministic"])
        cases = [rp["case"]]
    else:
        cases = []
        cdir = os.path.join(vcheck.VERIF, "corpus", "C23")
        for f in sorted(os.listdir(cdir)) if os.path.isdir(cdir) else []:
            if f.endswith(".json"):
                cases.append(json.load(open(os.path.join(cdir, f))))
    ncorpus = len(cases)
    if not ctx.replay:
        cases += gen_cases(ctx, 12000 if ctx.thorough() else 2000)

    rc1, mlog, rc2, ilog, raw = fc_util.run_both_par(ctx, model, impl, cases, timeout=(900 if ctx.thorough() else 240))
    stats = {}
    shapes = set(); nontrivial = set(); feat_hist = {}; kind_hist = {}; strat_hist = {}; steps = 0
    diverged = 0; first_div = None; concrete = 0; known_uaf = 0
    for c in cases:
        m = mlog.get(c["id"]); i = ilog.get(c["id"])
        if m is not None:
            f = features(m["lines"])
            h = hash(tuple(m["lines"]))
            shapes.add(h)
            for x in f:
                feat_hist[x] = feat_hist.get(x, 0) + 1
            if f & {"helped", "pair_collided", "record_freed", "cas_failed"}:
                nontrivial.add(h)
            kind_hist[c.get("kind", "corpus")] = kind_hist.get(c.get("kind", "corpus"), 0) + 1
            sk = "wakeup_any" if len(c.get("cfg", [])) > 4 and c["cfg"][4] == 1 else "backoff"
            strat_hist[sk] = strat_hist.get(sk, 0) + 1
            if sk == "wakeup_any" and any(" ev lock" in l for l in m["lines"]):
                # the walk of wakeup_any shows as loads between "lock" and "unlock" by a thread that executes nothing; count
                # the cases in which a requester found its request answered after try_lock (the path that calls wakeup())
                if wakeup_path(m["lines"]):
                    feat_hist["wakeup_after_trylock"] = feat_hist.get("wakeup_after_trylock", 0) + 1
        if i is not None:
            steps += len(i["lines"])
        d, fail, known = analyse(ctx, c, m, i, stats)
        if known:
            known_uaf += 1
            ctx.violation(WHAT_UAF, {"case": c, "impl_log": i["lines"], "monitor": i["extra"]}, signature=SIG_UAF)
            continue
        if fail:
            concrete += 1
            ctx.violation(fail, {"case": c, "impl_log": i["lines"], "monitor": i["extra"], "detail": stats.get("detail"), "first_divergence_from_model": d})
        if d is not None:
            diverged += 1
            if first_div is None:
                first_div = (c, d)

    for c in fc_util.first_unfinished(cases, ilog):
        m = mlog.get(c["id"])
        if m is not None and m["end"] == "finished":
            concrete += 1
            ctx.violation(WHAT_HANG, {"case": c, "model_log_tail": m["lines"][-40:]})

    if first_div is not None and concrete == 0 and not ctx.replay:
        # the correspondence broke and no monitor fired on these cases: search an enlarged seed set with the monitors
        found = False
        for rnd in range(2):
            more = gen_cases(ctx, 3000, prefix="s%d_" % rnd)
            _, ml2, _, il2, _ = fc_util.run_both_par(ctx, model, impl, more, tag="search", timeout=(900 if ctx.thorough() else 240))
            for c2 in more:
                m2 = ml2.get(c2["id"]); i2 = il2.get(c2["id"])
                d2, fail2, known2 = analyse(ctx, c2, m2, i2, stats)
                if fail2 and not known2:
                    def fails(vs):
                        _, ml3, _, il3, _ = fc_util.run_both_par(ctx, model, impl, vs, tag="min", timeout=600)
                        out = []
                        for v in vs:
                            d3, f3, k3 = analyse(ctx, v, ml3.get(v["id"]), il3.get(v["id"]), stats)
                            out.append(bool(f3) and not k3)
                        return out
                    cmin = fc_util.minimise(c2, fails)
                    _, ml4, _, il4, _ = fc_util.run_both_par(ctx, model, impl, [cmin], tag="min", timeout=600)
                    d4, f4, k4 = analyse(ctx, cmin, ml4.get(cmin["id"]), il4.get(cmin["id"]), stats)
                    ctx.violation(f4 or fail2, {"case": cmin, "impl_log": il4[cmin["id"]]["lines"], "monitor": il4[cmin["id"]]["extra"],
                                                "detail": stats.get("detail"), "first_divergence_from_model": d4, "unminimised_case": c2})
                    found = True
                    break
            if found:
                break
        if not found:
            c, d = first_div
            ctx.violation("step correspondence between LV.Model.FcKernel and cds/algo/flat_combining/kernel.h no longer holds",
                          {"correspondence": "Model/FcKernel.v vs cds::algo::flat_combining::kernel (counting container)", "case": c, "first_divergence": d}, no_input=True)

    real = None
    if not ctx.replay:
        real = real_threads(ctx, 12 if ctx.thorough() else 4)

    asan = None
    if ctx.thorough() and not ctx.replay:
        # really free the records and let AddressSanitizer watch (no log comparison: the run may abort)
        exe2 = vcheck.cxx_build([src] + fc_util.BOOST_LIBS, os.path.join(ctx.work, "harness_asan"), hook=True, link_cds=False,
                                extra=("-DVERIF_REAL_FREE", "-fsanitize=address", "-fno-omit-frame-pointer"))
        acases = gen_cases(ctx, 3000, prefix="a")
        bad = 0; known = 0
        for k in range(0, len(acases), 50):
            chunk = acases[k:k + 50]
            rc, il, out = fc_util.run_impl(ctx, exe2, chunk, "asan", env={"ASAN_OPTIONS": "detect_leaks=0:abort_on_error=0"})
            if "heap-use-after-free" in out:
                # which case: the first one without an 'endcase'
                culprit = next((c for c in chunk if c["id"] not in il or il[c["id"]]["end"] is None), chunk[-1])
                # the model decides whether this is the known free-while-linked race
                _, ml, _, _, _ = fc_util.run_both_par(ctx, model, impl, [culprit], tag="asan1")
                mm = ml.get(culprit["id"])
                if mm is not None and fc_util.split_model_uaf(mm) > 0:
                    known += 1
                    ctx.violation(WHAT_UAF, {"case": culprit, "asan": out[-1500:]}, signature=SIG_UAF)
                else:
                    bad += 1
                    ctx.violation("AddressSanitizer: heap-use-after-free on a publication record of flat_combining::kernel", {"case": culprit, "asan": out[-3000:]})
        asan = {"cases": len(acases), "use_after_free_reports_known": known, "use_after_free_reports_other": bad}

    if not res.ok:
        ctx.violation("Coq obligations of C23 do not check: %s" % (res.failed[:2],), {"theorem": [f[2] for f in res.failed], "errors": res.failed[:3]}, no_input=True)
    ctx.coverage.update({
        "evaluations": len(cases), "distinct_nontrivial": len(nontrivial),
        "rule": "program x schedule pairs (2-4 threads, 1-3 operations each: request through combine / batch_combine, thread exit, and - with the wakeup_any strategy, half of the cases - invoke_exclusive; compact factor 1-2, combine pass count 1-2; uniform, bursty, run-then-switch, PCT-like and wakeup-race schedules from one splitmix64 stream); distinct = distinct model event logs; non-trivial = a request executed by another thread's combiner session, a pair completed by fc_process, a failed CAS, or a record freed by compact_list",
        "distinct_event_logs": len(shapes), "impl_steps_compared": steps, "diverged": diverged, "corpus_cases": ncorpus,
        "traces_validated_against_impl": len(cases) - diverged, "feature_histogram": feat_hist, "schedule_kinds": kind_hist,
        "wait_strategies": strat_hist, "impl_waits_woken_by_notification": stats.get("impl_waits_woken_by_notification", 0),
        "cases_with_woken_wait": stats.get("cases_with_woken_wait", 0), "real_threads": real,
        "cases_showing_known_free_while_linked": known_uaf, "asan": asan,
        "model_lost_markers": stats.get("model_lost_markers", 0), "model_uaf_markers": stats.get("model_uaf_markers", 0),
        "samples": [cases[ncorpus]] if len(cases) > ncorpus else cases[:1],
        "modelled": "cds::algo::flat_combining::kernel: acquire_record, publish, republish, combine, batch_combine, try_combining, wait_for_combining (incl. the calls of the wait strategy's wait / wakeup), combining, combining_pass, batch_combining, iterator/skip_inactive, operation_done, compact_list, tls_cleanup, release_record, wakeup_any, invoke_exclusive (cds::sync::spin::lock)",
    })
    return ctx.finish(vcheck.STD_TRUSTED + ["hook layer: khizmax_libcds_verif::atomic<T>, baton scheduler, event log (hooks/include)", "ocaml/conc_main.ml event printer",
                                            "harness/C23 counting container, lock_type wrapper (lock/unlock events), quarantine allocator and wake_strategy (multi_mutex_multi_condvar without its mutex and condition variable)", "boost::thread_specific_ptr (thread exit is executed as m_pThreadRec.reset() inside the scheduled region)"],
                      ["sequential consistency: memory_order arguments are not modelled", "compare_exchange_weak never fails spuriously under the hook",
                       "wait strategies under the scheduler: wait_strategy::backoff, and a strategy with the atomic accesses, the notification flag and the wakeup_any() call of multi_mutex_multi_condvar but without its std::mutex / std::condition_variable (a wait that would block is a wait that timed out); the three real condition-variable strategies run only in the unscheduled real-thread search (harness/C23/real.cpp)",
                       "freed records are zero-filled by the harness allocator and by the model (what a later reader sees is allocator-dependent in reality)"])
