"""C15 — skip lists and trees are linearizable ordered sets and maps (DESIGN 7, C15).

Observable correspondence (DESIGN 3.3) for every variant of the property's list, plus (stage C) the step
correspondence of LV.Model.SkipList with cds::intrusive::SkipListSet<HP>:

  * harness/C15/main.cpp (8 translation units, -DC15_GROUP=0..7) runs 2-3 thread programs over keys 0..5 on the
    REAL SkipListSet/Map (HP, DHP, RCU general_instant, RCU general_buffered; deterministic tower heights taken from
    the case: forced low / high / mixed), EllenBinTreeSet/Map (HP, DHP, RCU x2), BronsonAVLTreeMap (value and pointer
    variants x {injecting_monitor, pool_monitor} x {general_instant, general_buffered}) and the intrusive SkipListSet /
    EllenBinTree (HP, RCU: unlink) under the deterministic scheduler and prints the history;
  * every history is decided by the extracted, verified `lincheck` (Properties_C15: C15_oracle_*_decides) against
    SetSpec / MapSpec.  Encoding of the history for the checker:
      - a prefix of sequential inserts (thread 90, the pre-filled keys) and a suffix of sequential finds of every key
        (thread 91, the quiescent sweep) are part of the history, so the final contents are checked too;
      - extract_min/extract_max -> k   is presented as  erase k -> true  (clause "a returned key was present");
        extract_min/extract_max -> empty as the strict  extract_min -> none  of SetSpec (clause "empty only if empty
        at some instant of the call"; for maps on the key-set abstraction of the history); clause "no key present
        throughout the call is smaller/larger" is decided per key j by a phantom  contains j -> false  spanning the
        call, on the history projected to key j (Proofs/SkipSeqEncoding.v: the encoding is weaker than the strict
        SExtractMin, never incomparable; Properties_C15: the strict one is NOT what the skip list provides);
      - skip-list / Ellen MAPS: insert_with / update that create the key run the user's functor AFTER the node is
        linked (documented libcds contract), so the key is visible with a default value first: presented as
        insert k 0  followed by a pending  update k v false  of a phantom thread (the write happens at some later
        instant, or never if the node is removed first);
      - intrusive unlink(item) -> false carries no information about the key (the item may simply not be the one in
        the set) and is dropped; unlink -> true is  erase k -> true  and the item must be one this thread inserted.
  * functor contract monitor (called exactly once iff the operation succeeded, with the right item).
"""
import os, json, re, time, hashlib
import concurrent.futures as cf
import vcheck

NKEYS = 8
SHARED = os.path.join(vcheck.WORK, "C15_shared")

# variant -> (name, kind, family, window)   window: functor-after-link value window (skip/Ellen maps)
VARIANTS = {}
for g, (nm, kind, fam) in {0: ("SkipListSet", "set", "skip"), 1: ("SkipListMap", "map", "skip"),
                           2: ("EllenBinTreeSet", "set", "ellen"), 3: ("EllenBinTreeMap", "map", "ellen")}.items():
    for i, gc in enumerate(["HP", "DHP", "RCU_gpi", "RCU_gpb"]):
        VARIANTS[g * 10 + i] = ("%s<%s>" % (nm, gc), kind, fam, kind == "map")
for g, nm in {4: "BronsonAVLTreeMap<%s,int,T,%s>", 5: "BronsonAVLTreeMap<%s,int,T*,%s>"}.items():
    for i, (gc, mon) in enumerate([("RCU_gpi", "injecting_monitor"), ("RCU_gpi", "pool_monitor"),
                                   ("RCU_gpb", "injecting_monitor"), ("RCU_gpb", "pool_monitor")]):
        VARIANTS[g * 10 + i] = (nm % (gc, mon), "map", "bronson", False)
VARIANTS[60] = ("intrusive::SkipListSet<HP>", "iset", "skip", False)
VARIANTS[61] = ("intrusive::SkipListSet<RCU_gpi>", "iset", "skip", False)
VARIANTS[70] = ("intrusive::EllenBinTree<HP>", "iset", "ellen", False)
VARIANTS[71] = ("intrusive::EllenBinTree<RCU_gpi>", "iset", "ellen", False)

OPNAMES = {1: "insert", 2: "insert_f", 3: "update", 4: "upsert", 5: "emplace", 6: "erase", 7: "erase_f", 8: "extract",
           9: "unlink", 10: "contains", 11: "find_f", 12: "get", 13: "extract_min", 14: "extract_max"}
INSERTING = (1, 2, 3, 4, 5)
MUTATING = (1, 2, 3, 4, 5, 6, 7, 8, 9, 13, 14)


# ---------------------------------------------------------------------------------------------------------
# builds

def build_lincheck(ctx):
    d = os.path.join(SHARED, "lin")
    os.makedirs(d, exist_ok=True)
    srcs = [os.path.join(vcheck.COQ, "Extract", "Extract_Lin.v"), os.path.join(vcheck.VERIF, "ocaml", "lincheck_main.ml"),
            os.path.join(vcheck.COQ, "Base", "Lin.v"), os.path.join(vcheck.COQ, "Spec", "Specs.v")]
    key = vcheck.file_hash(srcs)
    exe = os.path.join(d, "lincheck")
    stamp = exe + ".key"
    if os.path.exists(exe) and os.path.exists(stamp) and open(stamp).read() == key:
        return exe
    vcheck.coq_makefile()
    rc, out = vcheck.sh(["make", "-j4", "Base/Lin.vo", "Spec/Specs.vo"], cwd=vcheck.COQ, timeout=900)
    if rc != 0:
        raise vcheck.BuildError("Lin/Specs do not build:\n" + out[-2000:])
    rc, out = vcheck.extract("Extract_Lin.v", d)
    if rc != 0:
        raise vcheck.BuildError("extraction of lincheck failed:\n" + out[-2000:])
    rc, out = vcheck.ocaml_build(d, ["lin.mli", "lin.ml", os.path.join(vcheck.VERIF, "ocaml", "lincheck_main.ml")], exe)
    if rc != 0:
        raise vcheck.BuildError("ocaml build of lincheck failed:\n" + out[-2000:])
    open(stamp, "w").write(key)
    return exe


def build_groups(ctx, groups, src="harness/C15/main.cpp", flag="C15_GROUP", tag="g"):
    """compile the harness once per group, in parallel; cached by vcheck.cxx_build (content hash of sources + /repo)"""
    vcheck.libcds(True)
    d = os.path.join(SHARED, "bin" + ("" if vcheck.REPO == "/repo" else "_" + hashlib.sha256(vcheck.REPO.encode()).hexdigest()[:8]))
    os.makedirs(d, exist_ok=True)
    exes, errs = {}, {}
    # headers under harness/C15 and harness/C18 are not part of cxx_build's cache key: make them part of the flags
    import glob as _glob
    hh = vcheck.file_hash(_glob.glob(os.path.join(vcheck.VERIF, "harness", "C15", "*")) + _glob.glob(os.path.join(vcheck.VERIF, "harness", "C18", "*")))

    def one(g):
        return g, vcheck.cxx_build(os.path.join(vcheck.VERIF, src), os.path.join(d, "%s%d" % (tag, g)), hook=True,
                                   extra=("-D%s=%d" % (flag, g), "-DVERIF_SRC_HASH=0x%s" % hh), timeout=1500)
    with cf.ThreadPoolExecutor(max_workers=min(8, len(groups))) as ex:
        futs = {ex.submit(one, g): g for g in groups}
        for f in cf.as_completed(futs):
            try:
                g, exe = f.result()
                exes[g] = exe
            except vcheck.BuildError as e:
                errs[futs[f]] = str(e)
    if errs:
        g = sorted(errs)[0]
        raise vcheck.BuildError("group %d: %s" % (g, errs[g]))
    return exes


# ---------------------------------------------------------------------------------------------------------
# generation

def gen_case(rng, variant, cid, nkeys=None, maxops=4):
    name, kind, fam, window = VARIANTS[variant]
    nth = 2 if rng.chance(2, 3) else 3
    nk = nkeys or rng.choice([2, 3, 4, 6])
    mask = rng.below(1 << nk)
    hmode = rng.choice(["low", "high", "mixed"]) if fam == "skip" else "na"

    def h():
        if hmode == "low":
            return 0
        if hmode == "high":
            return 7
        return rng.choice([0, 0, 1, 2, 3, 7])
    cfg = [variant, mask] + [h() for _ in range(NKEYS)]
    profile = rng.below(4)
    if profile == 0:      # everything
        codes = [1, 2, 3, 4, 5, 6, 7, 8, 9, 10, 11, 12, 13, 13, 14, 14]
    elif profile == 1:    # extract_min/max against updates
        codes = [1, 4, 6, 13, 13, 13, 14, 14, 14, 10]
    elif profile == 2:    # insert / erase / find collisions
        codes = [1, 2, 5, 6, 7, 8, 9, 10, 11, 12]
    else:                 # update / upsert / find (values)
        codes = [3, 4, 4, 2, 6, 11, 12, 11, 8]
    threads = []
    for t in range(nth):
        ops = []
        for _ in range(1 + rng.below(maxops)):
            ops.append([rng.choice(codes), rng.below(nk), 1 + rng.below(60), h()])
        threads.append(ops)
    skind = rng.below(4)
    if skind == 0:
        sched = [rng.below(nth) for _ in range(40 + rng.below(700))]
    elif skind == 1:     # bursts
        sched = []
        for _ in range(2 + rng.below(30)):
            sched += [rng.below(nth)] * (1 + rng.below(80))
    elif skind == 2:     # run one thread to a point, then the others, then mix
        sched = [rng.below(nth)] * (3 + rng.below(250)) + [rng.below(nth)] * (3 + rng.below(250)) + [rng.below(nth) for _ in range(300)]
    else:                # exhausted at once: strict round-robin
        sched = []
    return {"id": cid, "cfg": cfg, "threads": threads, "sched": sched, "hmode": hmode, "variant": variant}


def write_cases(path, cases):
    with open(path, "w") as f:
        for c in cases:
            f.write("case %s\n" % c["id"])
            f.write("cfg %s\n" % " ".join(map(str, c["cfg"])))
            for th in c["threads"]:
                f.write("thread %s\n" % " ; ".join(" ".join(map(str, op)) for op in th))
            f.write("sched %s\n" % " ".join(map(str, c["sched"])))
            f.write("end\n")


# ---------------------------------------------------------------------------------------------------------
# harness output

def parse_output(text):
    res, cur = {}, None
    for line in text.split("\n"):
        line = line.rstrip()
        if line.startswith("case "):
            cur = {"events": [], "end": None, "mon": {}, "struct": {}}
            res[line[5:].strip()] = cur
        elif cur is None or not line:
            continue
        elif line.startswith("endcase"):
            cur["end"] = line[8:].strip()
        elif line.startswith("monitor struct "):
            t = line.split(" ")
            cur["struct"][t[2]] = (t[3] == "1", " ".join(t[4:]))
        elif line.startswith("monitor "):
            t = line.split(" ")
            cur["mon"][t[1]] = t[2:]
        elif cur["end"] is None:
            t = line.split(" ")
            if len(t) >= 6 and t[1] == "ev":
                cur["events"].append((int(t[0]), t[2], int(t[3]), int(t[4]), int(t[5])))
    return res


def ops_of(case, out):
    """-> (ops, nev): ops in invocation order with positions of inv / res in one global event sequence.
    The sequence is: prefill ops (thread 90), worker events in log order, final sweep (thread 91)."""
    ops, pos = [], 0
    for kv in out["mon"].get("prefill", []):
        k, ok = kv.split(":")
        ops.append({"t": 90, "code": 1, "k": int(k), "v": 100 + int(k), "inv": pos, "res": pos + 1, "r": (int(ok), 0, 0)})
        pos += 2
    for kv in out["mon"].get("preerase", []):
        k, ok = kv.split(":")
        ops.append({"t": 90, "code": 6, "k": int(k), "v": 0, "inv": pos, "res": pos + 1, "r": (int(ok), 0, 0)})
        pos += 2
    cur = {}
    for (t, kind, a, b, c) in out["events"]:
        if kind == "inv":
            o = {"t": t, "code": a, "k": b, "v": c, "inv": pos, "res": None, "r": None}
            cur[t] = o
            ops.append(o)
        else:
            o = cur.pop(t, None)
            if o is not None:
                o["res"] = pos
                o["r"] = (a, b, c)
        pos += 1
    for kv in out["mon"].get("final", []):
        k, f, v = kv.split(":")
        ops.append({"t": 91, "code": 11, "k": int(k), "v": 0, "inv": pos, "res": pos + 1, "r": (int(f), int(v), 0)})
        pos += 2
    return ops, pos


def B(x):
    return "true" if x else "false"


def enc_set(o, intrusive):
    """-> (inv text, res text) or None when the operation is dropped from the history"""
    c, k, r = o["code"], o["k"], o["r"]
    if c in (1, 2, 5):
        return ("insert %d" % k, B(r[0]))
    if c == 3:
        return ("update %d false" % k, "pair %s %s" % (B(r[0]), B(r[1])))
    if c == 4:
        return ("upsert %d" % k, "pair %s %s" % (B(r[0]), B(r[1])))
    if c in (6, 7, 8):
        return ("erase %d" % k, B(r[0]))
    if c == 9:
        if not intrusive:
            return ("erase %d" % k, B(r[0]))
        return ("erase %d" % k, "true") if r[0] else None
    if c in (10, 11, 12):
        return ("contains %d" % k, B(r[0]))
    if c in (13, 14):
        if r[0]:
            return ("erase %d" % r[1], "true")
        return ("extract_min" if c == 13 else "extract_max", "none")
    return None


def enc_map(o, window):
    """-> (inv, res, phantom or None) or None;  phantom = text of a pending operation of a fresh thread invoked
    right after this operation's invocation (the functor's late write)"""
    c, k, v, r = o["code"], o["k"], o["v"], o["r"]
    if c in (1, 5):
        return ("insert %d %d" % (k, v), B(r[0]), None)
    if c == 2:
        if window:
            return ("insert %d 0" % k, B(r[0]), ("update %d %d false" % (k, v)) if r[0] else None)
        return ("insert %d %d" % (k, v), B(r[0]), None)
    if c in (3, 4):
        if window and r[0] and r[1]:
            return ("insert %d 0" % k, "true", "update %d %d false" % (k, v))
        return ("update %d %d %s" % (k, v, B(c == 4)), "pair %s %s" % (B(r[0]), B(r[1])), None)
    if c in (6, 7, 8, 9):
        return ("erase %d" % k, B(r[0]), None)
    if c == 10:
        return ("contains %d" % k, B(r[0]), None)
    if c in (11, 12):
        return ("find %d" % k, ("some %d" % r[1]) if r[0] else "none", None)
    if c in (13, 14):
        return ("erase %d" % r[1], "true", None) if r[0] else None
    return None


def render(ops, nev, enc, extra=()):
    """ops with (inv,res,text) encodings -> lincheck input lines.  extra: [(position, before: bool, line)]"""
    at = {}
    ph = 300
    for o in ops:
        e = enc(o)
        if e is None or o["res"] is None and False:
            continue
        at.setdefault(o["inv"], []).append("inv %d %s" % (o["t"], e[0]))
        if len(e) > 2 and e[2]:
            at[o["inv"]].append("inv %d %s" % (ph, e[2]))
            ph += 1
        if o["res"] is not None:
            at.setdefault(o["res"], []).append("res %d %s" % (o["t"], e[1]))
    for (p, before, line) in extra:
        if before:
            at.setdefault(p, []).insert(0, line)
        else:
            at.setdefault(p, []).append(line)
    lines = []
    for p in range(nev):
        lines += at.get(p, [])
    return lines


def key_of_op(o):
    if o["code"] in (13, 14):
        return o["r"][1] if (o["r"] and o["r"][0]) else None
    return o["k"]


def clause3_histories(ops, nev, intrusive):
    """for every extract_min/max that returned k, and every smaller/larger key j that some operation could have
    inserted: the history projected on j plus a phantom `contains j -> false` spanning the call"""
    hs = []
    insertable = set(o["k"] for o in ops if o["code"] in INSERTING)
    for x in ops:
        if x["code"] not in (13, 14) or not x["r"] or not x["r"][0] or x["res"] is None:
            continue
        kk = x["r"][1]
        for j in sorted(insertable):
            if (x["code"] == 13 and j < kk) or (x["code"] == 14 and j > kk):
                proj = [o for o in ops if o["r"] is not None and key_of_op(o) == j]
                extra = [(x["inv"], False, "inv 200 contains %d" % j), (x["res"], True, "res 200 false")]
                hs.append((x, j, render(proj, nev, lambda o: enc_set(o, intrusive), extra)))
    return hs


def overlapping_conflict(ops):
    """non-trivial: two operations of different worker threads overlap in time, touch the same key (extract_min/max:
    any key) and at least one of them mutates"""
    w = [o for o in ops if o["t"] < 90 and o["res"] is not None]
    for i in range(len(w)):
        for j in range(i + 1, len(w)):
            a, b = w[i], w[j]
            if a["t"] == b["t"] or a["res"] < b["inv"] or b["res"] < a["inv"]:
                continue
            if a["code"] not in MUTATING and b["code"] not in MUTATING:
                continue
            if a["code"] in (13, 14) or b["code"] in (13, 14) or a["k"] == b["k"]:
                return True
    return False


def run_lincheck(lin, spec, histories, workdir, tag):
    """histories: list of list of lines -> list of verdict strings"""
    if not histories:
        return []
    inp = os.path.join(workdir, "lin_%s_%s.txt" % (tag, spec))
    with open(inp, "w") as f:
        for h in histories:
            f.write("\n".join(h) + "\n---\n")
    rc, out = vcheck.sh("%s %s < %s" % (lin, spec, inp), timeout=1200)
    v = [l.strip() for l in out.split("\n") if l.strip()]
    if len(v) != len(histories):
        raise RuntimeError("lincheck returned %d verdicts for %d histories (rc=%d): %s" % (len(v), len(histories), rc, out[-500:]))
    return v


def run_harness(exe, cases, workdir, tag, timeout=1500):
    """runs the cases; a case that hangs (watchdog of the harness: "endcase hang", exit status 3) is recorded and the
    remaining cases are run in a fresh process"""
    outs, raw_all, rc = {}, "", 0
    todo = list(cases)
    rnd = 0
    while todo:
        cfile = os.path.join(workdir, "cases_%s_%d.txt" % (tag, rnd))
        write_cases(cfile, todo)
        rc, raw = vcheck.sh([exe, cfile], timeout=timeout)
        raw_all = raw
        o = parse_output(raw)
        outs.update(o)
        hung = [i for i, c in enumerate(todo) if o.get(c["id"], {}).get("end") == "hang"]
        if not hung:
            break
        todo = todo[hung[0] + 1:]
        rnd += 1
    return rc, outs, raw_all


# ---------------------------------------------------------------------------------------------------------
# quiescent-point checks shared with C18

def quiescent_checks(case, out, kind, fam, concurrent=True):
    """-> list of (what, detail): traversal exact / size / empty / structural monitors of one quiescent point"""
    bad = []
    mon = out["mon"]
    it = [tuple(map(int, kv.split(":"))) for kv in mon.get("iter", [])]
    fin = [tuple(map(int, kv.split(":"))) for kv in mon.get("final", [])]
    present = [(k, v) for (k, f, v) in fin if f]
    keys = [k for k, _ in it]
    if any(keys[i] >= keys[i + 1] for i in range(len(keys) - 1)):
        bad.append(("traversal not strictly increasing / key visited twice", {"iter": it}))
    if keys != [k for k, _ in present]:
        bad.append(("traversal differs from the set of keys found by lookups", {"iter": it, "found": present}))
    elif kind == "map" and it != present:
        bad.append(("traversal values differ from the values found by lookups", {"iter": it, "found": present}))
    if "size" in mon:
        size, empty = int(mon["size"][0]), int(mon["size"][2])
        if size != len(it):
            bad.append(("size() disagrees with the contents", {"size": size, "iter": it}))
        if empty != (1 if not it else 0):
            bad.append(("empty() disagrees with the contents", {"empty": empty, "iter": it}))
    for name, (ok, detail) in out["struct"].items():
        if ok:
            continue
        if name == "skip_towers_complete":
            continue     # stronger than the property (informational)
        if name == "bronson_no_removable_routing_node" and concurrent:
            continue     # relaxed structure after concurrent histories: opportunistic clean-up only (informational)
        bad.append(("structural check %s fails at a quiescent point" % name, {"detail": detail}))
    if int((mon.get("functor_bad") or ["0"])[0]) != 0:
        bad.append(("functor contract violated (called a wrong number of times / with a wrong item)", {"count": mon["functor_bad"][0]}))
    return bad


# ---------------------------------------------------------------------------------------------------------
def check_variant(ctx, lin, exe, variant, cases, workdir, stats):
    """run the cases of one variant, decide every history; returns list of violations (what, replay, signature)"""
    name, kind, fam, window = VARIANTS[variant]
    intrusive = kind == "iset"
    spec = "map" if kind == "map" else "set"
    rc, outs, raw = run_harness(exe, cases, workdir, "v%d" % variant)
    viol = []
    st = stats.setdefault(variant, {"name": name, "cases": 0, "finished": 0, "fuel": 0, "nontrivial": 0, "histories_ok": 0,
                                    "extract_calls": 0, "extract_empty": 0, "clause3_checks": 0, "steps": 0,
                                    "ops": {}, "hangs": 0, "window_inserts": 0, "unlink_dropped": 0, "shapes": set(), "routing_leftover": 0})
    main, mainidx, setabs, setabsidx, c3, c3idx = [], [], [], [], [], []
    hangs = stats.setdefault("_hangs", [])
    for c in cases:
        st["cases"] += 1
        o = outs.get(c["id"])
        if o is None or o["end"] is None:
            viol.append(("harness produced no output for a case (crash / deadlock of the real container under the scheduler)",
                         {"case": c, "variant": name, "harness_rc": rc, "tail": raw[-600:]}, None))
            break
        if o["end"] == "hang":
            st["hangs"] += 1
            hangs.append(c)
            continue
        if o["end"] != "finished":
            st["fuel"] += 1
            continue
        st["finished"] += 1
        st["steps"] += int((o["mon"].get("steps") or ["0"])[0])
        ops, nev = ops_of(c, o)
        c["_ops"] = ops
        for x in ops:
            if x["t"] < 90:
                st["ops"][OPNAMES.get(x["code"], "?")] = st["ops"].get(OPNAMES.get(x["code"], "?"), 0) + 1
        if any(x["res"] is None for x in ops):
            viol.append(("operation without response in a finished run", {"case": c, "variant": name}, None))
            continue
        if overlapping_conflict(ops):
            st["nontrivial"] += 1
        st["shapes"].add(hash(tuple(o["events"])))
        if not o["struct"].get("bronson_no_removable_routing_node", (True, ""))[0]:
            st["routing_leftover"] += 1
        for what, detail in quiescent_checks(c, o, kind, fam):
            viol.append(("%s: %s" % (name, what), {"case": c, "variant": name, "detail": detail, "events": o["events"]}, None))
        # unlink identity clause
        for x in ops:
            if intrusive and x["code"] == 9:
                if x["r"][0] and not x["r"][1]:
                    viol.append(("%s: unlink() succeeded for an item that was not in the set" % name, {"case": c, "variant": name, "events": o["events"]}, None))
                if not x["r"][0]:
                    st["unlink_dropped"] += 1
            if x["code"] in (13, 14) and x["t"] < 90:
                st["extract_calls"] += 1
                if not x["r"][0]:
                    st["extract_empty"] += 1
        if kind == "map":
            main.append(render(ops, nev, lambda x: enc_map(x, window)))
            st["window_inserts"] += sum(1 for x in ops if window and ((x["code"] == 2 and x["r"][0]) or (x["code"] in (3, 4) and x["r"][0] and x["r"][1])))
            if any(x["code"] in (13, 14) and not x["r"][0] for x in ops):
                setabs.append(render(ops, nev, lambda x: enc_set(x, False)))
                setabsidx.append(c)
        else:
            main.append(render(ops, nev, lambda x: enc_set(x, intrusive)))
        mainidx.append(c)
        for (x, j, h) in clause3_histories(ops, nev, intrusive):
            c3.append(h)
            c3idx.append((c, x, j))
    bad_main = []
    for v, c, h in zip(run_lincheck(lin, spec, main, workdir, "v%d_main" % variant), mainidx, main):
        if v == "OK":
            st["histories_ok"] += 1
        else:
            bad_main.append((v, c, h))
    # classification of rejected histories (stable signatures for known_findings.json): which operations have to be
    # taken out of the history to make it linearizable
    def without(h, pred):
        drop = set()
        open_inv = {}
        for i, l in enumerate(h):
            t = l.split(" ")
            if t[0] == "inv":
                open_inv[t[1]] = i
            elif t[0] == "res" and t[1] in open_inv:
                j = open_inv.pop(t[1])
                if pred(h[j].split(" ")[2:], t[2:], int(t[1])):
                    drop.add(i); drop.add(j)
        return [l for i, l in enumerate(h) if i not in drop]
    rcu = "RCU" in name
    is_empty_extract = lambda op, r, t: op[0] in (("extract_min", "extract_max") if rcu else ("extract_max",)) and r == ["none"]
    is_pos_read = lambda op, r, t: t < 90 and ((op[0] == "contains" and r == ["true"]) or (op[0] == "find" and r[0] == "some"))
    if bad_main:
        h1 = [without(h, is_empty_extract) for (_, _, h) in bad_main]
        v1 = run_lincheck(lin, spec, h1, workdir, "v%d_cls1" % variant)
        h2 = [without(h, lambda op, r, t: is_empty_extract(op, r, t) or is_pos_read(op, r, t)) for (_, _, h) in bad_main]
        v2 = run_lincheck(lin, spec, h2, workdir, "v%d_cls2" % variant)
        is_failed_erase = lambda op, r, t: t < 90 and op[0] == "erase" and r == ["false"]
        h3 = [without(h, is_failed_erase) for (_, _, h) in bad_main]
        v3 = run_lincheck(lin, spec, h3, workdir, "v%d_cls3e" % variant)
        for (v, c, h), a, b, e3 in zip(bad_main, v1, v2, v3):
            sig, why = None, ""
            if fam == "skip" and rcu and e3 == "OK" and a != "OK":
                sig, why = "skiplist-rcu-remove-fails-before-competing-remove-lp", " [erase/extract(k) returned false although k was still present: it gave up on a competing remover's upper-level mark]"
            elif fam == "skip" and a == "OK":
                if rcu:
                    sig, why = "skiplist-rcu-extract_minmax-empty-on-contention", " [extract_min/extract_max returned empty while the set was never empty]"
                else:
                    sig, why = "skiplist-hp-extract_max-empty-while-nonempty", " [extract_max returned empty while the set was never empty]"
            elif fam == "skip" and b == "OK":
                sig, why = "skiplist-find-returns-logically-deleted", " [a find/contains/get succeeded for a key already erased]"
            viol.append(("%s: history is not linearizable w.r.t. %s (lincheck: %s)%s" % (name, "MapSpec" if spec == "map" else "SetSpec", v, why),
                         {"case": c, "variant": name, "history": h, "verdict": v}, sig))
    bad_abs = [(v, c, h) for v, c, h in zip(run_lincheck(lin, "set", setabs, workdir, "v%d_abs" % variant), setabsidx, setabs) if v != "OK"]
    va = run_lincheck(lin, "set", [without(h, is_empty_extract) for (_, _, h) in bad_abs], workdir, "v%d_cls3" % variant)
    for (v, c, h), a in zip(bad_abs, va):
        if True:
            sig = None
            if fam == "skip" and a == "OK":
                sig = "skiplist-rcu-extract_minmax-empty-on-contention" if rcu else "skiplist-hp-extract_max-empty-while-nonempty"
            viol.append(("%s: extract_min/extract_max returned empty although the map was never empty during the call (key-set abstraction not linearizable: %s)" % (name, v),
                         {"case": c, "variant": name, "history": h, "verdict": v}, sig))
    st["clause3_checks"] += len(c3)
    for v, (c, x, j), h in zip(run_lincheck(lin, "set", c3, workdir, "v%d_c3" % variant), c3idx, c3):
        if v != "OK":
            viol.append(("%s: %s returned %d although key %d was present throughout the call" % (name, OPNAMES[x["code"]], x["r"][1], j),
                         {"case": c, "variant": name, "projected_history": h, "verdict": v}, None))
    for c in cases:
        c.pop("_ops", None)
    return viol


# ---------------------------------------------------------------------------------------------------------
# IMPLEMENTATION-guided window schedules for variants without a step model (the RCU skip lists: seeded change C15d was missed).
# The harness logs every atomic access of the real code; `monitor tsteps` / `monitor twrites` give, per worker, the number of
# scheduled steps and which of them are CAS / exchange accesses.  lib/conc_windows2.expand() takes its probe profiles from runs
# of the REAL variant (profiler=...): each worker solo on the prefilled container, then the actor solo in the state "victim
# stalled right before its k-th write"; the window schedules are the same as for the step models (victim stalled before a
# write, actor exactly through one of its writes / its whole program, r swept, third thread before / after / in between).
# The oracle is the one of every observable case: verified lincheck on the history + quiescent monitors.
#   (name, prefill mask, tower heights of keys 0..7, programs [code, key, value, tower height])
WINDOW_OBS_SKIP = [
    ("erase_vs_succ_insert", 0b00000010, [0, 0, 0, 0, 0, 0, 0, 0], [[[6, 1, 0, 0]], [[1, 2, 21, 0]], [[10, 1, 0, 0]]]),
    ("erase_vs_succ_erase", 0b00000110, [0, 1, 0, 0, 0, 0, 0, 0], [[[6, 1, 0, 0]], [[6, 2, 0, 0]], [[1, 3, 31, 1]]]),
    ("extract_vs_succ_insert", 0b00000010, [0, 1, 0, 0, 0, 0, 0, 0], [[[8, 1, 0, 0]], [[1, 2, 21, 1]], [[6, 1, 0, 0]]]),
    ("ins_between_erases", 0b00000101, [1, 0, 0, 0, 0, 0, 0, 0], [[[1, 1, 11, 1]], [[6, 0, 0, 0]], [[6, 2, 0, 0]]]),
    ("extract_min_vs_updates", 0b00001110, [0, 0, 1, 0, 0, 0, 0, 0], [[[13, 0, 0, 0]], [[6, 2, 0, 0]], [[1, 0, 31, 0]]]),
    ("erase_ins_pairs", 0b00000100, [0, 0, 0, 0, 0, 0, 0, 0], [[[1, 1, 11, 0], [6, 1, 0, 0]], [[6, 2, 0, 0], [1, 2, 22, 1]]]),
]
WINDOW_OBS_VARIANTS_RCU = [2, 3, 12, 13, 61]                    # SkipListSet / SkipListMap / intrusive SkipListSet over RCU
WINDOW_OBS_VARIANTS_ALL = [0, 1, 2, 3, 10, 11, 12, 13, 60, 61]  # thorough: the HP / DHP skip lists too
WINDOW_OBS_QUICK = 220
WINDOW_OBS_THOROUGH = 2500


def gen_impl_window_cases(ctx, exe, variant, rng, workdir):
    """-> (cases, info) for one observable skip-list variant"""
    import conc_windows2

    def profiler(cases, tag):
        for c in cases:
            c["variant"] = variant
        rc, outs, raw = run_harness(exe, cases, workdir, "wp%d_%s" % (variant, tag), timeout=600)
        logs = {}
        for c in cases:
            o = outs.get(c["id"])
            if o is None or "tsteps" not in o["mon"] or o["end"] != "finished":
                continue
            ts = {i: int(x) for i, x in enumerate(o["mon"]["tsteps"])}
            tw = {}
            for item in o["mon"].get("twrites", []):
                t, _, ps = item.partition(":")
                tw[int(t)] = [int(x) for x in ps.split(",") if x]
            logs[c["id"]] = conc_windows2.pseudo_log(ts, tw)
        return logs
    th = ctx.thorough()
    templates = [{"name": n, "cfg": [variant, mask] + hs, "threads": parts, "setup": 0} for n, mask, hs, parts in WINDOW_OBS_SKIP]
    cases, info = conc_windows2.expand(None, workdir, templates, "wo%d_" % variant, r_values=(0, 1, 2, 3, 5, 8, 12) if th else (0, 1, 3, 8),
                                       read_points=False, max_wv=8, max_wa=5 if th else 4, staged=False, lazy=True, big=400, profiler=profiler)
    info["enumerated"] = len(cases)
    cases = conc_windows2.finalize(conc_windows2.stratified(rng, cases, WINDOW_OBS_THOROUGH if th else WINDOW_OBS_QUICK))
    for c in cases:
        c["variant"] = variant
        c["hmode"] = "window"
    info["run"] = len(cases)
    info.pop("per_template", None)
    return cases, info


# ---------------------------------------------------------------------------------------------------------
# Directed family for the delete-undo branch of EllenBinTree::help_delete (seeded change C15c: the grandparent's update word
# restored with the version number of the wrong node).  The branch needs a remover parked between its search and its DFlag CAS
# while an insert changes its parent, and its damage needs a second thread holding a search result on the same grandparent
# from before:   T: insert 2, 4, 1; erase 1            (G = (2|4), G.update clean #2)
#                A: insert(6) parked right before its IFlag CAS (its search saw G clean #2)
#                T: insert 1, insert 5                   (G gets new children; G clean #3, #4)
#                D: erase(1) parked right before its DFlag CAS
#                T: insert 3                             (changes D's parent: D's Mark CAS must fail)
#                D: DFlag CAS, Mark CAS fails, undo CAS on G, parked right after it;  A resumes;  D finishes.
# All step numbers are measured on the real variant (monitor tsteps / twrites of pilot runs), the final schedules sweep the
# three parking points by a few steps.  Unchanged code: A's IFlag CAS fails (G's version moved on), every history is linearizable.
ELLEN_UNDO_VARIANTS_QUICK = [70, 20]
ELLEN_UNDO_VARIANTS_ALL = [70, 20, 21, 30, 31]


def ellen_undo_family(ctx, lin, exes, stats):
    T = [[1, 2, 12, 0], [1, 4, 14, 0], [1, 1, 11, 0], [6, 1, 0, 0], [1, 1, 21, 0], [1, 5, 25, 0], [1, 3, 23, 0]]
    A = [[1, 6, 36, 0]]
    D = [[6, 1, 0, 0]]
    BIGN = 600
    info = {"variants": {}, "cases": 0}
    viol = []
    for variant in (ELLEN_UNDO_VARIANTS_ALL if ctx.thorough() else ELLEN_UNDO_VARIANTS_QUICK):
        exe = exes[variant // 10]
        cfg = [variant, 0] + [0] * NKEYS

        def pilot(tag, threads, sched):
            c = {"id": "eu%d_%s" % (variant, tag), "cfg": cfg, "threads": threads, "sched": sched, "variant": variant, "hmode": "na"}
            rc, outs, raw = run_harness(exe, [c], ctx.work, "eu%d_%s" % (variant, tag), timeout=120)
            o = outs.get(c["id"])
            if o is None or o["end"] != "finished" or "tsteps" not in o["mon"]:
                return None, None
            ts = [int(x) for x in o["mon"]["tsteps"]]
            tw = {}
            for item in o["mon"].get("twrites", []):
                t, _, ps = item.partition(":")
                tw[int(t)] = [int(x) for x in ps.split(",") if x]
            return ts, tw
        ts, tw = pilot("p1", [T[:4]], [0] * BIGN)
        if ts is None:
            continue
        L4 = ts[0]
        ts, tw = pilot("p2", [T[:4], A], [0] * L4 + [1] * BIGN)
        if ts is None or not tw.get(1):
            continue
        pA = tw[1][0]
        ts, tw = pilot("p3", [T[:6], A, D], [0] * L4 + [1] * (pA - 1) + [0] * BIGN)
        if ts is None:
            continue
        L6 = ts[0]
        pre3 = [0] * L4 + [1] * (pA - 1) + [0] * (L6 - L4)
        ts, tw = pilot("p4", [T[:6], A, D], pre3 + [2] * BIGN)
        if ts is None or not tw.get(2):
            continue
        pD = tw[2][0]
        ts, tw = pilot("p5", [T, A, D], pre3 + [2] * (pD - 1) + [0] * BIGN)
        if ts is None:
            continue
        L7 = ts[0]
        pre5 = pre3 + [2] * (pD - 1) + [0] * (L7 - L6)
        ts, tw = pilot("p6", [T, A, D], pre5 + [2] * BIGN)
        if ts is None or len(tw.get(2, [])) < 3:
            continue
        w3 = tw[2][2]
        cases = []
        for da in (0, 1, 2):                 # A parked 1, 2, 3 steps before its IFlag CAS
            for dd in (0, 1):                # D parked 1, 2 steps before its DFlag CAS
                for dw in (0, 1, 2, 4):      # D parked 0.. steps after its undo CAS
                    if pA - 1 - da < 1 or pD - 1 - dd < 1:
                        continue
                    sched = ([0] * L4 + [1] * (pA - 1 - da) + [0] * (L6 - L4) + [2] * (pD - 1 - dd) + [0] * (L7 - L6)
                             + [2] * (w3 - (pD - 1 - dd) + dw) + [1] * BIGN + [2] * BIGN)
                    cases.append({"id": "eundo%d_%d_%d_%d" % (variant, da, dd, dw), "cfg": cfg, "threads": [T, A, D], "sched": sched,
                                  "variant": variant, "hmode": "na", "kind": "ellen_undo"})
        info["variants"][str(variant)] = {"name": VARIANTS[variant][0], "setup_steps": L4, "A_first_cas_at": pA, "D_first_cas_at": pD, "D_undo_cas_at": w3, "schedules": len(cases)}
        info["cases"] += len(cases)
        viol += check_variant(ctx, lin, exe, variant, cases, ctx.work, stats)
    ctx.coverage["ellen_delete_undo_family"] = info
    return viol


def run_observable(ctx, lin, exes, variants, n_per_variant, stats, corpus=()):
    """all variants in parallel (one harness process per variant)"""
    jobs = []
    for v in variants:
        rng = ctx.rng.fork()
        cases = [c for c in corpus if c.get("variant") == v and not c.get("step") and not c.get("ellen_step")]
        cases += [gen_case(rng, v, "v%d_%d" % (v, i)) for i in range(n_per_variant)]
        jobs.append((v, cases))
    viol = []
    # implementation-guided window schedules: every skip-list variant in the thorough tier, two seed-chosen RCU variants in quick
    wv = WINDOW_OBS_VARIANTS_ALL if ctx.thorough() else [WINDOW_OBS_VARIANTS_RCU[(ctx.seed + i) % len(WINDOW_OBS_VARIANTS_RCU)] for i in (0, 2)]
    wrng = {v: ctx.rng.fork() for v in sorted(set(wv)) if v in variants}
    winfo = {}

    def job(v, cases):
        if v in wrng:
            wc, winfo[str(v)] = gen_impl_window_cases(ctx, exes[v // 10], v, wrng[v], ctx.work)
            cases += wc
        return check_variant(ctx, lin, exes[v // 10], v, cases, ctx.work, stats)
    with cf.ThreadPoolExecutor(max_workers=min(12, vcheck.NCPU)) as ex:
        futs = [ex.submit(job, v, cases) for v, cases in jobs]
        for f in futs:
            viol += f.result()
    ctx.coverage["implementation_guided_window_schedules"] = {
        "variants": {v: dict(i, name=VARIANTS[int(v)][0]) for v, i in sorted(winfo.items())},
        "rule": "profiles (steps and CAS / exchange positions of every worker) measured on the REAL variant; victim stalled before each of its writes, actor "
                "exactly through one of its writes or its whole program, victim gets r more steps, third thread before / after / in between; oracle: verified "
                "lincheck on the history + quiescent monitors"}
    return viol, {v: cases for v, cases in jobs}


def report_hangs(ctx, stats):
    """a case that never finishes is a liveness defect, not a counter-example to C15 (a pending operation keeps the
    history linearizable): recorded in the evidence and as a replay file, reported on stdout, exit status unaffected"""
    hangs = stats.pop("_hangs", [])
    out = []
    for c in hangs[:5]:
        c = {k: v for k, v in c.items() if not k.startswith("_")}
        h = hashlib.sha256(json.dumps(c, sort_keys=True).encode()).hexdigest()[:12]
        path = os.path.join(vcheck.VERIF, "replays", "%s-hang-%s.json" % (ctx.id, h))
        vinfo = VARIANTS.get(c.get("variant"))          # C18 re-uses this function with variant numbers of its own
        vname = vinfo[0] if vinfo else "variant %s" % c.get("variant")
        json.dump({"property": ctx.id, "what": "operation never returns (livelock) on %s" % vname, "case": c,
                   "signature": "bronson-extract_minmax-livelock-routing-leaf" if vinfo and vinfo[2] == "bronson" else None}, open(path, "w"), indent=1)
        out.append(path)
    if hangs:
        print("LIVENESS-OBSERVATION: property=%s %d case(s) never finished (not a %s violation) first=%s" % (ctx.id, len(hangs), ctx.id, out[0]), flush=True)
    ctx.coverage["liveness_observations"] = {"cases_that_never_finished": len(hangs), "replays": out}


# ---------------------------------------------------------------------------------------------------------
# step correspondence: LV.Model.SkipList vs cds::intrusive::SkipListSet<HP> (harness/C15/step_skip.cpp)

def gen_step_case(rng, cid):
    nth = 1 + rng.below(3)
    cfg = [rng.below(16)] + [rng.choice([0, 0, 1, 2]) for _ in range(4)]
    threads = []
    for t in range(nth):
        ops = []
        for _ in range(1 + rng.below(3)):
            c = rng.choice([1, 1, 6, 6, 10, 13, 14])
            if c == 1:
                ops.append([1, rng.below(4), rng.choice([0, 0, 1, 2])])
            elif c in (6, 10):
                ops.append([c, rng.below(4)])
            else:
                ops.append([c])
        threads.append(ops)
    kind = rng.below(4)
    if kind == 0:
        sched = [rng.below(nth) for _ in range(20 + rng.below(500))]
    elif kind == 1:
        sched = []
        for _ in range(2 + rng.below(25)):
            sched += [rng.below(nth)] * (1 + rng.below(70))
    elif kind == 2:
        sched = [rng.below(nth)] * (3 + rng.below(200)) + [rng.below(nth)] * (3 + rng.below(200)) + [rng.below(nth) for _ in range(200)]
    else:
        sched = []
    return {"id": cid, "cfg": cfg, "threads": threads, "sched": sched}


def step_history(case, lines):
    """lincheck input of one step-harness log: prefilled keys first, then the inv/res events"""
    h = []
    for k in range(4):
        if case["cfg"][0] & (1 << k):
            h += ["inv 90 insert %d" % k, "res 90 true"]
    cur = {}
    for l in lines:
        t = l.split(" ")
        if len(t) < 3 or t[1] != "ev":
            continue
        tid = int(t[0])
        if t[2] == "inv":
            cur[tid] = (int(t[3]), int(t[4]), len(h))
            h.append(None)
        elif t[2] == "res" and tid in cur:
            code, k, pos = cur.pop(tid)
            a, b = int(t[3]), int(t[4])
            if code == 1:
                o, r = "insert %d" % k, B(a)
            elif code == 6:
                o, r = "erase %d" % k, B(a)
            elif code == 10:
                o, r = "contains %d" % k, B(a)
            elif a:
                o, r = "erase %d" % b, "true"
            else:
                o, r = ("extract_min" if code == 13 else "extract_max"), "none"
            h[pos] = "inv %d %s" % (tid, o)
            h.append("res %d %s" % (tid, r))
    return [x if x is not None else "inv 99 contains 0" for x in h]


def step_correspondence(ctx, lin, only=None):
    import conc_check
    model = conc_check.build_model(ctx, "Extract_SkipList.v", tag="skip_model")
    hh = vcheck.file_hash([os.path.join(vcheck.VERIF, "harness", "C15", "step_skip.cpp")])
    d = os.path.join(SHARED, "bin" + ("" if vcheck.REPO == "/repo" else "_" + hashlib.sha256(vcheck.REPO.encode()).hexdigest()[:8]))
    impl = vcheck.cxx_build(os.path.join(vcheck.VERIF, "harness/C15/step_skip.cpp"), os.path.join(d, "step_skip"), hook=True)
    n = 4000 if ctx.thorough() else 500
    rng = ctx.rng.fork()
    cases = [c for c in load_corpus("C15") if c.get("step")] + [gen_step_case(rng, "s%d" % i) for i in range(n)]
    winfo = None
    if only is None:
        wcases, winfo = gen_window_cases(ctx, "skip", model, ctx.rng.fork())
        cases += wcases
    if only is not None:
        cases = [only]
    rc1, mlog, rc2, ilog, raw = conc_check.run_both(ctx, model, impl, cases, tag="skipstep", timeout=1500, fuel=60000)
    diverged, steps, first = 0, 0, None
    wdiverged = 0
    contended, shapes, by_theorem = 0, set(), 0
    for c in cases:
        m, i = mlog.get(c["id"]), ilog.get(c["id"])
        if m is None or i is None:
            diverged += 1
            first = first or (c, {"index": -1, "model": "<no output>" if m is None else "ok", "impl": "<no output>" if i is None else "ok", "prefix": []})
            continue
        steps += len(i["lines"])
        dv = conc_check.compare(m, i)
        shapes.add(hash(tuple(m["lines"])))
        if any(" cas " in l and l.endswith(" 0") for l in m["lines"]):
            contended += 1
        if dv is not None and c.get("kind") == "window" and "outoffuel" in str(dv.get("model")):
            continue          # a window schedule that makes a thread spin beyond the model's loop fuel: prefix agreement only
        if dv is not None:
            diverged += 1
            wdiverged += 1 if c.get("kind") == "window" else 0
            first = first or (c, dv)
        elif (all(o[0] in (1, 6, 10) for th in c["threads"] for o in th) and m.get("end") == "finished"
              and not any("outoffuel" in l for l in m["lines"])):
            # hypotheses of C15_skip_run_case_updates_linearizable hold for this model trace, and the trace of the real
            # code is the same trace: its update history is linearizable by the theorem
            by_theorem += 1
    if first is not None:
        # the correspondence broke: look for a concrete non-linearizable history of the real skip list on these programs
        hs = [step_history(c, ilog[c["id"]]["lines"]) for c in cases if c["id"] in ilog and ilog[c["id"]]["end"] == "finished"]
        cs = [c for c in cases if c["id"] in ilog and ilog[c["id"]]["end"] == "finished"]
        found = False
        for v, c, h in zip(run_lincheck(lin, "set", hs, ctx.work, "skipstep"), cs, hs):
            if v != "OK":
                ctx.violation("intrusive::SkipListSet<HP> (step harness): history is not linearizable w.r.t. SetSpec (lincheck: %s)" % v,
                              {"case": {k: x for k, x in c.items() if k not in ("solo", "solo_w")}, "history": h, "step": True})
                found = True
                break
        if not found:
            c, dv = first
            ctx.violation("step correspondence between LV.Model.SkipList and cds/intrusive/impl/skip_list.h no longer holds",
                          {"correspondence": "Model/SkipList.v vs cds::intrusive::SkipListSet<HP>", "case": c, "first_divergence": dv}, no_input=True)
    ctx.coverage["step_correspondence"] = {
        "modelled": "cds::intrusive::SkipListSet<HP>: insert, erase, contains (find_fastpath/slowpath), extract_min, extract_max with find_position, "
                    "help_remove, renew_insert_position, insert_at_position, try_remove_at, find_min/max_position, HP guards, retire; c_nMaxHeight = 3, keys 0..3",
        "cases": len(cases), "diverged": diverged, "impl_steps_compared": steps, "traces_validated_against_impl": len(cases) - diverged,
        "distinct_event_logs": len(shapes), "cases_with_failed_cas": contended,
        "impl_traces_whose_update_history_is_linearizable_by_theorem": by_theorem,
        "window_schedules": window_evidence(cases, ilog, winfo, wdiverged) if winfo else None,
        "theorem": "C15_skip_run_case_updates_linearizable (programs of insert/erase/contains, no out-of-fuel event; the compared "
                   "implementation trace is the model trace)",
        "rule": "1-3 threads x 1-3 operations, keys 0..3, prefilled subsets, tower heights 1..3; uniform / bursty / run-then-switch / round-robin schedules; "
                "every atomic access (kind, canonical object, success) and every client event compared line by line"}
    return diverged


# ---------------------------------------------------------------------------------------------------------
# model-guided window schedules for the two step models (lib/conc_windows2.py).  The prefilled keys come from cfg (no set-up
# thread); 2-3 participants collide on the same key / neighbouring towers / the same parent and grandparent; the victim is stalled
# before each of its CAS (and before every other access), the actor runs exactly through one of its writes or its whole
# program, also from the states in which a participant is parked right after one of ITS writes (a tower marked on some levels
# only, an Ellen node flagged IFlag / DFlag / Mark but not helped yet).
#   skip list: (name, prefill mask, heights of keys 0..3, programs)        Ellen tree: (name, prefill mask, programs)
WINDOW_SKIP = [
    ("erase_erase_find", 0b0010, [0, 2, 0, 0], [[[6, 1]], [[6, 1]], [[10, 1]]]),
    ("ins_between_vs_erase_pred", 0b0101, [1, 0, 2, 0], [[[1, 1, 2]], [[6, 0]], [[1, 1, 0]]]),
    ("extract_min_twice", 0b0110, [0, 2, 1, 0], [[[13]], [[13]], [[1, 0, 1]]]),
    ("extract_max_vs_erase", 0b0111, [0, 1, 2, 0], [[[14]], [[6, 2]], [[1, 3, 2]]]),
    ("erase_then_ins", 0b0010, [0, 1, 0, 0], [[[6, 1], [1, 1, 1]], [[1, 1, 2]], [[10, 1]]]),
    ("neighbour_towers", 0b1111, [0, 2, 1, 2], [[[6, 1]], [[6, 2]], [[10, 3]]]),
    ("ins_ins_erase", 0b0000, [0, 0, 0, 0], [[[1, 1, 2]], [[1, 1, 2]], [[6, 1]]]),
    ("ins_erase_pairs", 0b0100, [0, 0, 1, 0], [[[1, 1, 2], [6, 1]], [[6, 2], [1, 2, 1]]]),
]
WINDOW_ELLEN = [
    ("erase_erase_ins", 0b0010, [[[6, 1]], [[6, 1]], [[1, 1]]]),
    ("ins_beside_deleted_leaf", 0b0010, [[[1, 0]], [[1, 2]], [[6, 1]]]),
    ("erase_neighbours", 0b0110, [[[6, 1]], [[6, 2]], [[10, 2]]]),
    ("erase_three", 0b1111, [[[6, 0]], [[6, 1]], [[6, 2]]]),
    ("ins_ins_same", 0b0000, [[[1, 1]], [[1, 1]], [[1, 2]]]),
    ("ins_erase_pairs", 0b0100, [[[1, 1], [6, 1]], [[6, 2], [1, 2]]]),
    ("ins_between_erases", 0b1010, [[[1, 2]], [[6, 3]], [[6, 1]]]),
    ("erase_ins_find", 0b0101, [[[6, 0]], [[1, 1]], [[10, 0]]]),
]
WINDOW_QUICK_PER_MODEL = 360
WINDOW_QUICK_CANDIDATES = 3000
WINDOW_THOROUGH_PER_MODEL = 10000
WINDOW_ELLEN_QUICK = 600          # the quick enumeration (r in {0, 2}, <= 3 stall points, <= 2 actor writes + whole program) has ~450 schedules
WINDOW_ELLEN_THOROUGH = 2500


def gen_window_cases(ctx, which, model, rng):
    """-> (cases, generator info); quick: model-guided selection of WINDOW_QUICK_PER_MODEL schedules, thorough: the enumeration.
    The extracted Ellen model evaluates the BST monitor after every step (~80 ms per case, 100x the other models): its
    windows are generated without the load-load stall points (the single-preemption sweep of step_correspondence_ellen covers
    those), from fewer probe runs, and without the selection run."""
    import conc_windows2
    th = ctx.thorough()
    wdir = os.path.join(ctx.work, "wprobe_" + which)
    if which == "skip":
        templates = [{"name": n, "cfg": [mask] + hs, "threads": parts, "setup": 0} for n, mask, hs, parts in WINDOW_SKIP]
        cases, info = conc_windows2.expand(model, wdir, templates, "wsk_", fuel=60000,
                                           r_values=tuple(range(0, 13)) if th else (0, 1, 2, 3, 5, 8, 12), read_points=True,
                                           max_wv=10, staged=True, max_ws=5 if th else 3, staged_max_wa=4 if th else 3,
                                           staged_r_values=(0, 1, 2, 3, 5, 8) if th else (0, 1, 3, 6), lazy=True)
        info["enumerated"] = len(cases)
        if th:
            cases = conc_windows2.stratified(rng, cases, WINDOW_THOROUGH_PER_MODEL)
        else:
            cases = conc_windows2.stratified(rng, cases, WINDOW_QUICK_CANDIDATES)
            paths = conc_windows2.model_paths(model, wdir, cases, "wsk", fuel=60000)
            cases, info["selection"] = conc_windows2.select_by_cover(rng, cases, paths, WINDOW_QUICK_PER_MODEL)
    else:
        templates = [{"name": n, "cfg": [mask], "threads": parts, "setup": 0} for n, mask, parts in WINDOW_ELLEN]
        cases, info = conc_windows2.expand(model, wdir, templates, "wel_", fuel=60000,
                                           r_values=(0, 1, 2, 3, 5, 8, 12) if th else (0, 2), read_points=False,
                                           max_wv=6 if th else 3, max_wa=4 if th else 2, staged=True, max_ws=3 if th else 1,
                                           staged_max_wa=3 if th else 2, staged_r_values=(0, 1, 3, 6) if th else (0,),
                                           shapes=("va", "vo", "mid") if th else ("va", "mid"), staged_shapes=("va", "vo") if th else ("va",), lazy=True)
        info["enumerated"] = len(cases)
        if th:
            cases = conc_windows2.stratified(rng, cases, WINDOW_ELLEN_THOROUGH)
        else:
            # a selection run would cost as many model runs as it saves (~80 ms each): the reduced enumeration is run as it is
            cases = conc_windows2.stratified(rng, cases, WINDOW_ELLEN_QUICK)
    cases = conc_windows2.finalize(cases)
    for c in cases:
        if which == "ellen":
            c["ellen"] = True
    info["run"] = len(cases)
    info.pop("per_template", None)
    return cases, info


def window_evidence(cases, ilog, info, diverged):
    import conc_windows2
    ws = conc_windows2.event_stats(cases, ilog)
    ws["generator"] = info
    ws["diverged"] = diverged
    ws["rule"] = ("victim stalled before each CAS and before every other access, actor runs exactly through one of its writes (measured on the model "
                  "in that state) or its whole program, victim gets r more steps, third thread before / after / in between; also from states with a "
                  "participant parked right after one of its writes; with_retry_path = a thread executed more CAS than in its solo run")
    return ws


def gen_ellen_case(rng, cid):
    """EllenBinTree<HP> step case: half of them high-contention (few keys, fine-grained switching)"""
    hot = rng.below(2) == 1
    nth = (2 + rng.below(2)) if hot else (1 + rng.below(3))
    cfg = [rng.below(16)]
    nk = (1 + rng.below(3)) if hot else 4
    threads = [[[rng.choice([1, 1, 6, 6, 10]), rng.below(nk)] for _ in range((2 if hot else 1) + rng.below(3 if not hot else 2))] for _ in range(nth)]
    kind = 4 if hot else rng.below(4)
    if kind == 0:
        sched = [rng.below(nth) for _ in range(20 + rng.below(500))]
    elif kind == 1:
        sched = []
        for _ in range(2 + rng.below(25)):
            sched += [rng.below(nth)] * (1 + rng.below(70))
    elif kind == 2:
        sched = [rng.below(nth)] * (3 + rng.below(200)) + [rng.below(nth)] * (3 + rng.below(200)) + [rng.below(nth) for _ in range(200)]
    elif kind == 3:
        sched = []
    else:
        sched = []
        for _ in range(40 + rng.below(300)):
            sched += [rng.below(nth)] * (1 + rng.below(rng.choice([2, 4, 12, 40])))
    return {"id": cid, "cfg": cfg, "threads": threads, "sched": sched, "ellen": True}


def step_correspondence_ellen(ctx, lin, only=None):
    """LV.Model.Ellen vs cds::intrusive::EllenBinTree<HP>, access by access; the model also checks the leaf-oriented BST
    invariant after EVERY step (a violated monitor shows up as an extra last line of the model log)."""
    import conc_check
    model = conc_check.build_model(ctx, "Extract_Ellen.v", tag="ellen_model")
    d = os.path.join(SHARED, "bin" + ("" if vcheck.REPO == "/repo" else "_" + hashlib.sha256(vcheck.REPO.encode()).hexdigest()[:8]))
    impl = vcheck.cxx_build(os.path.join(vcheck.VERIF, "harness/C15/step_ellen.cpp"), os.path.join(d, "step_ellen"), hook=True)
    n = 3000 if ctx.thorough() else 250
    rng = ctx.rng.fork()
    cases = [c for c in load_corpus("C15") if c.get("ellen_step")] + [gen_ellen_case(rng, "e%d" % i) for i in range(n)]
    # systematic single-preemption sweep: thread 0 runs i steps, thread 1 runs to completion, thread 0 finishes
    pairs = [([6, 1], [1, 0]), ([6, 1], [1, 2]), ([6, 1], [6, 2]), ([1, 1], [1, 2]), ([6, 2], [6, 1]), ([1, 0], [6, 1]), ([6, 1], [6, 1]), ([1, 1], [1, 1])]
    masks, stride = ((2, 6, 7), 1) if ctx.thorough() else ((6,), 6)
    nsweep = 0
    for mask in masks:
        for a, b in pairs:
            for i in range(0, 330, stride):
                cases.append({"id": "w%d" % nsweep, "cfg": [mask], "threads": [[a], [b]], "sched": [0] * i + [1] * 600 + [0] * 600, "ellen": True})
                nsweep += 1
    winfo = None
    if only is None:
        wcases, winfo = gen_window_cases(ctx, "ellen", model, ctx.rng.fork())
        cases += wcases
    if only is not None:
        cases = [only]
    rc1, mlog, rc2, ilog, raw = conc_check.run_both(ctx, model, impl, cases, tag="ellenstep", timeout=1500, fuel=60000)
    diverged, steps, first, contended, shapes, monitor_fired, by_theorem = 0, 0, None, 0, set(), 0, 0
    wdiverged = 0
    for c in cases:
        m, i = mlog.get(c["id"]), ilog.get(c["id"])
        if m is None or i is None:
            diverged += 1
            first = first or (c, {"index": -1, "model": "<no output>" if m is None else "ok", "impl": "<no output>" if i is None else "ok", "prefix": []})
            continue
        steps += len(i["lines"])
        if any("monitor_bst_violated" in l for l in m["lines"]):
            monitor_fired += 1
        dv = conc_check.compare(m, i)
        shapes.add(hash(tuple(m["lines"])))
        if any(" cas " in l and l.endswith(" 0") for l in m["lines"]):
            contended += 1
        if dv is not None and c.get("kind") == "window" and "outoffuel" in str(dv.get("model")):
            continue          # a window schedule that makes a thread retry beyond the model's loop fuel: prefix agreement only
        if dv is not None:
            diverged += 1
            wdiverged += 1 if c.get("kind") == "window" else 0
            first = first or (c, dv)
        elif all(o[0] in (1, 10) for th in c["threads"] for o in th):
            # programs of insert / contains: C15_ellen_bst_invariant covers every state of this (model = implementation) trace
            by_theorem += 1
    if first is not None:
        hs = [step_history(c, ilog[c["id"]]["lines"]) for c in cases if c["id"] in ilog and ilog[c["id"]]["end"] == "finished"]
        cs = [c for c in cases if c["id"] in ilog and ilog[c["id"]]["end"] == "finished"]
        found = False
        for v, c, h in zip(run_lincheck(lin, "set", hs, ctx.work, "ellenstep"), cs, hs):
            if v != "OK":
                ctx.violation("intrusive::EllenBinTree<HP> (step harness): history is not linearizable w.r.t. SetSpec (lincheck: %s)" % v,
                              {"case": c, "history": h, "ellen_step": True})
                found = True
                break
        if not found:
            c, dv = first
            what = ("EllenBinTree<HP>: the leaf-oriented BST invariant is violated at an intermediate state (model monitor, trace equal to the implementation's)"
                    if "monitor_bst_violated" in str(dv.get("model")) else
                    "step correspondence between LV.Model.Ellen and cds/intrusive/impl/ellen_bintree.h no longer holds")
            ctx.violation(what, {"correspondence": "Model/Ellen.v vs cds::intrusive::EllenBinTree<HP>", "case": c, "first_divergence": dv, "ellen_step": True}, no_input=True)
    ctx.coverage["step_correspondence_ellen"] = {
        "modelled": "cds::intrusive::EllenBinTree<HP>: insert (try_insert, help_insert), erase (check_delete_precondition, help_delete, help_marked), "
                    "contains, search with protect_child_node / search_protect_update and its retries, HP guards, m_nFlags loads, m_nEmptyUpdate, retire; keys 0..3",
        "cases": len(cases), "diverged": diverged, "impl_steps_compared": steps, "traces_validated_against_impl": len(cases) - diverged,
        "distinct_event_logs": len(shapes), "cases_with_failed_cas": contended, "single_preemption_sweep_cases": nsweep,
        "window_schedules": window_evidence(cases, ilog, winfo, wdiverged) if winfo else None,
        "impl_traces_covered_by_C15_ellen_bst_invariant": by_theorem,
        "bst_monitor": "tree_ok (keys of the left subtree < key <= keys of the right subtree, Inf1 < Inf2 on top, two children per internal node) "
                       "evaluated by the model after every atomic step; violations: %d" % monitor_fired,
        "rule": "1-3 threads x 1-3 operations, keys 0..3, prefilled subsets; uniform / bursty / run-then-switch / round-robin schedules, half of the cases "
                "high-contention (1-3 keys, 2-3 threads, fine-grained switching); plus a systematic single-preemption sweep over 8 operation pairs "
                "(thread 0 preempted after its i-th step, for every i); every atomic access (kind, canonical object, success) and every client event compared"}
    return diverged


def load_corpus(pid):
    cdir = os.path.join(vcheck.VERIF, "corpus", pid)
    out = []
    if os.path.isdir(cdir):
        for f in sorted(os.listdir(cdir)):
            if f.endswith(".json"):
                c = json.load(open(os.path.join(cdir, f)))
                step = c.get("step", False)
                estep = c.get("ellen_step", False)
                c = c.get("case", c)
                c["step"] = step
                c["ellen_step"] = estep
                c["id"] = "corpus_" + f[:-5]
                c["variant"] = c["cfg"][0]
                out.append(c)
    return out


def summarize(stats):
    s = {}
    for v, st in sorted((k, x) for k, x in stats.items() if isinstance(k, int)):
        d = dict(st)
        d["distinct_histories"] = len(d.pop("shapes"))
        s[str(v)] = d
    return s


def run(ctx):
    res = vcheck.coq_build(["Properties/Properties_C15.v"])
    ctx.coq_evidence(res)
    lin = build_lincheck(ctx)
    only_step = os.environ.get("VERIF_ONLY") == "step" and not ctx.replay
    if only_step:
        # mutation experiments on the step-modelled code: the observable stage (8 harness groups) is skipped
        step_correspondence(ctx, lin)
        step_correspondence_ellen(ctx, lin)
        ctx.coverage.update({"restricted_run": "VERIF_ONLY=step", "evaluations": 0, "distinct_nontrivial": 0})
        return ctx.finish(vcheck.STD_TRUSTED)
    exes = build_groups(ctx, list(range(8)))
    variants = sorted(VARIANTS)
    stats = {}
    if ctx.replay:
        rp = json.load(open(ctx.replay))
        c = rp["case"]
        if rp.get("step") or "first_divergence" in rp or "correspondence" in rp or rp.get("ellen_step"):
            c.setdefault("id", "replay")
            if rp.get("ellen_step") or c.get("ellen"):
                step_correspondence_ellen(ctx, lin, only=c)
            else:
                step_correspondence(ctx, lin, only=c)
            ctx.coverage.update({"evaluations": 1, "distinct_nontrivial": 0, "rule": "replay (step correspondence)", "samples": [c]})
            return ctx.finish(vcheck.STD_TRUSTED)
        c["variant"] = c["cfg"][0]
        viol = check_variant(ctx, lin, exes[c["variant"] // 10], c["variant"], [c], ctx.work, stats)
        for what, obj, sig in viol:
            ctx.violation(what, obj, signature=sig)
        ctx.coverage.update({"evaluations": 1, "distinct_nontrivial": 0, "rule": "replay", "samples": [c], "per_variant": summarize(stats)})
        return ctx.finish(vcheck.STD_TRUSTED)
    n = 1200 if ctx.thorough() else 130
    corpus = load_corpus("C15")
    viol, jobs = run_observable(ctx, lin, exes, variants, n, stats, corpus)
    ctx.max_per_what = 1
    for what, obj, sig in viol:
        ctx.violation(what, obj, signature=sig)
    for what, obj, sig in ellen_undo_family(ctx, lin, exes, stats):
        ctx.violation(what, obj, signature=sig)
    report_hangs(ctx, stats)
    if not res.ok:
        ctx.violation("Coq obligations of C15 do not check: %s" % (res.failed[:2],), {"theorem": [f[2] for f in res.failed], "errors": res.failed[:3]}, no_input=True)
    step_correspondence(ctx, lin)
    step_correspondence_ellen(ctx, lin)
    per = summarize(stats)
    tot = lambda k: sum(d[k] for d in per.values())
    sample = jobs[variants[0]][len(corpus):len(corpus) + 1]
    ctx.coverage.update({
        "evaluations": tot("cases"), "distinct_nontrivial": tot("nontrivial"),
        "rule": "program x schedule pairs on the real containers (2-3 threads, 1-4 operations each from the property's operation list, keys 0..5, "
                "pre-filled subsets, tower heights low/high/mixed; uniform, bursty, run-then-switch and round-robin schedules from one splitmix64 stream); "
                "non-trivial = two operations of different threads overlap in time on the same key (extract_min/max: any key) and one of them mutates",
        "histories_linearizable": tot("histories_ok"), "histories_run_to_completion": tot("finished"), "step_limit_hit": tot("fuel"),
        "extract_min_max_calls": tot("extract_calls"), "extract_returned_empty": tot("extract_empty"), "clause3_projected_checks": tot("clause3_checks"),
        "scheduled_steps": tot("steps"), "per_variant": per, "corpus_cases": len(corpus),
        "samples": [{k: v for k, v in c.items() if not k.startswith("_")} for c in sample],
        "variants": {str(v): VARIANTS[v][0] for v in variants},
    })
    return ctx.finish(vcheck.STD_TRUSTED + [
        "hook layer: khizmax_libcds_verif::atomic<T>, baton scheduler, event log (hooks/include)",
        "ocaml/lincheck_main.ml (text parser of the verified checker) and the history encoding in checks/C15.py",
        "harness/C15/*.h,*.cpp (adapters, structural probes)"],
        ["sequential consistency: memory_order arguments are not modelled", "compare_exchange_weak never fails spuriously under the hook",
         "RCU global lock instantiated with cds::sync::spin instead of std::mutex (a blocked std::mutex would stall the scheduler)",
         "observable correspondence is sampling: the theorem side of C15 for the step-modelled algorithms is in Properties_C15.v"])
