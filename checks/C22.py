"""C22 — spin locks and node monitors provide mutual exclusion (DESIGN 7, C22)."""
import os, json
import vcheck, conc_check

def gen_cases(ctx, n):
    rng = ctx.rng
    cases = []
    for i in range(n):
        nthreads = 2 + rng.below(3)
        nlocks = 1 + rng.below(3)
        threads = []
        for t in range(nthreads):
            ops = []
            for _ in range(1 + rng.below(3)):
                ops.append([1 if rng.chance(2, 3) else 2, rng.below(nlocks)])
            threads.append(ops)
        kind = rng.below(3)
        if kind == 0:      # uniform
            sched = [rng.below(nthreads) for _ in range(10 + rng.below(60))]
        elif kind == 1:    # long runs with few switches (a thread stalls inside the section)
            sched = []
            for _ in range(1 + rng.below(5)):
                sched += [rng.below(nthreads)] * (1 + rng.below(9))
        else:              # run one thread up to a point, then others
            first = rng.below(nthreads)
            sched = [first] * (2 + rng.below(5)) + [rng.below(nthreads) for _ in range(30)]
        cases.append({"id": "g%d" % i, "cfg": [nlocks, 4000], "threads": threads, "sched": sched})
    return cases

def run(ctx):
    res = vcheck.coq_build(["Properties/Properties_C22.v"])
    ctx.coq_evidence(res)
    model = conc_check.build_model(ctx, "Extract_SpinLock.v")
    impl = vcheck.cxx_build(os.path.join(vcheck.VERIF, "harness/C22/main.cpp"), os.path.join(ctx.work, "harness"), hook=True, link_cds=False)
    n = 3000 if ctx.thorough() else 600
    cases = []
    cdir = os.path.join(vcheck.VERIF, "corpus", "C22")
    for f in sorted(os.listdir(cdir)) if os.path.isdir(cdir) else []:
        if f.endswith(".json"):
            cases.append(json.load(open(os.path.join(cdir, f))))
    ncorpus = len(cases)
    cases += gen_cases(ctx, n)
    rc1, mlog, rc2, ilog, raw = conc_check.run_both(ctx, model, impl, cases)
    shapes = set(); contended = set(); diverged = 0; mon_bad = 0; steps = 0
    first_div = None
    for c in cases:
        m = mlog.get(c["id"]); i = ilog.get(c["id"])
        if m is None or i is None:
            diverged += 1
            first_div = first_div or (c, {"index": -1, "model": "<no output>" if m is None else "ok", "impl": "<no output>" if i is None else "ok", "prefix": []})
            continue
        steps += len(i["lines"])
        d = conc_check.compare(m, i)
        shape = tuple(l for l in m["lines"])
        shapes.add(hash(shape))
        if any(l.split(" ")[1] == "ld" and l.split(" ")[2].startswith("o") for l in m["lines"]) and any("xchg" in l for l in m["lines"]):
            # a spinning thread observed the lock taken at least once
            if any(" ld o" in l for l in m["lines"] if True):
                contended.add(hash(shape))
        for x in i["extra"]:
            if x.startswith("monitor max_inside"):
                if int(x.split()[-1]) > 1:
                    mon_bad += 1
                    ctx.violation("two threads inside one critical section of cds::sync::spin_lock (real code, occupancy monitor)",
                                  {"case": c, "impl_log": i["lines"]}, signature=None)
        if d is not None:
            diverged += 1
            if first_div is None:
                first_div = (c, d)
    if first_div is not None and mon_bad == 0:
        c, d = first_div
        # the correspondence broke: look for a real mutual-exclusion failure over more seeds
        found = False
        more = gen_cases(ctx, 4000)
        _, _, _, il2, _ = conc_check.run_both(ctx, model, impl, more, tag="search")
        for c2 in more:
            i2 = il2.get(c2["id"])
            if i2 and any(x.startswith("monitor max_inside") and int(x.split()[-1]) > 1 for x in i2["extra"]):
                ctx.violation("two threads inside one critical section of cds::sync::spin_lock (real code, occupancy monitor)", {"case": c2, "impl_log": i2["lines"]})
                found = True
                break
        if not found:
            ctx.violation("step correspondence between LV.Model.SpinLock and cds/sync/spinlock.h no longer holds", {"correspondence": "Model/SpinLock.v vs cds::sync::spin_lock", "case": c, "first_divergence": d}, no_input=True)
    if not res.ok:
        ctx.violation("Coq obligations of C22 do not check: %s" % (res.failed[:2],), {"theorem": [f[2] for f in res.failed], "errors": res.failed[:3]}, no_input=True)
    ctx.coverage.update({
        "evaluations": len(cases), "distinct_nontrivial": len(contended),
        "rule": "program x schedule pairs (2-4 threads, 1-3 locks, 1-3 CS/TryCS ops each; uniform, bursty and run-then-switch schedules from one splitmix64 stream); distinct = distinct model event logs; non-trivial = a thread observed the lock taken (load in the TATAS inner loop) at least once",
        "distinct_event_logs": len(shapes), "impl_steps_compared": steps, "diverged": diverged, "corpus_cases": ncorpus,
        "traces_validated_against_impl": len(cases) - diverged,
        "samples": [cases[ncorpus]] if len(cases) > ncorpus else cases[:1],
        "modelled": "cds::sync::spin_lock (try_lock, lock, unlock)",
    })
    return ctx.finish(vcheck.STD_TRUSTED + ["hook layer: khizmax_libcds_verif::atomic<T>, baton scheduler, event log (hooks/include)", "ocaml/conc_main.ml event printer"],
                      ["sequential consistency: memory_order arguments are not modelled", "compare_exchange_weak never fails spuriously under the hook"])
