"""C22 — spin locks and node monitors provide mutual exclusion (DESIGN 7, C22).

Five executable models, each proved in Coq for every schedule (Properties_C22.v) and each tied to the real
code by step correspondence under the deterministic scheduler (one harness, harness/C22/main.cpp <mode>):

  spin  LV.Model.SpinLock    cds::sync::spin_lock                        cds/sync/spinlock.h
  re    LV.Model.Reentrant   cds::sync::reentrant_spin_lock              cds/sync/spinlock.h
  arr   LV.Model.LocksArray  cds::sync::lock_array<spin_lock, mod>       cds/sync/lock_array.h
  inj   LV.Model.LocksInj    cds::sync::injecting_monitor + scoped_lock  cds/sync/injecting_monitor.h, monitor.h
  pool  LV.Model.PoolMon     cds::sync::pool_monitor<trivial pool>       cds/sync/pool_monitor.h, monitor.h

Generated client programs are deadlock-free by construction: a *blocking* acquisition always targets a
lock/cell/node greater than everything the thread holds (or, for the reentrant lock, one it already holds);
try_lock variants may target anything.
"""
import os, json
import vcheck, conc_check, conc_windows

MODES = [
    {"mode": "spin", "extract": "Extract_SpinLock.v", "model": "Model/SpinLock.v", "what": "cds::sync::spin_lock", "anchor": "cds/sync/spinlock.h"},
    {"mode": "re", "extract": "Extract_Reentrant.v", "model": "Model/Reentrant.v", "what": "cds::sync::reentrant_spin_lock", "anchor": "cds/sync/spinlock.h"},
    {"mode": "arr", "extract": "Extract_LocksArray.v", "model": "Model/LocksArray.v", "what": "cds::sync::lock_array", "anchor": "cds/sync/lock_array.h"},
    {"mode": "inj", "extract": "Extract_LocksInj.v", "model": "Model/LocksInj.v", "what": "cds::sync::injecting_monitor", "anchor": "cds/sync/injecting_monitor.h"},
    {"mode": "pool", "extract": "Extract_PoolMon.v", "model": "Model/PoolMon.v", "what": "cds::sync::pool_monitor", "anchor": "cds/sync/pool_monitor.h"},
]
QUICK_N = {"spin": 300, "re": 600, "arr": 400, "inj": 200, "pool": 700}
SPIN_FUEL = 4000


# ------------------------------------------------------------------------------------------------------
# generators

def gen_sched(rng, nthreads, scale=1):
    kind = rng.below(3)
    if kind == 0:      # uniform
        return [rng.below(nthreads) for _ in range(10 + rng.below(60 * scale))], "uniform"
    if kind == 1:      # long runs with few switches (a thread stalls inside a section / inside lock() / unlock())
        s = []
        for _ in range(1 + rng.below(5 * scale)):
            s += [rng.below(nthreads)] * (1 + rng.below(9))
        return s, "bursty"
    first = rng.below(nthreads)   # run one thread up to a point, then the others
    return [first] * (2 + rng.below(5 * scale)) + [rng.below(nthreads) for _ in range(30 * scale)], "run-then-switch"


def gen_spin(rng):
    nthreads = 2 + rng.below(3); nlocks = 1 + rng.below(3)
    threads = [[[1 if rng.chance(2, 3) else 2, rng.below(nlocks)] for _ in range(1 + rng.below(3))] for _ in range(nthreads)]
    sched, sk = gen_sched(rng, nthreads)
    return {"cfg": [nlocks, SPIN_FUEL], "threads": threads, "sched": sched, "sk": sk}


def gen_re(rng):
    nthreads = 2 + rng.below(3); nlocks = 1 + rng.below(3)
    threads = []
    for _ in range(nthreads):
        ops = []
        for _ in range(1 + rng.below(2)):
            depth = 1 + rng.below(3); held = []; op = []
            for _ in range(depth):
                k = rng.choice([0, 0, 0, 1, 2, 3])
                if k == 0:
                    bigger = [l for l in range(nlocks) if not held or l > max(held)]
                    cand = bigger + held + held      # re-entrance is likely
                    if not cand:
                        break
                    l = rng.choice(cand)
                else:
                    l = rng.below(nlocks)
                op += [k, l]
                held.append(l)      # if a try fails the nest stops there; assuming it held is conservative
            if op:
                ops.append(op)
        threads.append(ops)
    sched, sk = gen_sched(rng, nthreads, 2)
    return {"cfg": [nlocks, SPIN_FUEL], "threads": threads, "sched": sched, "sk": sk}


def gen_arr(rng):
    nthreads = 2 + rng.below(3); size = 1 + rng.below(3)
    threads = []
    for _ in range(nthreads):
        ops = []
        for _ in range(1 + rng.below(2)):
            op = []; held = []
            if rng.chance(1, 6):
                op = [2, 0]
                for _ in range(rng.below(2)):
                    op += [1, rng.below(3 * size)]       # try_lock under lock_all: always fails on our own cell
            else:
                for _ in range(1 + rng.below(3)):
                    k = rng.choice([0, 0, 3, 1])
                    if k == 1:
                        h = rng.below(3 * size)
                        if h % size in held:
                            op += [k, h]; break          # fails: the nest ends here
                    else:
                        cells = [c for c in range(size) if not held or c > max(held)]
                        if not cells:
                            break
                        h = rng.choice(cells) + size * rng.below(3)
                    op += [k, h]; held.append(h % size)
            if op:
                ops.append(op)
        threads.append(ops)
    sched, sk = gen_sched(rng, nthreads, 2)
    return {"cfg": [size, SPIN_FUEL], "threads": threads, "sched": sched, "sk": sk}


def gen_nodes(rng, pool):
    nthreads = 2 + rng.below(3); nnodes = 1 + rng.below(3)
    threads = []
    for _ in range(nthreads):
        ops = []
        for _ in range(1 + rng.below(2)):
            op = []; top = -1
            for _ in range(1 + rng.below(3)):
                cand = [n for n in range(nnodes) if n > top]
                if not cand:
                    break
                top = rng.choice(cand)
                op += [rng.choice([0, 3]), top]
            ops.append(op)
        threads.append(ops)
    sched, sk = gen_sched(rng, nthreads, 4 if pool else 2)
    cfg = [nnodes, SPIN_FUEL]
    if pool:
        cfg.append(rng.choice([0, 1, nnodes, nnodes + nthreads]))
    return {"cfg": cfg, "threads": threads, "sched": sched, "sk": sk}


GEN = {"spin": gen_spin, "re": gen_re, "arr": gen_arr, "inj": lambda r: gen_nodes(r, False), "pool": lambda r: gen_nodes(r, True)}


def gen_cases(rng, mode, n, prefix="g"):
    cases = []
    for i in range(n):
        c = GEN[mode](rng)
        c["id"] = "%s%s%d" % (prefix, mode, i)
        c["mode"] = mode
        cases.append(c)
    return cases


# ------------------------------------------------------------------------------------------------------
# model-guided window schedules (lib/conc_windows.py), per model.  A write is any access that is not a load (exchange,
# CAS, fetch-add, plain store: the unlock of a spin lock, the release of a monitor's ref/spin word are stores).  The
# victim is stalled right before one of its first 8 writes (before the exchange that takes the lock, before the unlock,
# before the CAS on a node's ref/spin word, inside the section), the actor runs through one of its first 4 writes
# (a thread spinning on a taken lock writes for ever) or to its end, optionally a third thread in between / a second
# victim (pool monitor: two threads fail the ref/spin CAS and go round its retry loop), then r victim steps.
# All programs are deadlock-free (blocking acquisitions in ascending order).
WINDOW_TEMPLATES = {
    "spin": [([1], [[[1, 0]], [[1, 0]], [[2, 0]]]),
             ([1], [[[1, 0], [2, 0]], [[2, 0], [1, 0]]]),
             ([2], [[[1, 0], [1, 1]], [[1, 1], [1, 0]], [[2, 0], [2, 1]]])],
    "re":   [([1], [[[0, 0, 0, 0]], [[0, 0]], [[1, 0]]]),
             ([1], [[[0, 0, 1, 0]], [[3, 0]], [[0, 0, 0, 0, 0, 0]]]),
             ([2], [[[0, 0, 0, 1]], [[0, 1]], [[3, 0, 1, 1]]])],
    "arr":  [([2], [[[0, 0]], [[0, 2]], [[2, 0]]]),
             ([2], [[[3, 1]], [[1, 1]], [[0, 0, 0, 1]]]),
             ([1], [[[2, 0]], [[2, 0]], [[0, 5]]])],
    "inj":  [([1], [[[0, 0]], [[3, 0]], [[0, 0]]]),
             ([2], [[[0, 0, 3, 1]], [[0, 1]], [[3, 0]]])],
    "pool": [([1, 1], [[[0, 0]], [[3, 0]], [[0, 0]]]),
             ([2, 2], [[[0, 0, 3, 1]], [[0, 1]], [[3, 0]]]),
             ([1, 0], [[[0, 0], [0, 0]], [[3, 0], [0, 0]], [[0, 0]]]),
             ([2, 5], [[[0, 0], [3, 1]], [[0, 1], [0, 0]], [[3, 0, 0, 1]], [[0, 1]]])],
}
WINDOW_INFO = {}


def gen_window_cases(ctx, mode, model, rng, quick):
    wdir = os.path.join(ctx.work, "wprobe_" + mode)
    os.makedirs(wdir, exist_ok=True)
    cases = []
    info = {"templates": len(WINDOW_TEMPLATES[mode]), "enumerated": 0, "model_probes": 0}
    for ti, (c0, tpl) in enumerate(WINDOW_TEMPLATES[mode]):
        cfg = [c0[0], SPIN_FUEL] + list(c0[1:])
        nth = len(tpl)
        threads, sw, inf = conc_windows.windows(model, wdir, cfg, tpl, kinds=conc_windows.ALL_WRITE_KINDS, max_r=6, max_stalls=8, max_actor=4,
                                                third=not quick and nth > 2, double=(mode == "pool" and nth > 2), rs2=(0, 2, 4, 7), rs_d=(0, 1, 3, 6) if quick else None, double_stalls=2 if quick else 4, tag="w%s%d" % (mode, ti))
        info["enumerated"] += len(sw)
        info["model_probes"] += inf["model_probes"]
        if quick:
            sd = [x for x in sw if x[0].startswith("d_")]
            sw = conc_windows.subsample(rng, [x for x in sw if not x[0].startswith("d_")], 30) + conc_windows.subsample(rng, sd, 20)
        for name, sched in sw:
            cases.append({"id": "w%s%d_%s" % (mode, ti, name), "mode": mode, "cfg": cfg, "threads": threads, "sched": sched, "sk": "window"})
    if not quick and len(cases) > 10000:
        # thorough tier: the full enumeration, up to a budget (a seeded subsample beyond it; 'enumerated' says how many there are)
        cases = conc_windows.subsample(rng, cases, 10000)
        info["thorough_budget"] = 10000
    info["cases"] = len(cases)
    WINDOW_INFO[mode] = info
    return cases


# ------------------------------------------------------------------------------------------------------
# running

def run_impl(ctx, impl, mode, cases, tag, timeout=90, depth=0):
    """-> (logs by case id, status) ; status 'ok' | 'crash ...' | 'timeout'.  The harness flushes after every case and
    dumps the log of a case that crashes or hangs (extra line 'monitor crashed|hung'), then exits: the rest of the
    batch is re-run."""
    cf = os.path.join(ctx.work, tag + ".txt")
    conc_check.write_cases(cf, cases)
    rc, out = vcheck.sh([impl, cf, mode], timeout=timeout)
    logs = conc_check.parse_logs(out)
    if rc == 0:
        return logs, "ok"
    status = "timeout" if rc == 124 else "crash rc=%d" % rc
    last = -1
    for k, c in enumerate(cases):
        if c["id"] in logs and logs[c["id"]]["end"] is not None:
            last = k
    if 0 <= last < len(cases) - 1 and depth < 3 and bad_end(logs[cases[last]["id"]]):
        more, _ = run_impl(ctx, impl, mode, cases[last + 1:], tag + "r", timeout, depth + 1)
        logs.update(more)
    return logs, status


def bad_end(ilog):
    """'crashed' / 'hung' when the harness had to abandon the case"""
    for x in (ilog or {}).get("extra", []):
        t = x.split()
        if t[:2] == ["monitor", "crashed"]: return "crashes (signal %s)" % t[2]
        if t[:2] == ["monitor", "hung"]: return "hangs (a lock is never released, or livelock; no progress within 30 s)"
    return None


def run_model(ctx, model, cases, tag, timeout=300):
    cf = os.path.join(ctx.work, tag + ".txt")
    conc_check.write_cases(cf, cases)
    rc, out = vcheck.sh("%s 20000 < %s" % (model, cf), timeout=timeout)
    return conc_check.parse_logs(out)


def monitor_findings(mode, ilog):
    """Violations of the property itself seen by the implementation-side monitors: [(what, detail)]"""
    res = []
    if ilog is None:
        return res
    lockobj = {}
    for x in ilog["extra"]:
        t = x.split()
        if t[:2] == ["monitor", "max_inside"] and int(t[2]) > 1:
            res.append(("two threads inside one critical section guarded by the same lock/cell/node (real code, occupancy monitor, mode %s)" % mode, x))
        elif t[:2] == ["monitor", "shared"] and int(t[2]) > 0:
            res.append(("pool_monitor: one pool lock installed in two nodes at once, or installed while in the pool (real code)", x))
        elif t[:2] == ["monitor", "bad_free"] and int(t[2]) > 0:
            res.append(("pool_monitor: a lock went back to the pool while locked / still installed / already free, or the pool handed out an installed lock (real code)", x))
        elif t[:2] == ["monitor", "lockobj"]:
            lockobj[t[3]] = t[2]
    if mode == "pool":
        # allocation discipline on the implementation's own log: no access to a lock object while it is in the pool
        free = {}       # lock index -> True when in the pool (all locks start there)
        for l in ilog["lines"]:
            t = l.split(" ")
            if len(t) >= 4 and t[1] == "ev" and t[2] == "pool_alloc":
                free[t[3]] = False
            elif len(t) >= 4 and t[1] == "ev" and t[2] == "pool_free":
                if free.get(t[3], True):
                    res.append(("pool_monitor: a lock is given back to the pool twice (real code, event log)", l)); break
                free[t[3]] = True
            elif len(t) >= 3 and t[1] in ("xchg", "ld", "st") and t[2] in lockobj:
                if free.get(lockobj[t[2]], True):
                    res.append(("pool_monitor: a thread uses (holds or awaits) a node lock that is in the pool (real code, event log)", l)); break
    return res


def contended(mode, ilog):
    """non-trivial = some thread observed a lock taken: an exchange on a spin word that read 'true', or a failed CAS
    (values and success flags are taken from the implementation's event log)"""
    for l in ilog["lines"]:
        t = l.split(" ")
        if len(t) >= 5 and t[1] == "xchg" and t[4] == "i1":
            return True
        if len(t) >= 4 and t[1] == "cas" and t[3] == "0":
            return True
    return False


def features(mode, ilog):
    f = set()
    for l in ilog["lines"]:
        t = l.split(" ")
        if len(t) < 3:
            continue
        if t[1] == "xchg" and len(t) >= 5 and t[4] == "i1": f.add("xchg_saw_taken")
        elif t[1] == "cas" and t[3] == "0": f.add("cas_failed")
        elif t[1] == "faa" and mode == "re": f.add("reentered")
        elif t[1] == "ev":
            if t[2] == "fail": f.add("try_failed")
            elif t[2] == "pool_alloc": f.add("pool_alloc")
            elif t[2] == "pool_free": f.add("pool_free")
            elif t[2] == "inv" and len(t) >= 4:
                f.add("method_%s" % t[3])
    return f


def minimise(ctx, impl, mode, case, what):
    """greedy: drop operations, drop trailing nest levels, shorten the schedule, as long as the same monitor fires"""
    def fails(c):
        logs, st = run_impl(ctx, impl, mode, [c], "min", timeout=20)
        return any(w == what for w, _ in monitor_findings(mode, logs.get(c["id"])))
    cur = dict(case)
    budget = 60
    changed = True
    while changed and budget > 0:
        changed = False
        for ti in range(len(cur["threads"])):
            for oi in range(len(cur["threads"][ti])):
                cand = json.loads(json.dumps(cur)); del cand["threads"][ti][oi]
                budget -= 1
                if budget > 0 and fails(cand):
                    cur = cand; changed = True; break
            if changed: break
        if not changed and len(cur["sched"]) > 1:
            for cut in (len(cur["sched"]) // 2, len(cur["sched"]) - 1):
                cand = dict(cur); cand["sched"] = cur["sched"][:cut]
                budget -= 1
                if budget > 0 and fails(cand):
                    cur = cand; changed = True; break
    return cur


MODEL_DEPS = {"spin": ["SpinLock"], "re": ["Reentrant"], "arr": ["SpinLock", "Locks", "LocksArray"],
              "inj": ["SpinLock", "Locks", "LocksInj"], "pool": ["PoolMon"]}


def build_model(ctx, md):
    """like conc_check.build_model, but keyed only by the sources this model is made of (Base/Conc.v, Base/Events.v,
    its Model/*.v, its Extract file, the OCaml driver), so that unrelated models changing do not force a rebuild"""
    import re as _re
    mode = md["mode"]
    d = os.path.join(ctx.work, "model_" + mode)
    os.makedirs(d, exist_ok=True)
    srcs = [os.path.join(vcheck.COQ, "Extract", md["extract"]), os.path.join(vcheck.VERIF, "ocaml", "conc_main.ml"),
            os.path.join(vcheck.COQ, "Base", "Conc.v"), os.path.join(vcheck.COQ, "Base", "Events.v")] + \
           [os.path.join(vcheck.COQ, "Model", m + ".v") for m in MODEL_DEPS[mode]]
    key = vcheck.file_hash(srcs)
    exe = os.path.join(d, "model_exe"); stamp = exe + ".key2"
    if os.path.exists(exe) and os.path.exists(stamp) and open(stamp).read() == key:
        return exe
    rc, out = vcheck.sh(["make", "-j4"] + ["Model/%s.vo" % m for m in MODEL_DEPS[mode]], cwd=vcheck.COQ, timeout=900)
    if rc != 0:
        raise vcheck.BuildError("coq model does not build:\n" + out[-3000:])
    rc, out = vcheck.extract(md["extract"], d)
    if rc != 0:
        raise vcheck.BuildError("extraction failed:\n" + out[-3000:])
    rc, out = vcheck.ocaml_build(d, ["model.mli", "model.ml", os.path.join(vcheck.VERIF, "ocaml", "conc_main.ml")], exe)
    if rc != 0:
        raise vcheck.BuildError("ocaml build failed:\n" + out[-3000:])
    open(stamp, "w").write(key)
    return exe


def prepare_mode(ctx, md):
    """build the extracted model and the list of cases (corpus first) of one mode"""
    mode = md["mode"]
    model = build_model(ctx, md)
    n = QUICK_N[mode] * (5 if ctx.thorough() else 1)
    cases = []
    cdir = os.path.join(vcheck.VERIF, "corpus", "C22")
    for f in sorted(os.listdir(cdir)) if os.path.isdir(cdir) else []:
        if f.endswith(".json"):
            c = json.load(open(os.path.join(cdir, f)))
            if c.get("mode", "spin") == mode:
                cases.append(c)
    ncorpus = len(cases)
    cases += gen_cases(ctx.rng, mode, n)
    t0 = os.times()
    cases += gen_window_cases(ctx, mode, model, ctx.rng.fork(), not ctx.thorough())
    t1 = os.times()
    WINDOW_INFO[mode]["generation_cpu_s"] = round((t1.user + t1.system + t1.children_user + t1.children_system) - (t0.user + t0.system + t0.children_user + t0.children_system), 1)
    return {"md": md, "model": model, "cases": cases, "ncorpus": ncorpus}


CHUNK = 100

def run_all(ctx, impl, preps):
    """model and implementation runs of all modes, in parallel processes (chunks of CHUNK cases)"""
    from concurrent.futures import ThreadPoolExecutor
    jobs = []
    with ThreadPoolExecutor(max_workers=max(2, min(12, vcheck.NCPU - 2))) as ex:
        for p in preps:
            mode = p["md"]["mode"]
            p["mfut"] = ex.submit(run_model, ctx, p["model"], p["cases"], "m_" + mode)
            p["ifuts"] = [ex.submit(run_impl, ctx, impl, mode, p["cases"][k:k + CHUNK], "i_%s_%d" % (mode, k)) for k in range(0, len(p["cases"]), CHUNK)]
        for p in preps:
            p["mlog"] = p["mfut"].result()
            p["ilog"] = {}; p["status"] = "ok"
            for f in p["ifuts"]:
                logs, st = f.result()
                p["ilog"].update(logs)
                if st != "ok" and p["status"] == "ok":
                    p["status"] = st


def check_mode(ctx, p, impl, stats):
    md = p["md"]; mode = md["mode"]; cases = p["cases"]; ncorpus = p["ncorpus"]
    mlog = p["mlog"]; ilog = p["ilog"]; status = p["status"]
    st = stats.setdefault(mode, {"cases": 0, "corpus": ncorpus, "diverged": 0, "steps": 0, "contended": 0, "distinct_logs": 0, "distinct_contended": 0,
                                 "features": {}, "sched_kinds": {}, "monitor_violations": 0})
    shapes = set(); cshapes = set(); first_div = None; found_real = False
    if status != "ok" and not any(bad_end(ilog.get(c["id"])) for c in cases):
        # the harness died or hangs without dumping a log: the first case without a complete log is the failing input
        bad = next((c for c in cases if c["id"] not in ilog or ilog[c["id"]]["end"] is None), None)
        if bad is not None:
            one, st1 = run_impl(ctx, impl, mode, [bad], "crash_" + mode, timeout=20)
            ctx.violation("%s: the real code %s on a deadlock-free client program (model: terminates normally)" % (md["what"], "hangs (a lock is never released / livelock)" if "timeout" in (status + st1) else "crashes (" + st1 + ")"),
                          {"case": bad, "mode": mode, "status": status, "status_alone": st1, "model_log": (mlog.get(bad["id"]) or {}).get("lines", [])[-40:],
                           "impl_log_tail": ((one.get(bad["id"]) or ilog.get(bad["id"]) or {}).get("lines", []))[-40:]})
            found_real = True
    for c in cases:
        m = mlog.get(c["id"]); i = ilog.get(c["id"])
        if i is None or i["end"] is None:
            if status == "ok":
                st["diverged"] += 1
                first_div = first_div or (c, {"index": -1, "model": "ok" if m else "<no output>", "impl": "<no output>", "prefix": []})
            continue
        st["cases"] += 1
        st["steps"] += len(i["lines"])
        st["sched_kinds"][c.get("sk", "corpus")] = st["sched_kinds"].get(c.get("sk", "corpus"), 0) + 1
        sh = hash(tuple(i["lines"]))
        shapes.add(sh)
        if contended(mode, i):
            st["contended"] += 1; cshapes.add(sh)
        if c.get("sk") == "window":
            wi = WINDOW_INFO.setdefault(mode, {})
            wi["cases_run"] = wi.get("cases_run", 0) + 1
            wi["impl_steps"] = wi.get("impl_steps", 0) + len(i["lines"])
            fcas = conc_windows.failed_cas(i["lines"])
            wi["failed_cas_events"] = wi.get("failed_cas_events", 0) + fcas
            wi["cases_with_failed_cas"] = wi.get("cases_with_failed_cas", 0) + (1 if fcas else 0)
            wi["cases_that_saw_a_lock_taken"] = wi.get("cases_that_saw_a_lock_taken", 0) + (1 if contended(mode, i) else 0)
            wi["cases_with_failed_try"] = wi.get("cases_with_failed_try", 0) + (1 if any(l.endswith(" ev fail") or " ev fail " in l or l.endswith(" ev ret 0") for l in i["lines"]) else 0)
        for ft in features(mode, i):
            st["features"][ft] = st["features"].get(ft, 0) + 1
        if bad_end(i) and "hangs" in bad_end(i) and st.get("hang_confirmations", 0) < 3:
            st["hang_confirmations"] = st.get("hang_confirmations", 0) + 1
            # confirm alone: on an overloaded machine a case can exceed the harness' watchdog without being stuck
            one, _ = run_impl(ctx, impl, mode, [c], "confirm_" + mode, timeout=60)
            if one.get(c["id"]) and one[c["id"]]["end"] is not None and not bad_end(one[c["id"]]):
                i = one[c["id"]]; st["slow_cases"] = st.get("slow_cases", 0) + 1
        finds = monitor_findings(mode, i)
        be = bad_end(i)
        if c.get("sk") == "window" and (finds or be):
            WINDOW_INFO[mode]["rejected_by_monitor_or_abandoned"] = WINDOW_INFO[mode].get("rejected_by_monitor_or_abandoned", 0) + 1
        for what, detail in finds:
            st["monitor_violations"] += 1; found_real = True
            if ctx.__dict__.setdefault("_seen", set()).__contains__(what):
                continue
            ctx._seen.add(what)
            small = minimise(ctx, impl, mode, c, what) if be is None else c
            sl, _ = run_impl(ctx, impl, mode, [small], "minrun", timeout=20)
            ctx.violation(what + (" - and then the real code " + be if be else ""),
                          {"case": small, "mode": mode, "monitor": detail, "original_case": c, "impl_log": (sl.get(small["id"]) or i)["lines"]})
        if be is not None:
            found_real = True
            if not finds and "abandoned" not in ctx.__dict__.setdefault("_seen", set()):
                ctx._seen.add("abandoned")
                ctx.violation("%s: the real code %s on a deadlock-free client program (the model terminates normally)" % (md["what"], be),
                              {"case": c, "mode": mode, "model_log": (m or {}).get("lines", [])[-60:], "impl_log_tail": i["lines"][-60:]})
            continue
        if m is None:
            st["diverged"] += 1
            first_div = first_div or (c, {"index": -1, "model": "<no output>", "impl": "ok", "prefix": []})
            continue
        d = conc_check.compare(m, i)
        if d is not None:
            st["diverged"] += 1
            first_div = first_div or (c, d)
            if c.get("sk") == "window":
                WINDOW_INFO[mode]["diverged_from_model"] = WINDOW_INFO[mode].get("diverged_from_model", 0) + 1
    st["distinct_logs"] = len(shapes); st["distinct_contended"] = len(cshapes)
    if first_div is not None and not found_real:
        # the correspondence broke: look for a real failure of the property with the monitors over more seeds
        more = gen_cases(ctx.rng, mode, 4000, prefix="s")
        il2, st2 = run_impl(ctx, impl, mode, more, "search_" + mode, timeout=240)
        for c2 in more:
            i2 = il2.get(c2["id"])
            if i2 is None or i2["end"] is None:
                one, st1 = run_impl(ctx, impl, mode, [c2], "crash_" + mode, timeout=20)
                ctx.violation("%s: the real code %s on a deadlock-free client program" % (md["what"], "hangs" if "timeout" in (st2 + st1) else "crashes (" + st1 + ")"),
                              {"case": c2, "mode": mode, "status": st2, "impl_log_tail": ((one.get(c2["id"]) or {}).get("lines", []))[-40:]})
                found_real = True
                break
            fs = monitor_findings(mode, i2)
            if fs:
                what, detail = fs[0]
                small = minimise(ctx, impl, mode, c2, what)
                sl, _ = run_impl(ctx, impl, mode, [small], "minrun", timeout=20)
                ctx.violation(what, {"case": small, "mode": mode, "monitor": detail, "original_case": c2, "impl_log": (sl.get(small["id"]) or i2)["lines"]})
                found_real = True
                break
        if not found_real:
            c, d = first_div
            ctx.violation("step correspondence between LV.%s and %s (%s) no longer holds" % (md["model"][:-2].replace("/", "."), md["what"], md["anchor"]),
                          {"correspondence": "%s vs %s" % (md["model"], md["what"]), "mode": mode, "case": c, "first_divergence": d}, no_input=True)
    return cases[ncorpus] if len(cases) > ncorpus else None


def replay(ctx, impl):
    r = json.load(open(ctx.replay))
    c = r.get("case"); mode = r.get("mode") or (c or {}).get("mode", "spin")
    md = next(m for m in MODES if m["mode"] == mode)
    if c is None:
        ctx.log("replay file has no case (no failing input was found at the time)"); return
    c = dict(c); c.setdefault("id", "replay")
    model = build_model(ctx, md)
    mlog = run_model(ctx, model, [c], "rp_m")
    ilog, status = run_impl(ctx, impl, mode, [c], "rp_i", timeout=30)
    i = ilog.get(c["id"]); m = mlog.get(c["id"])
    if status != "ok" or i is None or i["end"] is None:
        ctx.violation("%s: the real code %s on the replayed case" % (md["what"], "hangs" if "timeout" in status else "crashes"), {"case": c, "mode": mode, "status": status})
        return
    for what, detail in monitor_findings(mode, i):
        ctx.violation(what, {"case": c, "mode": mode, "monitor": detail, "impl_log": i["lines"]})
    d = conc_check.compare(m, i) if m else {"index": -1, "model": "<no output>", "impl": "ok", "prefix": []}
    if d is not None and not ctx.violations:
        ctx.violation("step correspondence between LV.%s and %s no longer holds (replayed case)" % (md["model"][:-2].replace("/", "."), md["what"]),
                      {"case": c, "mode": mode, "first_divergence": d}, no_input=True)
    ctx.log("replay %s mode=%s: %s" % (ctx.replay, mode, "violation reproduced" if ctx.violations else "no violation"))


def run(ctx):
    res = vcheck.coq_build(["Properties/Properties_C22.v"])
    ctx.coq_evidence(res)
    impl = vcheck.cxx_build(os.path.join(vcheck.VERIF, "harness/C22/main.cpp"), os.path.join(ctx.work, "harness"), hook=True, link_cds=False)
    stats = {}; samples = []
    if ctx.replay:
        replay(ctx, impl)
    else:
        ctx.log("coq obligations built (ok=%s), harness built" % res.ok)
        preps = [prepare_mode(ctx, md) for md in MODES]
        ctx.log("models built, %d cases generated" % sum(len(p["cases"]) for p in preps))
        run_all(ctx, impl, preps)
        ctx.log("model and implementation runs finished")
        for p in preps:
            s = check_mode(ctx, p, impl, stats)
            if s is not None:
                samples.append({k: s[k] for k in ("mode", "cfg", "threads", "sched")})
    if ctx.thorough() and res.ok and not ctx.replay:
        rc, out = vcheck.coqchk("LV.Properties.Properties_C22")
        ctx.coverage["coqchk"] = "ok" if rc == 0 else out[-600:]
        if rc != 0:
            ctx.violation("coqchk rejects LV.Properties.Properties_C22", {"theorem": "Properties_C22", "coqchk": out[-1500:]}, no_input=True)
    if not res.ok:
        ctx.violation("Coq obligations of C22 do not check: %s" % (res.failed[:2],), {"theorem": [f[2] for f in res.failed], "errors": res.failed[:3]}, no_input=True)
    tot = lambda k: sum(s[k] for s in stats.values())
    ctx.coverage.update({
        "evaluations": tot("cases") if stats else 0,
        "distinct_nontrivial": tot("distinct_contended") if stats else 0,
        "rule": "program x schedule pairs per model (2-4 threads, 1-3 locks/cells/nodes, 1-2 operations each = nests of depth 1-3 of lock / try_lock / try_lock(n) / lock_all / scoped_lock; uniform, bursty and run-then-switch schedules from one splitmix64 stream) plus model-guided window schedules on fixed deadlock-free templates (victim stalled right before one of its writes, actor through one of its writes; see window_schedules); distinct = distinct implementation event logs; non-trivial = in the implementation's log some thread observed a lock taken: an exchange on a spin word read 'true' or a compare_exchange failed",
        "distinct_event_logs": tot("distinct_logs") if stats else 0,
        "impl_steps_compared": tot("steps") if stats else 0,
        "diverged": tot("diverged") if stats else 0,
        "corpus_cases": tot("corpus") if stats else 0,
        "traces_validated_against_impl": (tot("cases") - tot("diverged")) if stats else 0,
        "per_model": stats,
        "window_schedules": WINDOW_INFO,
        "samples": samples,
        "modelled": "cds::sync::spin_lock (try_lock, lock, unlock); reentrant_spin_lock (lock, try_lock, try_lock(n), unlock); lock_array<spin_lock, mod_select_policy> (lock, try_lock, unlock, lock_all, unlock_all, std::unique_lock specialisation); injecting_monitor<spin_lock> and pool_monitor<trivial LIFO pool, backoff::empty, false> (lock, unlock, monitor_scoped_lock)",
    })
    return ctx.finish(vcheck.STD_TRUSTED + ["hook layer: khizmax_libcds_verif::atomic<T>, baton scheduler, event log (hooks/include)", "ocaml/conc_main.ml event printer",
                                            "harness/C22/main.cpp: trivial_pool (the LockPool the pool_monitor is instantiated with) and the occupancy / sharing / bad-free monitors"],
                      ["sequential consistency: memory_order arguments are not modelled", "compare_exchange_weak never fails spuriously under the hook",
                       "pool_monitor is instantiated with a trivial LIFO pool whose allocate/deallocate are single scheduled steps (the real vyukov_queue_pool is property C24) and with lock_type = spin_lock<backoff::empty> (a std::mutex cannot be scheduled)",
                       "thread ids of reentrant_spin_lock: model thread t has id t+1; the correspondence compares access events, not the id values",
                       "Backoff = cds::backoff::empty in every instantiation (no access inside the back-off)"])
