"""C26 -- heap slot counter (cds::bitop::bit_reverse_counter<size_t>): contiguous prefix and exact undo
(DESIGN.md section 7, C26).

1. regenerate coq/Gen/Gen_brc.v from $VERIF_REPO with tools/cxx2v (unit list tools/cxx2v/units_C26.json),
2. build Properties/Properties_C26.v: theorems about the generated inc/dec for EVERY reachable state and every
   count up to 2^64-1 (closed form, dec undoes inc, level permutations, distinct slots, parent first, slot bound;
   the property's first sentence is REFUTED: n = 5 gives slots 1,2,3,4,6 -- known finding, by design),
3. differential sweep (cross-check of the translator): harness/C26/sweep.cpp drives the real counter through
   every Dyck-like sequence of 16 (thorough 20) calls, all n <= 2^16 (2^20) increments and back, random inc/dec
   walks, and teleported states at every level up to 2^64-1; ocaml/c26_driver.ml replays the same calls on the
   extracted Gen_brc; the two traces are compared line by line,
4. the harness' oracle (naive bit reversal + explicit stack of live slots and saved states) is the failing-input
   search when a proof, the translation or the correspondence breaks; its failing input is minimised and
   written to the replay file.

Replay:  bin/check C26 --replay replays/C26-xxxx.json   re-runs the `ops` of the file on the real code.
"""
import collections, glob, json, os, shutil, sys, time
import vcheck

UNITS_FILE = os.path.join(vcheck.VERIF, "tools", "cxx2v", "units_C26.json")
KNOWN_SIG = "brc-prefix-not-contiguous"
KNOWN_WHAT = ("bit_reverse_counter: the first n slots are not a permutation of 1..n unless n = 2^k - 1 (n = 5 yields "
              "slots 1,2,3,4,6); this is the heap-slot scattering of Hunt et al. working as designed, not repaired; "
              "levels are permutations, slots are distinct and dec undoes inc (proved)")


# --------------------------------------------------------------------------------------------------
def build_model(ctx):
    """Extract Gen_brc and build the OCaml driver; cached by the content of everything it is made of."""
    srcs = [os.path.join(vcheck.COQ, "Gen", "Gen_brc.v"), os.path.join(vcheck.COQ, "Base", "CInt.v"),
            os.path.join(vcheck.COQ, "Extract", "Extract_C26.v"),
            os.path.join(vcheck.VERIF, "ocaml", "cxx2v_rt.ml"), os.path.join(vcheck.VERIF, "ocaml", "c26_driver.ml")]
    if not os.path.exists(srcs[0]):
        return None, "coq/Gen/Gen_brc.v does not exist (translation failed)"
    key = vcheck.file_hash(srcs)
    d = os.path.join(ctx.work, "model")
    exe = os.path.join(d, "c26_driver")
    if os.path.exists(exe) and os.path.exists(exe + ".key") and open(exe + ".key").read() == key:
        return exe, None
    shutil.rmtree(d, ignore_errors=True)
    os.makedirs(d)
    # Gen_brc.vo must be current for the extraction (coq_build normally made it; make it here if a proof broke first)
    rc, out = vcheck.sh(["make", "Gen/Gen_brc.vo"], cwd=vcheck.COQ, timeout=300)
    if rc != 0:
        return None, "coq/Gen/Gen_brc.v does not compile:\n" + out[-1500:]
    rc, out = vcheck.extract("Extract_C26.v", d)
    if rc != 0:
        return None, "extraction failed:\n" + out[-2000:]
    for f in ("cxx2v_rt.ml", "c26_driver.ml"):
        shutil.copy(os.path.join(vcheck.VERIF, "ocaml", f), d)
    rc, order = vcheck.sh("ocamlfind ocamldep -sort *.ml *.mli", cwd=d)
    if rc != 0:
        return None, "ocamldep failed:\n" + order[-2000:]
    rc, out = vcheck.ocaml_build(d, order.split(), "c26_driver")
    if rc != 0:
        return None, "ocaml build failed:\n" + out[-3000:]
    with open(exe + ".key", "w") as f:
        f.write(key)
    return exe, None


def parse_report(path):
    rep = {"stat": {}, "classes": {}, "fails": [], "prefix": None}
    if not os.path.exists(path):
        return rep
    for l in open(path):
        l = l.rstrip("\n")
        if l.startswith("STAT "):
            _, k, v = l.split(" ", 2)
            rep["stat"][k] = int(v)
        elif l.startswith("CLASS "):
            t = l.split(" ")
            rep["classes"][" ".join(t[1:4])] = int(t[4])
        elif l.startswith("PREFIX "):
            t = l.split(" ")
            rep["prefix"] = {"scenario": t[1], "n": int(t[2]), "slots": [int(x) for x in t[3].split(",")], "scenarios_showing_it": int(t[4])}
        elif l.startswith("FAIL\t"):
            t = l.split("\t")
            rep["fails"].append({"scenario": t[1], "index": int(t[2]), "kinds": t[3], "ops": t[4], "detail": t[5]})
    return rep


def ops_len(ops):
    return sum(int(t[1:]) for t in ops.split() if t[0] in "id")


def run_ops(exe, d, ops, tag="ops"):
    """Run one scenario (`ops` = tokens i<n> d<n>, optional leading s<n>) on the real code; returns (trace lines, report)."""
    tr, rp = os.path.join(d, tag + "_trace.txt"), os.path.join(d, tag + "_report.txt")
    rc, out = vcheck.sh([exe, "ops", tr, rp] + ops.split(), timeout=300)
    lines = [l.rstrip("\n") for l in open(tr)] if os.path.exists(tr) else []
    return rc, lines, parse_report(rp)


def minimise(exe, d, fail):
    """Shorter failing inputs of the same kind: the state should be a function of the count, so try
    'count increments then the failing call' and a few neighbours; keep the shortest that still fails."""
    best = dict(fail)
    ops = fail["ops"].split()
    if not ops or ops[0][0] == "s":
        return best
    # count before the failing call and the failing call itself
    cnt = 0
    flat_last = None
    for t in ops:
        n = int(t[1:])
        cnt += n if t[0] == "i" else -n
        flat_last = t[0]
    cands = []
    if flat_last == "i":
        cands.append("i%d" % cnt)                       # cnt already includes the failing inc
    else:
        cands.append("i%d d1" % (cnt + 1))
        cands.append("i%d d%d" % (cnt + 2, 2))
    for c in cands:
        if ops_len(c) >= ops_len(best["ops"]):
            continue
        rc, lines, rep = run_ops(exe, d, c, "min")
        if rep["fails"]:
            f = rep["fails"][0]
            if ops_len(f["ops"]) < ops_len(best["ops"]):
                best = dict(f, scenario=fail["scenario"] + " (minimised)")
    return best


def expand_ops(ops, limit=64):
    s = ""
    for t in ops.split():
        if t[0] in "id":
            s += t[0] * min(int(t[1:]), limit + 1 - len(s))
        if len(s) > limit:
            return None
    return s


def fail_replay(f, lines_tail=None):
    r = {"input": {"ops": f["ops"], "ops_meaning": "tokens applied to a fresh cds::bitop::bit_reverse_counter<size_t>: i<n> = n times inc(), "
                   "d<n> = n times dec(); a leading s<n> = start from the closed-form state of count n (members written directly)",
                   "ops_expanded": expand_ops(f["ops"])},
         "failing_call_index": f["index"], "violated": f["kinds"].split(","), "observed_vs_expected": f["detail"], "scenario": f["scenario"],
         "how_to_replay": "bin/check C26 --replay <this file>   (or: build harness/C26/sweep.cpp against the tree; sweep ops T R %s)" % f["ops"]}
    if lines_tail:
        r["last_calls_on_the_real_code"] = lines_tail
    return r


# --------------------------------------------------------------------------------------------------
def run(ctx):
    cov = ctx.coverage
    failures = []            # (kind, detail dict)
    hdir = os.path.join(ctx.work, "h")
    sw = os.path.join(ctx.work, "sweep")
    shutil.rmtree(sw, ignore_errors=True)
    os.makedirs(sw)

    # ---- replay mode: just that case on the real code ------------------------------------------------
    if ctx.replay:
        exe = vcheck.cxx_build(os.path.join(vcheck.VERIF, "harness", "C26", "sweep.cpp"), os.path.join(hdir, "sweep"),
                               hook=False, link_cds=False, opt="-O2")
        rj = json.load(open(ctx.replay))
        ops = rj.get("input", {}).get("ops") or rj.get("ops")
        rc, lines, rep = run_ops(exe, sw, ops, "replay")
        ctx.log("replay %s: %d calls, oracle failures: %s, prefix: %s" % (ops, len(lines), [f["kinds"] for f in rep["fails"]], rep["prefix"]))
        for f in rep["fails"][:1]:
            ctx.violation("bit_reverse_counter: " + f["kinds"], fail_replay(f, lines[-8:]), signature="oracle:%s:%s" % (f["kinds"], f["ops"]))
        if rep["prefix"] and not rep["fails"]:
            p = rep["prefix"]
            ctx.violation(KNOWN_WHAT, {"input": {"ops": "i%d" % p["n"]}, "observed": p["slots"]},
                          signature=KNOWN_SIG if (p["n"], p["slots"]) == (5, [1, 2, 3, 4, 6]) else "%s:n=%d" % (KNOWN_SIG, p["n"]))
        cov.update({"obligations": 0, "discharged": 0, "checker_cmd": "replay only", "evaluations": len(lines), "distinct_nontrivial": 0,
                    "rule": "replay", "samples": lines[:12]})
        return ctx.finish(vcheck.STD_TRUSTED)

    # ---- 1. translate --------------------------------------------------------------------------------
    rc, out = vcheck.sh([sys.executable, os.path.join(vcheck.VERIF, "tools", "cxx2v", "gen_all.py")], timeout=600,
                        env={"CXX2V_UNITS": UNITS_FILE, "VERIF_REPO": vcheck.REPO})
    ctx.log("cxx2v:", out.strip().replace("\n", " | ")[-600:])
    cov["translator"] = {"cmd": "CXX2V_UNITS=tools/cxx2v/units_C26.json python3 tools/cxx2v/gen_all.py", "rc": rc, "repo": vcheck.REPO,
                         "output": out.strip().split("\n")[-12:]}
    funcs = {}
    mp = os.path.join(vcheck.COQ, "Gen", "Gen_brc.meta.json")
    if os.path.exists(mp):
        for f in json.load(open(mp))["functions"]:
            funcs["brc.%s" % f["coq"]] = {"cxx": f["cxx"], "sig": f["sig"], "source": f["source"], "sha256": f["sha256"]}
    cov["generated_functions"] = funcs
    if rc != 0:
        failures.append(("translator", {"translation_unit": [l for l in out.split("\n") if "FAILED" in l or "SKIPPED" in l],
                                        "message": out[-1500:]}))

    # ---- 2. proof obligations ------------------------------------------------------------------------
    res = vcheck.coq_build(["Properties/Properties_C26.v"], timeout=1200)
    ctx.coq_evidence(res)
    ctx.log("coq: %d/%d obligations discharged in %.0fs" % (len(res.discharged), len(res.obligations), res.wall_s))
    if not res.ok:
        for (f, ln, thm, msg) in res.failed[:6]:
            failures.append(("proof", {"file": f, "line": ln, "lemma": thm, "coq_error": msg}))
    if ctx.thorough() and res.ok:
        rc2, o2 = vcheck.coqchk("LV.Properties.Properties_C26", timeout=1500)
        cov["coqchk"] = {"rc": rc2, "tail": o2[-300:]}
        if rc2 != 0:
            failures.append(("proof", {"file": "coqchk", "coq_error": o2[-600:]}))

    # ---- 3. harness on the real code -----------------------------------------------------------------
    exe = vcheck.cxx_build(os.path.join(vcheck.VERIF, "harness", "C26", "sweep.cpp"), os.path.join(hdir, "sweep"),
                           hook=False, link_cds=False, opt="-O2")

    # corpus first: recorded cases must still behave as recorded on the real code and pass the oracle
    corpus = sorted(glob.glob(os.path.join(vcheck.VERIF, "corpus", "C26", "*.json")))
    cov["corpus_cases"] = len(corpus)
    for cf in corpus:
        cj = json.load(open(cf))
        rc, lines, rep = run_ops(exe, sw, cj["ops"], "corpus")
        if rep["fails"]:
            f = rep["fails"][0]
            ctx.violation("bit_reverse_counter: " + f["kinds"], dict(fail_replay(f, lines[-8:]), corpus_case=os.path.basename(cf)),
                          signature="oracle:%s:%s" % (f["kinds"], f["ops"]))
        elif rc != 0 or lines != cj["expect_trace"]:
            first = next((i for i, (a, b) in enumerate(zip(lines, cj["expect_trace"])) if a != b), min(len(lines), len(cj["expect_trace"])))
            ctx.violation("corpus case no longer behaves as recorded on the real code",
                          {"input": {"ops": cj["ops"]}, "corpus_case": os.path.basename(cf), "first_differing_call": first,
                           "expected": cj["expect_trace"][first:first + 3], "observed": lines[first:first + 3]},
                          signature="corpus:%s" % os.path.basename(cf))

    trace, report = os.path.join(sw, "trace.txt"), os.path.join(sw, "report.txt")
    t0 = time.time()
    rc, out = vcheck.sh([exe, "run", str(ctx.seed), ctx.tier, trace, report], timeout=900)
    cov["harness_wall_s"] = round(time.time() - t0, 1)
    rep = parse_report(report)
    if rc != 0 or not rep["stat"]:
        failures.append(("harness", {"message": "sweep run failed rc=%s: %s" % (rc, out[-400:])}))
    ctx.log("harness: %s" % json.dumps(rep["stat"]))

    # oracle failures on the real code: the concrete failing inputs
    seen_kinds = set()
    for f in rep["fails"]:
        if f["kinds"] in seen_kinds:
            continue
        seen_kinds.add(f["kinds"])
        fm = minimise(exe, sw, f)
        rc2, lines2, _ = run_ops(exe, sw, fm["ops"], "fail") if ops_len(fm["ops"]) <= 100000 else (0, [], None)
        ctx.violation("bit_reverse_counter: " + fm["kinds"], fail_replay(fm, lines2[-8:]), signature="oracle:%s:%s" % (fm["kinds"], fm["ops"]))
        if len(seen_kinds) >= 3:
            break

    # the property's first sentence on the real code: known finding (n = 5 -> slot 6), anything else is new
    p = rep["prefix"]
    if p is not None and not rep["fails"]:
        expected = (p["n"], p["slots"]) == (5, [1, 2, 3, 4, 6])
        ctx.violation(KNOWN_WHAT if expected else "bit_reverse_counter: the first %d slots %s are not a permutation of 1..%d (differs from the recorded known finding n=5)" % (p["n"], p["slots"], p["n"]),
                      {"input": {"ops": "i%d" % p["n"], "ops_expanded": "i" * min(p["n"], 64)}, "expected": list(range(1, p["n"] + 1)), "observed": p["slots"],
                       "expected_is": "the property's first sentence (a permutation of 1..n)", "observed_is": "slots returned by the real counter",
                       "coq": "Properties_C26.brc_prefix_permutation_refuted", "scenarios_showing_it": p["scenarios_showing_it"]},
                      signature=KNOWN_SIG if expected else "%s:n=%d" % (KNOWN_SIG, p["n"]))
    elif p is None and rep["stat"] and not rep["fails"]:
        ctx.log("note: the real counter's prefixes were contiguous for every n in this run (the recorded known finding did not show)")
        cov["known_finding_absent"] = True

    # ---- 4. differential: real code vs extracted model ----------------------------------------------
    evaluations = 0
    hist = collections.Counter()
    samples, big_samples = [], []
    model, err = build_model(ctx)
    disagreement = None
    if model is None:
        failures.append(("model", {"message": err}))
    elif os.path.exists(trace):
        mtrace = os.path.join(sw, "model.txt")
        t0 = time.time()
        rc, out = vcheck.sh([model, trace, mtrace], timeout=1500)
        cov["model_wall_s"] = round(time.time() - t0, 1)
        if rc != 0:
            failures.append(("model", {"message": "model driver failed rc=%s: %s" % (rc, out[-400:])}))
        else:
            scen_start, scen_no, ub = 0, 0, 0
            with open(trace) as a, open(mtrace) as b:
                for i, (le, lm) in enumerate(zip(a, b)):
                    c = le[0]
                    if c == "r":
                        scen_start = i
                        scen_no += 1
                    else:
                        evaluations += 1 if c in "id" else 0
                        hist[c] += 1
                    if le != lm:
                        if disagreement is None:
                            disagreement = (i, scen_start, le.strip(), lm.strip())
                        if "UB" in lm:
                            ub += 1
                    elif c in "id" and ((len(samples) < 10 and (evaluations % 50021 == 1 or (c == "d" and evaluations % 7919 == 3)))
                                        or (len(big_samples) < 6 and len(le) > 40 and evaluations % 37 == 5)):
                        (big_samples if len(le) > 40 else samples).append(le.strip())
            n_model = sum(1 for _ in open(mtrace))
            n_trace = sum(1 for _ in open(trace))
            if n_model != n_trace and disagreement is None:
                failures.append(("model", {"message": "model trace has %d lines, harness trace %d" % (n_model, n_trace)}))
            cov["model_UB_lines"] = ub
    if disagreement is not None:
        i, s0, le, lm = disagreement
        pre = []
        with open(trace) as a:
            for j, l in enumerate(a):
                if j > i:
                    break
                if j > s0:
                    pre.append(l.strip())
        toks, last, run = [], None, 0
        for l in pre:
            if l[0] == "s":
                toks.append("s%d" % int(l.split()[1], 16))
                continue
            if l[0] == last:
                run += 1
            else:
                if last:
                    toks.append("%s%d" % (last, run))
                last, run = l[0], 1
        if last:
            toks.append("%s%d" % (last, run))
        ops = " ".join(toks)

        def diff_on(o, tag):
            """first line on which the real code and the model disagree for the scenario `o`, or None"""
            rc_, lines_, _ = run_ops(exe, sw, o, tag)
            mt = os.path.join(sw, tag + "_model.txt")
            rcm, _o = vcheck.sh([model, os.path.join(sw, tag + "_trace.txt"), mt], timeout=600)
            if rc_ != 0 or rcm != 0:
                return None
            ml = [l.rstrip("\n") for l in open(mt)]
            for k, (x, y) in enumerate(zip(lines_, ml)):
                if x != y:
                    return (k, x, y, lines_[max(0, k - 5):k])
            return None

        # shorter input: the state should be a function of the count -> "count increments, then the failing call"
        cnt = 0
        for t in toks:
            cnt += int(t[1:]) if t[0] == "i" else (-int(t[1:]) if t[0] == "d" else 0)
        if toks and toks[0][0] != "s" and len(toks) > 2:
            cand = "i%d" % cnt if toks[-1][0] == "i" else "i%d d1" % (cnt + 1)
            dd = diff_on(cand, "dmin")
            if dd is not None:
                ops, le, lm, pre = cand, dd[1], dd[2], dd[3] + [dd[1]]
        is_ub = "UB" in lm
        cov["first_model_vs_cxx_difference"] = {"ops": ops if len(ops) < 400 else ops[:400] + " ...", "model": lm, "cxx": le}
        if is_ub and ctx.violations:
            # the model reaches undefined behaviour (None) where the compiled code returns a value; an oracle failure on a
            # concrete input has already been reported for this tree, this is its consequence (recorded, not reported twice)
            cov["first_model_vs_cxx_difference"]["note"] = "model evaluates to UB (None); consequence of the reported oracle failure"
        else:
            ctx.violation(("the generated bit_reverse_counter evaluates to undefined behaviour (None in CInt: shift count out of range, signed overflow "
                           "or fuel 64 exhausted) on a valid inc/dec sequence where the compiled code returns a value") if is_ub else
                          ("compiled C++ and generated Gallina disagree on bit_reverse_counter (translator or CInt semantics is wrong, or the "
                           "harness does not call the translated function)"),
                          {"input": {"ops": ops, "ops_expanded": expand_ops(ops)}, "trace_line": i + 1, "expected": lm, "observed": le,
                           "expected_is": "extracted Gen_brc (op slot counter reversed high_bit, hex)", "observed_is": "compiled C++",
                           "previous_calls": pre[-6:-1]}, signature="diff:%s" % ops)

    # ---- 5. obligations broke but no failing input -> say exactly what no longer checks ----------------
    if failures and not ctx.violations:
        for kind, det in failures[:4]:
            what = {"translator": "cxx2v can no longer translate bit_reverse_counter (construct outside the supported subset)",
                    "proof": "a C26 theorem about the generated bit_reverse_counter no longer checks",
                    "model": "the extracted model of bit_reverse_counter could not be built/run",
                    "harness": "the C26 harness failed"}[kind]
            ctx.violation(what, dict(det, kind=kind, searched="oracle on the real code over %d calls (every Dyck-like sequence of %s calls, the full ramp, "
                                     "walks, teleported levels up to 2^64-1): no failure" % (rep["stat"].get("oracle_checks", 0), "20" if ctx.thorough() else "16")),
                          no_input=True)
    if failures:
        cov["broken_obligations"] = [dict(d, kind=k) for k, d in failures[:8]]

    # ---- 6. evidence -------------------------------------------------------------------------------------
    classes = rep["classes"]
    by_op_level = collections.Counter()
    for k, v in classes.items():
        t = k.split()
        by_op_level["%s level %s" % ("inc" if t[0] == "i" else "dec", t[1])] += v
    cov.update({
        "evaluations": evaluations + rep["stat"].get("oracle_checks", 0),
        "model_vs_cxx_evaluations": evaluations,
        "oracle_checks_on_real_code": rep["stat"].get("oracle_checks", 0),
        "distinct_nontrivial": len([k for k in classes if not k.endswith(" 1")]),
        "distinct_classes_total": len(classes),
        "rule": "distinct (operation, high_bit before the call, number of iterations of the bit loop | L = level change) classes among the "
                "calls compared between compiled C++ and extracted Gallina; these are the cases of the induction in "
                "C26_Counter.inc_loop_spec/dec_loop_spec and of the level-change branches of inc_st/dec_st; non-trivial = the loop runs "
                "at least twice or the level changes",
        "scenarios": {"total": rep["stat"].get("scenarios", 0),
                      "exhaustive_dyck_length": 20 if ctx.thorough() else 16,
                      "ramp_n": 2 ** 20 if ctx.thorough() else 2 ** 16,
                      "random_walks": 240 if ctx.thorough() else 60,
                      "teleports": rep["stat"].get("teleports", 0), "teleport_layout_ok": rep["stat"].get("teleport_layout_ok", 0),
                      "max_count": rep["stat"].get("max_count", 0)},
        "per_operation_calls": {"inc": hist.get("i", 0), "dec": hist.get("d", 0), "teleport": hist.get("s", 0)},
        "calls_per_operation_and_level": dict(sorted(by_op_level.items(), key=lambda kv: (kv[0].split()[0], int(kv[0].split()[2])))),
        "level_change_calls": {k: v for k, v in classes.items() if k.endswith(" L")},
        "samples": samples + big_samples,
        "samples_format": "op slot value() reversed_value() high_bit() -- hex, identical in the C++ trace and the model trace",
        "first_sentence_on_real_code": p,
        "seed": ctx.seed,
    })
    ctx.log("sweep: %d model-vs-C++ calls, %d oracle checks, %d classes (%d non-trivial), max count %d"
            % (evaluations, rep["stat"].get("oracle_checks", 0), len(classes), cov["distinct_nontrivial"], rep["stat"].get("max_count", 0)))
    trusted = vcheck.STD_TRUSTED + [
        "tools/cxx2v (clang 14 JSON AST -> Gallina) and coq/Base/CInt.v's reading of the C++ standard for g++/amd64 (LP64); cross-checked on "
        "every run by the differential sweep above (all levels 0..63 of the 64-bit counter are exercised, the levels above 20 from "
        "states written directly into the object)",
        "Print Assumptions: " + ("all C26 theorems closed under the global context" if res.assumptions and all(v == "closed" for v in res.assumptions.values())
                                 else json.dumps(res.assumptions)),
        "ocaml/cxx2v_rt.ml (hex <-> Coq Z), ocaml/c26_driver.ml",
    ]
    assumptions = [
        "asserts are compiled out (NDEBUG) in both the translated configuration and the harness",
        "the theorems are about bit_reverse_counter<size_t> (64-bit counter); inc is used only while value() < 2^64-1 and dec only while "
        "value() > 0 (outside these bounds the code wraps: Example brc_bounds_are_needed); fuel >= 64",
        "the counter is used by one thread at a time (MSPriorityQueue calls it under the heap lock); no concurrency is modelled",
        "cds::bitop::complement resolves to the portable complement64 of cds/details/bitop_generic.h (the amd64 header defines no asm variant of it)",
    ]
    return ctx.finish(trusted, assumptions)
