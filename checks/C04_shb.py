"""signal_buffered (shb) under the deterministic scheduler: the REAL cds::urcu::gc<signal_buffered<Buffer, Lock, Backoff>>
with REAL signals (pthread_kill + the library's handler) and the monitors of C04 / C05 (harness/C04/shb_sched.cpp), plus a
step-by-step comparison of the access / event log with the extracted Coq model LV.Model.RcuSignal for the atomic-buffer
variants.  Used by checks/C04.py and checks/C05.py through run_shb_sched(ctx).

How signals are made schedulable: hooks/include/khizmax_libcds_verif/sigsched.h (SIGUSR1 blocked in the workers; a
pending signal is delivered - the handler runs - as a scheduler step of its own of the target thread, when the schedule
selects that thread).  The harness AND a private build of libcds (src/*.cpp, the handler lives in src/urcu_sh.cpp) are
compiled with `-include khizmax_libcds_verif/sigsched.h`; sched.h and the libcds build of the other checks are unchanged.

Generators (all from ctx.rng):
  flat     random reader / writer / mixed programs (2-4 clients) with uniform, bursty and run-then-switch schedules
  directed the same programs with random director segments "run thread t until it passes point p (k-th time), then n
           more atomic accesses" over the points lock_enter, locked, sync_start (after the epoch fetch_add), raised (a flag
           store + pthread_kill done), waiting, flipped (1st / 2nd switch_next_epoch), unlock (grace period over), pop,
           delivered (the handler has just run on this thread), push / push_ok / push_full, op_begin, in_section, ...
  signal   aimed: a synchronizer is parked between raising the signal for a thread and that thread's delivery point
           (after the 1st .. k-th raise of the first or of the second force_membar_all_threads); meanwhile the target
           enters / leaves a section, detaches, re-attaches, a writer unpublishes and retires; then delivery, then the rest
  flips    aimed: a reader is parked inside access_lock (between the load of the global control word and its own store)
           while a writer runs a whole synchronize (prompt delivery: the reader only takes its delivery steps), enters,
           reads; the writer unpublishes, retires, synchronizes.  Also: the writer parked between the two flips
  handoff  aimed: a synchronizer is parked somewhere inside synchronize (epoch fetch_add .. clear_buffer), a reader enters
           a section, a writer unpublishes + retires (+ synchronizes / overflows the buffer), then the first goes on
  overflow aimed: capacity 1-4, writers retire more objects than fit while readers sit in sections; parked at push /
           push_full / pop / inside the synchronize of the overflow path
A watchdog expiry (harness `endcase stuck`, or a process killed by the driver's generous time limit) is counted as
INCONCLUSIVE in the evidence and is never a violation.  Violations: the property monitors; a run that exceeds the step
limit (60000 scheduler steps; the schedules are fair once their explicit part is used up, the unchanged code needs a
few hundred) = a waiting loop that no longer terminates; a divergence from the Coq model that no monitor explains."""
import os, json, subprocess, time
import vcheck, conc_check

HARNESS = os.path.join(vcheck.VERIF, "harness/C04/shb_sched.cpp")
SIGINC = ("-include", "khizmax_libcds_verif/sigsched.h")

P = {"lock_enter": 1, "locked": 2, "sync_start": 3, "waiting": 4, "unlock": 5, "raised": 6, "flipped": 7, "delivered": 8, "push": 9,
     "push_ok": 10, "push_full": 11, "pop": 12, "op_begin": 13, "in_section": 14, "retired": 15, "sync_ret": 16, "left_section": 17,
     "bk_reset": 18, "disposed": 19}
PN = {v: k for k, v in P.items()}
OPN = {1: "attach", 2: "detach", 3: "rlock", 4: "runlock", 5: "sync", 6: "retire", 7: "publish", 8: "unpublish", 9: "touch", 10: "batch_retire"}
VARIANT = {0: "ABuf<VyukovMPMCCycleQueue> (buffer operations atomic)", 1: "ABuf<VyukovMPMCCycleQueue + item_counter> (buffer operations atomic)",
           2: "VyukovMPMCCycleQueue (queue internals scheduled)", 3: "VyukovMPMCCycleQueue + item_counter (queue internals scheduled)"}

MONITORS = ("dispose_inside_old_reader", "sync_end_inside_old_reader", "touch_disposed", "dispose_unretired", "disposed_twice", "not_disposed_exactly_once")
TEXT = {
    "dispose_inside_old_reader": "an object was disposed while a reader that entered its read-side critical section before the retirement was still inside it",
    "sync_end_inside_old_reader": "synchronize() returned while a reader that entered its critical section before the call was still inside it",
    "touch_disposed": "a reader inside a read-side critical section used an object that had already been disposed",
    "dispose_unretired": "the disposer was called for an object that was never retired",
    "disposed_twice": "a retired object was disposed more than once",
    "not_disposed_exactly_once": "a retired object was not disposed exactly once by the time the RCU singleton was destroyed",
    "no_progress": "the run exceeded the step limit under a fair schedule: a waiting loop of synchronize() (force_membar_all_threads / wait_for_quiescent_state / the lock) no longer terminates",
}


def build(ctx):
    """the harness and a private libcds, every translation unit compiled with -include sigsched.h"""
    lib = vcheck.libcds(True, "-O1", extra=SIGINC, tag="sigsched")
    return vcheck.cxx_build(HARNESS, os.path.join(ctx.work, "shb_sched"), hook=True, extra=SIGINC, link_cds=False, libs=[lib])


# ------------------------------------------------------------------------------------------------
# programs

def gen_thread(rng, role, objs, nmax=9):
    """Discipline (needed by the touch monitor only): an object is retired by the thread that published it, after that
    thread stored something else into src; fresh objects may be retired without ever being published."""
    ops = [[1]] if rng.chance(19, 20) else []
    mine = []; pub = None
    if role == "reader":
        w = [("rlock", 5), ("runlock", 4), ("touch", 5), ("sync", 1), ("detach", 1), ("attach", 1)]
    elif role == "writer":
        w = [("publish", 3), ("unpublish", 2), ("retire", 5), ("sync", 3), ("batch", 1), ("rlock", 1), ("runlock", 1), ("detach", 1), ("attach", 1)]
    elif role == "retirer":
        w = [("retire", 8), ("batch", 2), ("sync", 1), ("publish", 1), ("unpublish", 1)]
    else:
        w = [("rlock", 3), ("runlock", 3), ("touch", 2), ("publish", 2), ("unpublish", 1), ("retire", 3), ("sync", 2), ("batch", 1), ("detach", 1), ("attach", 1)]
    tot = sum(x[1] for x in w)
    for _ in range(2 + rng.below(nmax - 1)):
        r = rng.below(tot)
        for name, wt in w:
            if r < wt:
                break
            r -= wt
        if name == "rlock": ops.append([3])
        elif name == "runlock": ops.append([4])
        elif name == "touch": ops.append([9])
        elif name == "sync": ops.append([5])
        elif name == "attach": ops.append([1])
        elif name == "detach": ops.append([2])
        elif name == "publish":
            p = objs[0]; objs[0] += 1
            if pub is not None: mine.append(pub)
            pub = p; ops.append([7, p])
        elif name == "unpublish":
            if pub is not None: mine.append(pub); pub = None
            ops.append([8])
        elif name == "retire":
            if mine and rng.chance(3, 4): p = mine.pop(0)
            else: p = objs[0]; objs[0] += 1
            ops.append([6, p])
        elif name == "batch":
            ps = []
            for _ in range(1 + rng.below(3)):
                if mine and rng.chance(1, 2): ps.append(mine.pop(0))
                else: ps.append(objs[0]); objs[0] += 1
            ops.append([10] + ps)
    return ops


def gen_programs(rng, writer_heavy=False):
    n = 2 + rng.below(3)
    objs = [1]; threads = []; roles = []
    for t in range(n):
        if writer_heavy:
            role = "reader" if t == 0 else rng.choice(["retirer", "retirer", "writer"])
        else:
            role = ["reader", "writer"][t] if t < 2 else rng.choice(["reader", "writer", "mixed"])
            if rng.chance(1, 5): role = "mixed"
        roles.append(role); threads.append(gen_thread(rng, role, objs))
    return threads, roles


def gen_flat_sched(rng, n, kind):
    if kind == 0:
        return [rng.below(n) for _ in range(30 + rng.below(200))]
    if kind == 1:      # bursty
        s = []
        for _ in range(3 + rng.below(10)):
            s += [rng.below(n)] * (1 + rng.below(30))
        return s
    a = rng.below(n); b = rng.below(n)      # run one thread to a step, another one for long, then mix
    return [a] * (3 + rng.below(40)) + [b] * (10 + rng.below(60)) + [rng.below(n) for _ in range(40)]


def tail(rng, n):
    return [rng.below(n) for _ in range(20 + rng.below(40))]


def base_cfg(rng, caps=(1, 2, 3, 4, 4, 8), variants=(0, 0, 1, 1, 2, 3), prompt_pct=50):
    return [rng.choice(list(variants)), rng.choice(list(caps)), 1 if rng.below(100) < prompt_pct else 0]


def mk(cid, kind, cfg3, segs, threads, sched):
    cfg = list(cfg3) + [len(segs)]
    for s in segs:
        cfg += list(s)
    return {"id": cid, "kind": kind, "cfg": cfg, "threads": threads, "sched": sched}


# where a synchronizer can be parked: (point, occurrence)
SYNC_POINTS = [(P["lock_enter"], 1), (P["locked"], 1), (P["sync_start"], 1), (P["raised"], 1), (P["raised"], 2), (P["flipped"], 1), (P["flipped"], 1),
               (P["flipped"], 2), (P["flipped"], 2), (P["flipped"], 2), (P["raised"], 4), (P["raised"], 5), (P["raised"], 6),
               (P["unlock"], 1), (P["unlock"], 1), (P["pop"], 1), (P["waiting"], 1)]


def gen_flat(rng, cid):
    threads, _ = gen_programs(rng, writer_heavy=rng.chance(1, 4))
    return mk(cid, "flat", base_cfg(rng), [], threads, gen_flat_sched(rng, len(threads), rng.below(3)))


def gen_directed(rng, cid):
    threads, _ = gen_programs(rng, writer_heavy=rng.chance(1, 3))
    n = len(threads)
    segs = []
    for _ in range(3 + rng.below(6)):
        t = rng.below(n)
        if rng.chance(1, 6):
            segs.append((t, 0, 0, 1 + rng.below(12)))
        else:
            p = rng.choice(list(P.values()))
            k = 1 + (rng.below(3) if p in (P["op_begin"], P["raised"], P["push"], P["push_ok"], P["delivered"], P["bk_reset"]) else (rng.below(2) if rng.chance(1, 4) else 0))
            segs.append((t, p, k, rng.below(4)))
    return mk(cid, "directed", base_cfg(rng), segs, threads, tail(rng, n))


def attach_all(rng, n, segs):
    order = list(range(n))
    for i in range(n - 1, 0, -1):
        j = rng.below(i + 1); order[i], order[j] = order[j], order[i]
    for t in order:
        segs.append((t, P["op_begin"], 2, 0))       # (the 2nd op_begin: the attach has completed)
    return order


def gen_signal(rng, cid):
    """S | T | W.  S raises the signal for T (1st or 2nd force_membar) and is parked; T / W act; T takes its delivery step; ..."""
    x = 1
    s = [[1]] + ([[6, 90]] if rng.chance(1, 3) else []) + [[5]] + ([[5]] if rng.chance(1, 4) else [])
    tk = rng.below(4)
    if tk == 0:   t = [[1], [3], [9], [9], [4]]
    elif tk == 1: t = [[1], [3], [9], [4], [2], [1], [3], [9], [4]]
    elif tk == 2: t = [[1], [2], [1], [3], [9], [4]]
    else:         t = [[1], [3], [3], [9], [4], [9], [4], [5]]
    w = [[1], [7, x], [8], [6, x]] + ([[6, 91]] if rng.chance(1, 3) else []) + [rng.choice([[5], [5], [6, 92], [10, 93, 94]])]
    threads = [s, t, w]
    n = 3
    segs = []
    attach_all(rng, n, segs)
    if rng.chance(1, 2):
        segs.append((2, P["op_begin"], 1, 0))                                  # W has published x
    if rng.chance(2, 3):
        segs.append((1, rng.choice([P["in_section"], P["op_begin"]]), 1, rng.below(4)))     # T somewhere in its program
    second = rng.chance(1, 3)
    if second:
        segs.append((0, P["flipped"], 2, rng.below(3)))                        # S up to its second force_membar
    segs.append((0, P["raised"], 1 + rng.below(3), rng.below(3)))               # S has raised 1..3 signals
    for _ in range(1 + rng.below(3)):                                          # meanwhile
        r = rng.below(5)
        if r == 0:   segs.append((1, P["delivered"], 1, rng.below(4)))
        elif r == 1: segs.append((2, rng.choice([P["retired"], P["lock_enter"], P["push"], P["delivered"]]), 1, rng.below(3)))
        elif r == 2: segs.append((0, P["waiting"], 1 + rng.below(3), 0))        # S goes round the waiting loop (re-raises)
        elif r == 3: segs.append((1, rng.choice([P["op_begin"], P["left_section"], P["in_section"]]), 1, rng.below(3)))
        else:        segs.append((rng.below(3), 0, 0, 1 + rng.below(5)))
    segs.append((1, P["delivered"], 1, rng.below(3)))
    segs.append((0, rng.choice([P["sync_ret"], P["flipped"], P["unlock"]]), 1, rng.below(3)))
    cfg = base_cfg(rng, caps=(2, 4, 4, 8), prompt_pct=20)
    return mk(cid, "signal", cfg, segs, threads, tail(rng, n))


def gen_flips(rng, cid):
    """R is parked inside access_lock while W runs a whole synchronize (R only takes delivery steps); R enters and reads x;
    W unpublishes, retires x and synchronizes again.  Variant: W is parked between its two flips while R enters."""
    x = 1
    nt = 1 + rng.below(3)
    r = [[1]] + ([[3], [4]] if rng.chance(1, 4) else []) + [[3]] + [[9]] * nt + [[4]]
    rl_idx = max(i for i, o in enumerate(r) if o == [3]) + 1        # 1-based index of the rlock R is parked in
    w = [[1], [7, x], [5], [8], [6, x], rng.choice([[5], [5], [5], [6, 70]])]
    threads = [r, w]
    if rng.chance(1, 2):
        threads.append(gen_thread(rng, rng.choice(["reader", "mixed", "writer"]), [50], nmax=6))
    n = len(threads)
    segs = []
    done = 0
    if rng.chance(1, 2):
        segs.append((0, P["op_begin"], 2, 0)); done = 2
    segs.append((1, P["op_begin"], 3, 0))                           # W attached, x published; next op: synchronize
    if rng.chance(2, 3):
        nacc = rng.choice([2, 2, 2, 0, 1, 3])                       # R inside access_lock: 0..3 of its accesses done (2: global control word loaded)
        if rl_idx - done > 0:
            segs.append((0, P["op_begin"], rl_idx - done, nacc))
        else:
            segs.append((0, 0, 0, nacc))
        segs.append((1, rng.choice([P["sync_ret"], P["sync_ret"], P["unlock"], P["flipped"]]), 1, 1 if rng.chance(1, 5) else 0))
    else:
        segs.append((0, P["op_begin"], max(1, rl_idx - done), 0))   # R about to call access_lock
        segs.append((1, P["flipped"], 1, rng.below(3)))             # W between its two flips
    # R completes access_lock and reads; it is parked inside the section (never at the op_begin of its runlock: the monitor
    # counts a reader as outside from the moment it calls access_unlock)
    if rng.chance(1, 2):
        segs.append((0, P["op_begin"], nt, 1))                      # inside its last touch: x loaded, not yet used
    else:
        segs.append((0, P["in_section"], 1, rng.below(2 * nt)))
    segs.append((1, rng.choice([P["sync_ret"], P["disposed"], P["waiting"], P["unlock"], P["retired"]]), 1, rng.below(2)))
    if rng.chance(1, 2):
        segs.append((0, 0, 0, 1 + rng.below(4)))
    cfg = base_cfg(rng, caps=(2, 4, 8), prompt_pct=85)
    return mk(cid, "flips", cfg, segs, threads, tail(rng, n))


def gen_handoff(rng, cid):
    """S1 | R | W (| S2).  S1 is parked somewhere inside synchronize; R enters; W unpublishes, retires and synchronizes (or
    S2 does); S1 goes on."""
    x = 1
    s1 = [[1]] + ([[6, 90]] if rng.chance(1, 3) else []) + [[5]] + ([[5]] if rng.chance(1, 4) else [])
    r = [[1], [3]] + [[9]] * (1 + rng.below(3)) + ([[3], [9], [4]] if rng.chance(1, 3) else []) + [[4]] + ([[3], [9], [4]] if rng.chance(1, 3) else [])
    w = [[1], [7, x], [8], [6, x]] + ([[6, 91]] if rng.chance(1, 3) else []) + [rng.choice([[5], [5], [6, 92]])]
    threads = [s1, r, w]
    four = rng.chance(1, 2)
    if four:
        threads.append([[1], [5]])
    n = len(threads)
    segs = []
    done = [0] * n
    if rng.chance(2, 3):
        for t in attach_all(rng, n, segs):
            done[t] = 2
    if rng.chance(3, 4):
        segs.append((2, P["op_begin"], 3 - done[2], 0))            # W has published x (it is about to unpublish)
    pt, k = rng.choice(SYNC_POINTS)
    segs.append((0, pt, k, rng.below(3) if rng.chance(1, 3) else 0))            # S1 parked inside synchronize
    segs.append((1, P["in_section"], 1, rng.below(5)))                         # R enters (and reads)
    y = rng.choice([(P["retired"], 1), (P["lock_enter"], 1), (P["lock_enter"], 1), (P["push"], 1), (P["retired"], 1)])
    segs.append((2, y[0], y[1], rng.below(3)))                                 # W unpublishes, retires, starts to synchronize
    if four and rng.chance(2, 3):
        segs.append((3, P["lock_enter"], 1, rng.below(3)))
    segs.append((0, rng.choice([P["disposed"], P["sync_ret"], P["unlock"]]), 1, rng.below(3)))   # S1 goes on
    if rng.chance(1, 2):
        segs.append((1, 0, 0, 1 + rng.below(6)))                               # R reads again
    cfg = base_cfg(rng, caps=(2, 4, 4, 8), prompt_pct=70)
    return mk(cid, "handoff", cfg, segs, threads, tail(rng, n))


def gen_overflow(rng, cid):
    threads, roles = gen_programs(rng, writer_heavy=True)
    if len(threads) < 3:
        threads.append(gen_thread(rng, "retirer", [60]))
    n = len(threads)
    # the reader sits in a section and reads what a writer published
    threads[0] = [[1], [3]] + [[9]] * (1 + rng.below(3)) + [[4]] + ([[3], [9], [4]] if rng.chance(1, 2) else [])
    segs = []
    if rng.chance(1, 2):
        segs.append((1, P["op_begin"], 2 + rng.below(3), 0))
    segs.append((0, P["in_section"], 1, rng.below(4)))
    for _ in range(2 + rng.below(4)):
        t = 1 + rng.below(n - 1)
        p = rng.choice([P["push"], P["push_full"], P["push_full"], P["push_ok"], P["lock_enter"], P["unlock"], P["pop"], P["retired"], P["flipped"], P["waiting"], P["disposed"]])
        segs.append((t, p, 1 + (rng.below(3) if p in (P["push"], P["push_ok"], P["retired"], P["pop"]) else 0), rng.below(3)))
    if rng.chance(1, 2):
        segs.append((0, 0, 0, 1 + rng.below(6)))
    cfg = base_cfg(rng, caps=(1, 1, 2, 2, 3, 4), prompt_pct=60)
    return mk(cid, "overflow", cfg, segs, threads, tail(rng, n))


GEN = {"flat": gen_flat, "directed": gen_directed, "signal": gen_signal, "flips": gen_flips, "handoff": gen_handoff, "overflow": gen_overflow}


def gen_cases(ctx, n, prefix="t"):
    rng = ctx.rng
    mix = ["flat"] * 2 + ["directed"] * 2 + ["signal"] * 3 + ["flips"] * 3 + ["handoff"] * 3 + ["overflow"] * 2
    return [GEN[mix[i % len(mix)]](rng, "%s%d" % (prefix, i)) for i in range(n)]


# ------------------------------------------------------------------------------------------------
# running

def parse(text):
    """-> {id: {"end", "hist", "mon", "points", "stats", "sig", "eff", "log"}}"""
    res = {}
    for cid, lg in conc_check.parse_logs(text).items():
        r = {"end": lg["end"], "hist": [l[2:] for l in lg["lines"] if l.startswith("h ")], "log": [l for l in lg["lines"] if not l.startswith("h ")],
             "mon": {}, "points": {}, "stats": {}, "sig": {}, "eff": None, "complete": False}
        for x in lg["extra"]:
            t = x.split()
            if t[0] == "effsched":
                r["eff"] = [int(v) for v in t[1:]]; r["complete"] = True
            elif t[0] == "monitor" and len(t) >= 3:
                if t[1] == "first": r["mon"]["first"] = " ".join(t[2:])
                elif t[1] == "points": r["points"] = {t[i]: int(t[i + 1]) for i in range(2, len(t) - 1, 2)}
                elif t[1] == "disposed_by":
                    r["stats"] = {"by_client": int(t[3]), "by_destruct": int(t[5]), "waits": int(t[7]), "steps": int(t[9]), "segs_done": int(t[11]), "segs": int(t[12])}
                elif t[1] == "signals":
                    r["sig"] = {t[i]: int(t[i + 1]) for i in range(2, len(t) - 1, 2)}
                elif t[1] == "retired": r["mon"]["retired"] = int(t[2]); r["mon"]["disposed_at_destruct"] = int(t[4])
                else: r["mon"][t[1]] = int(t[2])
        res[cid] = r
    return res


def run_chunks(ctx, exe, cases, tag, wall, nproc=None, verbose=False, stuck_s=60):
    """Chunks of the case list in parallel processes.  A harness that reports `endcase stuck` (its own watchdog, exit 3) or
    dies is restarted on the cases after the one it stopped at, as long as the wall budget lasts.
    -> (results by id, inconclusive: {id: reason})"""
    nproc = max(1, min(nproc or vcheck.NCPU, vcheck.NCPU, (len(cases) + 7) // 8))
    deadline = time.time() + wall
    todo = [(k, cases[k::nproc], 0) for k in range(nproc)]
    results = {}; inconclusive = {}
    while todo and time.time() < deadline:
        procs = []
        for k, chunk, gen in todo:
            f = os.path.join(ctx.work, "%s_%d_%d.txt" % (tag, k, gen))
            conc_check.write_cases(f, chunk)
            o = open(f + ".out", "w")
            env = dict(os.environ); env["SHB_SCHED_STUCK_S"] = str(stuck_s)
            procs.append((k, chunk, gen, subprocess.Popen([exe, f] + (["-v"] if verbose else []), stdout=o, stderr=subprocess.STDOUT, env=env), o, f + ".out"))
        todo = []
        for k, chunk, gen, p, o, path in procs:
            try:
                rc = p.wait(timeout=max(1.0, deadline - time.time()))
            except subprocess.TimeoutExpired:
                p.kill(); p.wait(); rc = 124
            o.close()
            got = parse(open(path, errors="replace").read())
            last = -1; partial = False
            for i, c in enumerate(chunk):
                g = got.get(c["id"])
                if g is None:
                    break
                last = i
                if g["end"] == "stuck":
                    inconclusive[c["id"]] = "stuck: no scheduling decision for %d s (harness watchdog)" % stuck_s; partial = True
                elif g["complete"]:
                    results[c["id"]] = g
                else:
                    inconclusive[c["id"]] = "harness stopped inside the case (rc=%s)" % rc; partial = True
            if rc == 124:
                for c in chunk[last + 1:]:
                    inconclusive[c["id"]] = "not run: wall-clock budget of the shb part exhausted"
            elif rc == 4:
                # the last case exceeded the step limit and did not come to an end afterwards (reported as `endcase fuel`)
                if last + 1 < len(chunk):
                    todo.append((k, chunk[last + 1:], gen + 1))
            elif rc != 0:
                nxt = last + 1
                if not partial and nxt < len(chunk):
                    inconclusive[chunk[nxt]["id"]] = "harness died (rc=%s) while running the case" % rc
                    nxt += 1
                if nxt < len(chunk):
                    todo.append((k, chunk[nxt:], gen + 1))
        if sum(1 for g in results.values() if g["end"] == "fuel") >= 6 and todo:
            for k, chunk, gen in todo:      # waiting loops do not terminate any more: a few such cases are enough
                for c in chunk:
                    inconclusive[c["id"]] = "not run: 6 cases exceeded the step limit already"
            todo = []
    for k, chunk, gen in todo:
        for c in chunk:
            inconclusive.setdefault(c["id"], "not run: wall-clock budget of the shb part exhausted")
    return results, inconclusive


def norm_log(lines):
    """access lines without the values (thread ids and pointers differ from run to run)"""
    return [conc_check.norm_impl_line(l) for l in lines]


def flat_case(c, eff):
    return {"id": c["id"] + "f", "kind": c.get("kind", "?") + "-flat", "cfg": list(c["cfg"][:2]) + [0, 0], "threads": c["threads"], "sched": list(eff)}


def segments(c):
    cfg = c["cfg"]; n = cfg[3] if len(cfg) > 3 else 0
    return [tuple(cfg[4 + 4 * i: 8 + 4 * i]) for i in range(n) if 8 + 4 * i <= len(cfg)]


def describe(c, g):
    return {"harness": "shb_sched", "case": c, "flat_case": flat_case(c, g["eff"]) if g.get("eff") is not None else None,
            "buffer": VARIANT.get(c["cfg"][0]), "capacity": c["cfg"][1], "delivery_mode": "prompt" if c["cfg"][2] == 1 else "by the schedule",
            "segments": [{"thread": s[0], "until": PN.get(s[1], "steps"), "occurrence": s[2], "then_steps": s[3]} for s in segments(c)],
            "programs": [[OPN.get(op[0], "?") + ("" if len(op) == 1 else " " + " ".join(map(str, op[1:]))) for op in th] for th in c["threads"]],
            "history": g["hist"][-400:], "harness_monitor": g["mon"], "signals": g.get("sig"),
            "how_to_replay": "bin/check C04 --replay <this file>  (runs flat_case: the schedule that was effectively used, no director; the run is a deterministic function of programs and schedule)"}


def report(ctx, c, g, what_prefix, counts):
    n = 0
    if g["end"] == "fuel":
        n += 1; counts["no_progress"] = counts.get("no_progress", 0) + 1
        if g.get("eff") is not None and len(g["eff"]) > 3000:
            g = dict(g, eff=g["eff"][:3000])        # (then round-robin: fair)
        ctx.violation("%s: %s" % (what_prefix, TEXT["no_progress"]), dict(describe(c, g), monitor="no_progress"), signature="shb_sched:no_progress")
        return n
    if g["end"] != "finished":
        return 0
    for key in MONITORS:
        if g["mon"].get(key, 0) > 0:
            n += 1
            counts[key] = counts.get(key, 0) + 1
            ctx.violation("%s: %s" % (what_prefix, TEXT[key]), dict(describe(c, g), monitor=key), signature="shb_sched:" + key)
    return n


# ------------------------------------------------------------------------------------------------
# step-by-step comparison with the extracted LV.Model.RcuSignal (atomic-buffer variants)

def model_case(c, g):
    """-> (model case, impl log {"lines", "end"}, truncated?) or None.  The model's delivery pseudo thread (thread n) clears
    the flag of the FIRST flagged record of the list; the real handler clears the flag of the thread it runs on.  The
    harness describes every delivery in the history (`deliver <class> <position of the target's record in the list>
    <bit mask of the flagged positions>`; class 2: the thread has no record, the handler does nothing and logs nothing).
    A delivery to a record that is not the first flagged one is an access (a store to that record's flag) that commutes
    with everything up to the next access to the same flag; the only reader of the flags, the synchronizing thread, reads
    them in list order.  Such a store is therefore MOVED in the real log to the place right after the store that clears
    the last flagged record in front of it; if the flag is touched by a client before that, or its turn never comes (a
    record in front of it keeps a stale flag: its owner detached), the logs are compared up to the original place of the
    store only.  The model's schedule is read off the (reordered) real log: one entry per access line."""
    n = len(c["threads"])
    if c["cfg"][0] not in (0, 1) or g["end"] != "finished":
        return None
    dl = []
    for l in g["hist"]:
        t = l.split()
        if len(t) >= 3 and t[1] == "deliver" and t[2] != "2":
            dl.append((int(t[2]), int(t[3]), int(t[4])) if len(t) >= 5 else (int(t[2]), -1, 0))
    out = []            # reordered log
    held = {}           # position -> (kernel line, index in `out` where it was held back, object)
    cut = None          # compare only out[:cut]
    k = 0; moved = 0
    def first_flag(mask):
        return (mask & -mask).bit_length() - 1 if mask else -1
    for l in g["log"]:
        t = l.split(" ")
        if t[1] == "ev":
            out.append(l)
            continue
        if int(t[0]) == n:
            if k >= len(dl):
                cut = len(out); break
            cls, pos, mask = dl[k]; k += 1
            if pos < 0 or not (mask >> pos) & 1:
                cut = len(out); break           # the target's flag is not set (old history format / spurious delivery)
            fm = mask
            for hp in held: fm |= 1 << hp       # flags as the model sees them
            if first_flag(fm) == pos:
                out.append(l); fm &= ~(1 << pos)
                while held and first_flag(fm) in held:
                    hp = first_flag(fm)
                    out.append(held.pop(hp)[0]); fm &= ~(1 << hp); moved += 1
            else:
                held[pos] = (l, len(out), t[2])
            continue
        if held and len(t) >= 3:
            hit = [v for v in held.values() if v[2] == t[2]]
            if hit:
                cut = min(v[1] for v in held.values()); break      # a client touches a flag whose clearing store is held back
        out.append(l)
    if held:
        cut = min([v[1] for v in held.values()] + ([cut] if cut is not None else []))
    truncated = cut is not None
    lines = out[:cut] if truncated else out
    sched = [int(l.split(" ")[0]) for l in lines if l.split(" ")[1] != "ev"]
    nk = sum(1 for e in sched if e == n)
    # delivery fuel: more than the deliveries of the log: after a truncation or a divergence the model goes on alone
    # (round-robin) and needs its delivery thread to get out of the waiting loops; the idle delivery steps at the end of
    # the model's log are dropped before the comparison
    mc = {"id": c["id"], "cfg": [3000, c["cfg"][1], 1 if c["cfg"][0] == 1 else 0, 60, nk + 300], "threads": c["threads"], "sched": sched}
    return mc, {"lines": lines, "end": "fuel" if truncated else "finished", "moved": moved}, truncated


def run_model(ctx, model, mcases, tag, nproc=16, timeout=600):
    nproc = max(1, min(nproc, vcheck.NCPU, (len(mcases) + 19) // 20))
    procs = []
    for k in range(nproc):
        f = os.path.join(ctx.work, "%s_m%d.txt" % (tag, k))
        conc_check.write_cases(f, mcases[k::nproc])
        o = open(f + ".out", "w")
        procs.append((subprocess.Popen("%s 70000 < %s" % (model, f), shell=True, stdout=o, stderr=subprocess.STDOUT), o, f + ".out"))
    mlog = {}
    deadline = time.time() + timeout
    for p, o, path in procs:
        try:
            p.wait(timeout=max(1.0, deadline - time.time()))
        except subprocess.TimeoutExpired:
            p.kill(); p.wait()
        o.close()
        mlog.update(conc_check.parse_logs(open(path, errors="replace").read()))
    return mlog


def compare_with_model(ctx, model, cases, res, tag):
    """-> stats dict, first divergence (case, divergence) or None"""
    st = {"compared": 0, "compared_to_the_end": 0, "compared_prefix_only": 0, "steps_compared": 0, "diverged": 0, "model_missing": 0, "kernel_steps": 0}
    todo = []
    for c in cases:
        g = res.get(c["id"])
        if g is None:
            continue
        mc = model_case(c, g)
        if mc is not None:
            todo.append((c, g) + mc)
    if not todo:
        return st, None
    mlog = run_model(ctx, model, [x[2] for x in todo], tag)
    first = None
    for c, g, mc, il, trunc in todo:
        m = mlog.get(c["id"])
        if m is None or m["end"] is None:
            st["model_missing"] += 1
            continue
        if any(" ev outoffuel" in l for l in m["lines"][:len(il["lines"])]):
            st["model_out_of_fuel"] = st.get("model_out_of_fuel", 0) + 1       # (a waiting loop went round > 3000 times: not comparable)
            continue
        kt = "%d " % len(c["threads"])
        while len(m["lines"]) > len(il["lines"]) and m["lines"][-1].startswith(kt):
            m["lines"].pop()
        st["compared"] += 1
        st["compared_prefix_only" if trunc else "compared_to_the_end"] += 1
        st["steps_compared"] += len(il["lines"]); st["kernel_steps"] += sum(1 for e in mc["sched"] if e == len(c["threads"]))
        if il.get("moved"): st["logs_with_moved_deliveries"] = st.get("logs_with_moved_deliveries", 0) + 1
        d = conc_check.compare(m, il)
        if d is None and not trunc and m["end"] != "finished":
            d = {"index": len(il["lines"]), "model": "<the model ran out of fuel>", "impl": "<end>", "prefix": il["lines"][-12:]}
        if d is not None:
            st["diverged"] += 1
            if first is None:
                first = (c, g, mc, d)
    return st, first


# ------------------------------------------------------------------------------------------------

def run_shb_sched(ctx, ncases=None, wall=None):
    """-> coverage dict.  Violations are reported through ctx.violation (signature shb_sched:<monitor>)."""
    what = "cds::urcu::gc<signal_buffered> (real code, real signals, under the deterministic scheduler)"
    exe = build(ctx)
    model = conc_check.build_model(ctx, "Extract_RcuSignal.v", tag="model_shb")
    thorough = ctx.thorough()
    cov = {"harness": "harness/C04/shb_sched.cpp", "cases": 0, "finished": 0, "overruns": 0, "inconclusive": 0, "violations": {}}
    if ctx.replay:
        rep = json.load(open(ctx.replay))
        if rep.get("harness") != "shb_sched":
            return cov
        c = rep.get("flat_case") or rep["case"]
        cases = [dict(c, id="%s_r%d" % (c["id"], i)) for i in range(2)]
        res, inc = run_chunks(ctx, exe, cases, "shbreplay", 600, nproc=1, verbose=True)
        nv = 0
        for cc in cases[:1]:
            g = res.get(cc["id"])
            if g is not None:
                nv += report(ctx, cc, g, what, cov["violations"])
                ctx.log("shb_sched replay: end=%s monitors=%s signals=%s" % (g["end"], g["mon"], g["sig"]))
                for l in g["hist"][-200:]:
                    ctx.log("   " + l)
                st, first = compare_with_model(ctx, model, [cc], res, "shbreplay")
                if first is not None:
                    ctx.log("shb_sched replay: first divergence from LV.Model.RcuSignal: %s" % (first[3],))
                    if nv == 0:
                        nv += 1
                        ctx.violation("step correspondence between LV.Model.RcuSignal and cds/urcu/details/{sh,sig_buffered}.h + src/urcu_sh.cpp no longer holds",
                                      dict(describe(cc, g), first_divergence=first[3], model_case=first[2]), signature="shb_sched:correspondence", no_input=True)
        g0, g1 = res.get(cases[0]["id"]), res.get(cases[1]["id"])
        cov.update({"cases": len(cases), "finished": len(res), "inconclusive": len(inc), "replay_violations": nv,
                    "replay_deterministic": bool(g0 and g1 and g0["hist"] == g1["hist"] and norm_log(g0["log"]) == norm_log(g1["log"]))})
        return cov
    n = ncases or (16000 if thorough else 1000)
    wall = wall or (1200 if thorough else 300)      # generous: cases not run when it expires are inconclusive, not violations
    t0 = time.time()
    corpus = []
    cdir = os.path.join(vcheck.VERIF, "corpus", "C04shb")
    for f in sorted(os.listdir(cdir)) if os.path.isdir(cdir) else []:
        if f.endswith(".json"):
            c = json.load(open(os.path.join(cdir, f)))
            corpus.append(c.get("flat_case") or c.get("case") or c)
    cases = corpus + gen_cases(ctx, n, prefix="s")
    res, inc = run_chunks(ctx, exe, cases, "shb", wall, verbose=True)
    kinds = {}; points = {}; ops = {}; stats = {"waits": 0, "by_client": 0, "by_destruct": 0, "steps": 0, "segs": 0, "segs_done": 0}
    sig = {"raised": 0, "delivered": 0, "not_first": 0, "detached": 0, "still_pending": 0, "flips": 0, "prompt": 0}
    variants = {}; caps = {}; modes = {"by_schedule": 0, "prompt": 0}
    shapes = set(); nontrivial = set()
    parked_between = 0
    nviol = 0
    for c in cases:
        g = res.get(c["id"])
        if g is None:
            continue
        if g["end"] == "fuel":
            cov["overruns"] += 1
            nviol += report(ctx, c, g, what, cov["violations"])
            continue
        cov["finished"] += 1
        nviol += report(ctx, c, g, what, cov["violations"])
        k = c.get("kind", "corpus"); kinds[k] = kinds.get(k, 0) + 1
        for p, v in g["points"].items():
            points[p] = points.get(p, 0) + v
        for s in stats:
            stats[s] += g["stats"].get(s, 0)
        for s in sig:
            sig[s] += g["sig"].get(s, 0)
        variants[str(c["cfg"][0])] = variants.get(str(c["cfg"][0]), 0) + 1
        caps[str(c["cfg"][1])] = caps.get(str(c["cfg"][1]), 0) + 1
        modes["prompt" if c["cfg"][2] == 1 else "by_schedule"] += 1
        for th in c["threads"]:
            for op in th:
                ops[OPN.get(op[0], "?")] = ops.get(OPN.get(op[0], "?"), 0) + 1
        h = hash(tuple(g["hist"]))
        shapes.add(h)
        # non-trivial: a signal was delivered to a thread other than the sender while the sender was inside synchronize
        # and a waiting loop went round (the sender really waited for the handler or for a reader)
        other = False; open_sync = set()
        for l in g["hist"]:
            t = l.split()
            if t[1] == "sync_begin": open_sync.add(t[0])
            elif t[1] == "sync_end": open_sync.discard(t[0])
            elif t[1] == "deliver" and (open_sync - {t[0]}): other = True
        if other and g["stats"].get("waits", 0) > 0:
            nontrivial.add(h)
        # a client event of the target between a raise and its delivery is not visible in the history; count via the log:
        # some other thread took a step between a flag store and the kernel store on the same object
        pend = {}
        nth = len(c["threads"])
        for l in g["log"]:
            t = l.split(" ")
            if len(t) >= 6 and t[1] == "st" and t[4] == "i1" and int(t[0]) < nth:
                pend[t[2]] = 0
            elif len(t) >= 3 and t[1] == "st" and int(t[0]) == nth:
                if pend.pop(t[2], 0) > 0:
                    parked_between += 1
            elif t[1] not in ("ev", "begin"):
                for o in pend: pend[o] += 1
    # determinism: replay a sample with the effective flat schedule: history and access log must be equal
    det = {"replayed": 0, "same_history_and_log": 0}
    sample = [c for c in cases if c["id"] in res and res[c["id"]]["end"] == "finished"][: (150 if thorough else 48)]
    if sample and time.time() - t0 < wall:
        fl = [flat_case(c, res[c["id"]]["eff"]) for c in sample]
        r2, _ = run_chunks(ctx, exe, fl, "shbdet", max(30, wall - (time.time() - t0)), verbose=True)
        for c, f in zip(sample, fl):
            g2 = r2.get(f["id"])
            if g2 is not None:
                det["replayed"] += 1
                if g2["hist"] == res[c["id"]]["hist"] and norm_log(g2["log"]) == norm_log(res[c["id"]]["log"]):
                    det["same_history_and_log"] += 1
    # step correspondence with LV.Model.RcuSignal
    mst, first = compare_with_model(ctx, model, cases, res, "shb")
    if first is not None and nviol == 0:
        c, g, mc, d = first
        nviol += 1
        ctx.violation("step correspondence between LV.Model.RcuSignal and cds/urcu/details/{sh,sig_buffered}.h + src/urcu_sh.cpp no longer holds (no property monitor fired on %d cases)" % len(cases),
                      dict(describe(c, g), correspondence="Model/RcuSignal.v vs cds::urcu::gc<signal_buffered<ABuf<VyukovMPMCCycleQueue>,spin_lock,empty back-off>> with real signals delivered at scheduling points",
                           first_divergence=d, model_case=mc), signature="shb_sched:correspondence", no_input=True)
    cov.update({
        "cases": len(cases), "corpus_cases": len(corpus), "inconclusive": len(inc), "inconclusive_samples": dict(list(inc.items())[:5]),
        "distinct_histories": len(shapes), "distinct_nontrivial": len(nontrivial),
        "rule": "program x schedule pairs on the real signal_buffered (2-4 clients, real SIGUSR1); distinct = distinct monitor histories; non-trivial = the handler ran on a thread other than the synchronizing one while that one was inside synchronize() and a waiting loop went round at least once",
        "kind_histogram": kinds, "point_hits": points, "op_histogram": ops, "totals": stats, "signals": sig,
        "deliveries_with_other_steps_between_raise_and_delivery": parked_between,
        "buffer_variant_histogram": {VARIANT[int(k)]: v for k, v in variants.items()}, "capacity_histogram": caps, "delivery_mode_histogram": modes,
        "determinism": det, "model_correspondence": mst,
        "samples": [{k: c[k] for k in ("id", "kind", "cfg", "threads", "sched")} for c in cases[len(corpus):len(corpus) + 2]],
        "wall_s": round(time.time() - t0, 1),
        "restrictions": ["Lock = spin_lock<backoff::empty>, Backoff = empty (template arguments)",
                         "signal delivery only at scheduling points (right before an atomic access of the target thread), one scheduler step; never inside a passthrough section of the harness",
                         "buffer variants 0/1: a buffer operation is one atomic step (these are compared with the Coq model); variants 2/3: queue internals scheduled, monitors only",
                         "comparison with LV.Model.RcuSignal: a delivery whose target is not the first flagged record of the thread list (the model's delivery thread always clears the first one) is moved behind the deliveries to the flagged records in front of it (independent stores commute); where that is impossible the logs are compared up to that delivery"],
    })
    return cov


TRUSTED = ["hooks/include/khizmax_libcds_verif/sigsched.h (signal blocked in the workers, delivery = unblock/block at a scheduling point; POSIX: a pending unblocked signal is delivered before pthread_sigmask returns; pthread_kill makes the signal pending before it returns)",
           "harness/C04/shb_sched.cpp (client programs, monitors, director, template arguments PLock / PBackoff / ABuf / DBuf)"]
ASSUMPTIONS = ["signal_buffered under the scheduler: real signals, delivered only at scheduling points of the target thread as one atomic step (LV.Model.RcuSignal's modelling assumption); sequential consistency (what the handler is for - replacing the reader-side fences - is invisible)"]
