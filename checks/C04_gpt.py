"""general_threaded (gpt) under the deterministic scheduler: the REAL cds::urcu::gc<general_threaded<Buffer, Lock,
DisposerThread, Backoff>> with the monitors of C04 / C05 (harness/C04/gpt_sched.cpp; monitors only, no step
correspondence).  Used by checks/C04.py and checks/C05.py through run_gpt_sched(ctx).

What the harness does to make gpt schedulable is written at the top of harness/C04/gpt_sched.cpp.  Generators (all
from ctx.rng):
  flat     random reader / writer / mixed programs (3-4 clients) with uniform, bursty and run-then-switch schedules
  directed the same programs with random director segments "run thread t until it passes point p (k-th time), then n
           more atomic accesses" over the points lock_enter (after the epoch fetch_add), locked, flip_begin (1st / 2nd
           flip), waiting, unlock (grace period over), dispose_call (hand-off to the reclamation thread), dispose_ret,
           push / push_ok / push_full (retire_ptr after the epoch load), op_begin, in_section, retired, sync_ret
  handoff  aimed: a synchronizer is parked somewhere between its epoch fetch_add and its hand-off, a reader enters a
           section, a writer unpublishes + retires (+ synchronizes / overflows the buffer), then the first goes on
  flips    aimed: a reader is parked inside access_lock (between the load of the global control word and its own
           store) while a writer runs a whole synchronize, enters, reads; the writer unpublishes, retires, synchronizes
  overflow aimed: capacity 1-4, writers retire more objects than fit while readers sit in sections; parked at push /
           push_full / inside the synchronize of the overflow path
  ringfull aimed at the cell hand-back of the reclamation thread (dispose_thread::dispose_buffer: free / pop_front of a
           ring-buffer cell): free-running hand-off, capacities 1-4, 3-4 clients that together retire more objects than the
           ring holds (the overflow path of push_buffer calls synchronize() while the others keep retiring), and the STALL
           mode of the harness' buffer wrapper: after (or before) each real pop_front() the reclamation thread waits until
           the scheduler has taken N further decisions (bounded by 3 ms of real time), so that a client push can land in
           the cell that was just handed back
A watchdog expiry (harness `endcase stuck`, process killed by the driver's generous time limit) is counted as
INCONCLUSIVE in the evidence and is never a violation; only the property monitors produce violations."""
import os, json, subprocess, time
import vcheck, conc_check

HARNESS = os.path.join(vcheck.VERIF, "harness/C04/gpt_sched.cpp")

P = {"lock_enter": 1, "locked": 2, "flip_begin": 3, "waiting": 4, "unlock": 5, "dispose_call": 6, "dispose_ret": 7, "push": 8,
     "push_ok": 9, "push_full": 10, "op_begin": 11, "in_section": 12, "retired": 13, "sync_ret": 14, "left_section": 15}
PN = {v: k for k, v in P.items()}
OPN = {1: "attach", 2: "detach", 3: "rlock", 4: "runlock", 5: "sync", 6: "retire", 7: "publish", 8: "unpublish", 9: "touch", 10: "batch_retire", 11: "force_dispose"}
VARIANT = {0: "ABuf<VyukovMPSCCycleQueue> (push atomic)", 1: "ABuf<VyukovMPSCCycleQueue + item_counter> (push atomic)", 2: "DBuf<VyukovMPSCCycleQueue> (queue internals scheduled)"}

MONITORS = ("dispose_inside_old_reader", "sync_end_inside_old_reader", "touch_disposed", "dispose_unretired", "disposed_twice", "not_disposed_exactly_once")
TEXT = {
    "dispose_inside_old_reader": "an object was disposed while a reader that entered its read-side critical section before the retirement was still inside it",
    "sync_end_inside_old_reader": "synchronize() returned while a reader that entered its critical section before the call was still inside it",
    "touch_disposed": "a reader inside a read-side critical section used an object that had already been disposed",
    "dispose_unretired": "the disposer was called for an object that was never retired",
    "disposed_twice": "a retired object was disposed more than once",
    "not_disposed_exactly_once": "a retired object was not disposed exactly once by the time the RCU singleton was destroyed",
}


# ------------------------------------------------------------------------------------------------
# programs

def gen_thread(rng, role, objs, nmax=9):
    """Discipline (needed by the touch monitor only): an object is retired by the thread that published it, after that
    thread stored something else into src; fresh objects may be retired without ever being published."""
    ops = [[1]] if rng.chance(19, 20) else []
    mine = []; pub = None
    if role == "reader":
        w = [("rlock", 5), ("runlock", 4), ("touch", 5), ("sync", 1), ("detach", 1), ("attach", 1)]
    elif role == "writer":
        w = [("publish", 3), ("unpublish", 2), ("retire", 5), ("sync", 2), ("force", 1), ("batch", 1), ("rlock", 1), ("runlock", 1), ("detach", 1), ("attach", 1)]
    elif role == "retirer":
        w = [("retire", 8), ("batch", 2), ("sync", 1), ("publish", 1), ("unpublish", 1)]
    else:
        w = [("rlock", 3), ("runlock", 3), ("touch", 2), ("publish", 2), ("unpublish", 1), ("retire", 3), ("sync", 1), ("force", 1), ("batch", 1), ("detach", 1), ("attach", 1)]
    tot = sum(x[1] for x in w)
    for _ in range(2 + rng.below(nmax - 1)):
        r = rng.below(tot)
        for name, wt in w:
            if r < wt:
                break
            r -= wt
        if name == "rlock": ops.append([3])
        elif name == "runlock": ops.append([4])
        elif name == "touch": ops.append([9])
        elif name == "sync": ops.append([5])
        elif name == "force": ops.append([11])
        elif name == "attach": ops.append([1])
        elif name == "detach": ops.append([2])
        elif name == "publish":
            p = objs[0]; objs[0] += 1
            if pub is not None: mine.append(pub)
            pub = p; ops.append([7, p])
        elif name == "unpublish":
            if pub is not None: mine.append(pub); pub = None
            ops.append([8])
        elif name == "retire":
            if mine and rng.chance(3, 4): p = mine.pop(0)
            else: p = objs[0]; objs[0] += 1
            ops.append([6, p])
        elif name == "batch":
            ps = []
            for _ in range(1 + rng.below(3)):
                if mine and rng.chance(1, 2): ps.append(mine.pop(0))
                else: ps.append(objs[0]); objs[0] += 1
            ops.append([10] + ps)
    return ops


def gen_programs(rng, writer_heavy=False):
    n = 3 + rng.below(2)
    objs = [1]; threads = []; roles = []
    for t in range(n):
        if writer_heavy:
            role = "reader" if t == 0 else rng.choice(["retirer", "retirer", "writer"])
        else:
            role = ["reader", "writer"][t] if t < 2 else rng.choice(["reader", "writer", "mixed"])
            if rng.chance(1, 5): role = "mixed"
        roles.append(role); threads.append(gen_thread(rng, role, objs))
    return threads, roles


def gen_flat_sched(rng, n, kind):
    if kind == 0:
        return [rng.below(n) for _ in range(30 + rng.below(200))]
    if kind == 1:      # bursty
        s = []
        for _ in range(3 + rng.below(10)):
            s += [rng.below(n)] * (1 + rng.below(30))
        return s
    a = rng.below(n); b = rng.below(n)      # run one thread to a step, another one for long, then mix
    return [a] * (3 + rng.below(40)) + [b] * (10 + rng.below(60)) + [rng.below(n) for _ in range(40)]


def tail(rng, n):
    return [rng.below(n) for _ in range(20 + rng.below(40))]


def base_cfg(rng, caps=(1, 2, 3, 4, 4, 8), variants=(0, 0, 1, 1, 2), free_pct=25):
    return [rng.choice(list(variants)), rng.choice(list(caps)), 1 if rng.below(100) < free_pct else 0]


def mk(cid, kind, cfg3, segs, threads, sched):
    cfg = list(cfg3) + [len(segs)]
    for s in segs:
        cfg += list(s)
    return {"id": cid, "kind": kind, "cfg": cfg, "threads": threads, "sched": sched}


SYNC_POINTS = [(P["lock_enter"], 1), (P["locked"], 1), (P["flip_begin"], 1), (P["flip_begin"], 2), (P["unlock"], 1), (P["dispose_call"], 1), (P["dispose_call"], 1), (P["unlock"], 1)]


def gen_flat(rng, cid):
    threads, _ = gen_programs(rng, writer_heavy=rng.chance(1, 4))
    return mk(cid, "flat", base_cfg(rng), [], threads, gen_flat_sched(rng, len(threads), rng.below(3)))


def gen_directed(rng, cid):
    threads, _ = gen_programs(rng, writer_heavy=rng.chance(1, 3))
    n = len(threads)
    segs = []
    for _ in range(3 + rng.below(6)):
        t = rng.below(n)
        if rng.chance(1, 6):
            segs.append((t, 0, 0, 1 + rng.below(12)))
        else:
            p = rng.choice(list(P.values()))
            k = 1 + (rng.below(3) if p in (P["op_begin"], P["flip_begin"], P["push"], P["push_ok"]) else (rng.below(2) if rng.chance(1, 4) else 0))
            segs.append((t, p, k, rng.below(4)))
    return mk(cid, "directed", base_cfg(rng), segs, threads, tail(rng, n))


def gen_handoff(rng, cid):
    """S1 | R | W (| S2).  S1 is parked between its epoch fetch_add and the hand-off; R enters; W unpublishes, retires and
    synchronizes (or S2 does); S1 goes on."""
    x = 1
    s1 = [[1]] + ([[6, 90]] if rng.chance(1, 3) else []) + [rng.choice([[5], [5], [11]])] + ([[5]] if rng.chance(1, 4) else [])
    r = [[1], [3]] + [[9]] * (1 + rng.below(3)) + ([[3], [9], [4]] if rng.chance(1, 3) else []) + [[4]] + ([[3], [9], [4]] if rng.chance(1, 3) else [])
    w = [[1], [7, x], [8], [6, x]] + ([[6, 91]] if rng.chance(1, 3) else []) + [rng.choice([[5], [5], [11], [6, 92]])]
    threads = [s1, r, w]
    four = rng.chance(1, 2)
    if four:
        threads.append([[1], rng.choice([[5], [11]])])
    n = len(threads)
    segs = []
    done = [0] * n              # op_begin points already passed by each thread (occurrences are counted per segment)
    order = list(range(n))
    if rng.chance(2, 3):        # attach everybody first, in a random order
        for i in range(n - 1, 0, -1):
            j = rng.below(i + 1); order[i], order[j] = order[j], order[i]
        for t in order:
            segs.append((t, P["op_begin"], 2, 0)); done[t] = 2
    if rng.chance(3, 4):
        segs.append((2, P["op_begin"], 3 - done[2], 0))            # W has published x (it is about to unpublish)
    pt, k = rng.choice(SYNC_POINTS)
    segs.append((0, pt, k, rng.below(3) if rng.chance(1, 3) else 0))            # S1 parked inside synchronize
    segs.append((1, P["in_section"], 1, rng.below(5)))                         # R enters (and reads)
    y = rng.choice([(P["retired"], 1), (P["lock_enter"], 1), (P["lock_enter"], 1), (P["waiting"], 1), (P["push"], 1), (P["locked"], 1), (P["sync_ret"], 1)])
    segs.append((2, y[0], y[1], rng.below(3)))                                 # W unpublishes, retires, starts to synchronize
    if four and rng.chance(2, 3):
        z = rng.choice([(P["lock_enter"], 1), (P["waiting"], 1), (P["locked"], 1)])
        segs.append((3, z[0], z[1], rng.below(3)))
    segs.append((0, rng.choice([P["dispose_ret"], P["sync_ret"]]), 1, rng.below(3)))   # S1 hands off
    if rng.chance(1, 2):
        segs.append((1, 0, 0, 1 + rng.below(6)))                               # R reads again
    cfg = base_cfg(rng, caps=(2, 4, 4, 8), free_pct=15)
    return mk(cid, "handoff", cfg, segs, threads, tail(rng, n))


def gen_flips(rng, cid):
    """R is parked inside access_lock while W runs a whole synchronize; R enters and reads x; W unpublishes, retires x and
    synchronizes again."""
    x = 1
    r = [[1]] + ([[3], [4]] if rng.chance(1, 4) else []) + [[3]] + [[9]] * (1 + rng.below(3)) + [[4]]
    rl_idx = max(i for i, o in enumerate(r) if o == [3]) + 1        # 1-based index of the rlock R is parked in
    w = [[1], [7, x], rng.choice([[5], [11], [5]]), [8], [6, x], rng.choice([[5], [11], [5]])]
    threads = [r, w]
    if rng.chance(1, 2):
        threads.append(gen_thread(rng, rng.choice(["reader", "mixed", "writer"]), [50], nmax=6))
    n = len(threads)
    segs = []
    done = 0
    if rng.chance(1, 2):
        segs.append((0, P["op_begin"], 2, 0)); done = 2
    segs.append((1, P["op_begin"], 3, 0))                           # W attached, x published; next op: synchronize
    nacc = rng.below(4)                                             # R inside access_lock: 0..3 of its accesses done
    if rl_idx - done > 0:
        segs.append((0, P["op_begin"], rl_idx - done, nacc))
    else:
        segs.append((0, 0, 0, nacc))
    segs.append((1, rng.choice([P["sync_ret"], P["sync_ret"], P["unlock"], P["flip_begin"]]), 1, rng.below(2)))
    segs.append((0, P["in_section"], 1, rng.below(5)))              # R completes access_lock, reads x
    segs.append((1, rng.choice([P["sync_ret"], P["dispose_ret"], P["waiting"], P["unlock"]]), 1, rng.below(2)))
    if rng.chance(1, 2):
        segs.append((0, 0, 0, 1 + rng.below(4)))
    cfg = base_cfg(rng, caps=(2, 4, 8), free_pct=15)
    return mk(cid, "flips", cfg, segs, threads, tail(rng, n))


def gen_overflow(rng, cid):
    threads, roles = gen_programs(rng, writer_heavy=True)
    n = len(threads)
    # the reader sits in a section and reads what a writer published
    threads[0] = [[1], [3]] + [[9]] * (1 + rng.below(3)) + [[4]] + ([[3], [9], [4]] if rng.chance(1, 2) else [])
    segs = []
    if rng.chance(1, 2):
        segs.append((1, P["op_begin"], 2 + rng.below(3), 0))
    segs.append((0, P["in_section"], 1, rng.below(4)))
    for _ in range(2 + rng.below(4)):
        t = 1 + rng.below(n - 1)
        p = rng.choice([P["push"], P["push_full"], P["push_full"], P["push_ok"], P["lock_enter"], P["unlock"], P["dispose_call"], P["retired"], P["flip_begin"], P["waiting"]])
        segs.append((t, p, 1 + (rng.below(3) if p in (P["push"], P["push_ok"], P["retired"]) else 0), rng.below(3)))
    if rng.chance(1, 2):
        segs.append((0, 0, 0, 1 + rng.below(6)))
    cfg = base_cfg(rng, caps=(1, 1, 2, 2, 3, 4), free_pct=25)
    return mk(cid, "overflow", cfg, segs, threads, tail(rng, n))


def gen_ringfull(rng, cid):
    """The ring is physically full when the reclamation thread pops: the popped cell is the one the next push goes to."""
    n = 3 + rng.below(2)
    cap = rng.choice([1, 2, 2, 3, 4, 4, 4])
    ring = 2 if cap <= 2 else 4                     # cells of the Vyukov queue (power of two, at least 2)
    objs = 1; threads = []
    for t in range(n):
        ops = [[1]]
        if t == 0 and rng.chance(1, 3):             # a reader that sits in a section now and then
            ops += [[3], [9], [4]] * (1 + rng.below(2))
        k = 2 + rng.below(ring + 2)
        for _ in range(k):
            if rng.chance(1, 6):
                m = 2 + rng.below(2); ops.append([10] + list(range(objs, objs + m))); objs += m
            else:
                ops.append([6, objs]); objs += 1
            if rng.chance(1, 8): ops.append([5])
            if rng.chance(1, 12): ops.append([11])
        threads.append(ops)
    stall = 1 if rng.chance(3, 4) else 2
    nst = rng.choice([4, 8, 12, 20, 30, 50])
    cfg = [rng.choice([0, 0, 2, 2, 1]), cap, 1 | stall << 1 | nst << 3]
    segs = []
    if rng.chance(1, 2):
        # one thread runs up to (and into) the overflow, then the others get the processor
        a = rng.below(n)
        segs.append((a, rng.choice([P["push_full"], P["dispose_ret"], P["dispose_call"], P["sync_ret"]]), 1, rng.below(3)))
        sched = [(a + 1 + rng.below(n - 1)) % n for _ in range(40 + rng.below(80))] + tail(rng, n)
    else:
        sched = gen_flat_sched(rng, n, rng.below(2)) + tail(rng, n)
    return mk(cid, "ringfull", cfg, segs, threads, sched)


GEN = {"ringfull": gen_ringfull, "flat": gen_flat, "directed": gen_directed, "handoff": gen_handoff, "flips": gen_flips, "overflow": gen_overflow}


def gen_cases(ctx, n, prefix="t"):
    rng = ctx.rng
    mix = ["flat"] * 2 + ["directed"] * 3 + ["handoff"] * 3 + ["flips"] * 2 + ["overflow"] * 2 + ["ringfull"] * 2
    return [GEN[mix[i % len(mix)]](rng, "%s%d" % (prefix, i)) for i in range(n)]


# ------------------------------------------------------------------------------------------------
# running

def parse(text):
    """-> {id: {"end", "hist", "mon", "points", "stats", "eff", "log"}}"""
    res = {}
    for cid, lg in conc_check.parse_logs(text).items():
        r = {"end": lg["end"], "hist": [l[2:] for l in lg["lines"] if l.startswith("h ")], "log": [l for l in lg["lines"] if not l.startswith("h ")],
             "mon": {}, "points": {}, "stats": {}, "eff": None, "complete": False}
        for x in lg["extra"]:
            t = x.split()
            if t[0] == "effsched":
                r["eff"] = [int(v) for v in t[1:]]; r["complete"] = True
            elif t[0] == "monitor" and len(t) >= 3:
                if t[1] == "first": r["mon"]["first"] = " ".join(t[2:])
                elif t[1] == "points": r["points"] = {t[i]: int(t[i + 1]) for i in range(2, len(t) - 1, 2)}
                elif t[1] == "disposed_by":
                    r["stats"].update({"by_thread": int(t[3]), "by_client": int(t[5]), "by_destruct": int(t[7]), "handoffs": int(t[9]), "waits": int(t[11]), "steps": int(t[13]), "segs_done": int(t[15]), "segs": int(t[16])})
                elif t[1] == "stalls": r["stats"].update({"stalls": int(t[2]), "stalls_full": int(t[4]), "stall_timeouts": int(t[6])})
                elif t[1] == "retired": r["mon"]["retired"] = int(t[2]); r["mon"]["disposed_at_destruct"] = int(t[4])
                else: r["mon"][t[1]] = int(t[2])
        res[cid] = r
    return res


def run_chunks(ctx, exe, cases, tag, wall, nproc=None, verbose=False, stuck_s=60):
    """Chunks of the case list in parallel processes.  A harness that reports `endcase stuck` (its own watchdog, exit 3) or
    dies is restarted on the cases after the one it stopped at, as long as the wall budget lasts.
    -> (results by id, inconclusive: {id: reason})"""
    nproc = max(1, min(nproc or vcheck.NCPU, vcheck.NCPU, (len(cases) + 7) // 8))
    deadline = time.time() + wall
    todo = [(k, cases[k::nproc], 0) for k in range(nproc)]
    results = {}; inconclusive = {}
    rnd = 0
    while todo and time.time() < deadline:
        procs = []
        for k, chunk, gen in todo:
            f = os.path.join(ctx.work, "%s_%d_%d.txt" % (tag, k, gen))
            conc_check.write_cases(f, chunk)
            o = open(f + ".out", "w")
            env = dict(os.environ); env["GPT_SCHED_STUCK_S"] = str(stuck_s)
            procs.append((k, chunk, gen, subprocess.Popen([exe, f] + (["-v"] if verbose else []), stdout=o, stderr=subprocess.STDOUT, env=env), o, f + ".out"))
        todo = []
        for k, chunk, gen, p, o, path in procs:
            try:
                rc = p.wait(timeout=max(1.0, deadline - time.time()))
            except subprocess.TimeoutExpired:
                p.kill(); p.wait(); rc = 124
            o.close()
            got = parse(open(path, errors="replace").read())
            last = -1; partial = False
            for i, c in enumerate(chunk):
                g = got.get(c["id"])
                if g is None:
                    break
                last = i
                if g["end"] == "stuck":
                    inconclusive[c["id"]] = "stuck: no scheduling decision for %d s (harness watchdog)" % stuck_s; partial = True
                elif g["complete"]:
                    results[c["id"]] = g
                else:
                    inconclusive[c["id"]] = "harness stopped inside the case (rc=%s)" % rc; partial = True
            if rc == 124:
                for c in chunk[last + 1:]:
                    inconclusive[c["id"]] = "not run: wall-clock budget of the gpt part exhausted"
            elif rc != 0:
                # died (rc != 0) before / in the case after `last`: that case is inconclusive, go on with the rest
                nxt = last + 1
                if not partial and nxt < len(chunk):
                    inconclusive[chunk[nxt]["id"]] = "harness died (rc=%s) while running the case" % rc
                    nxt += 1
                if nxt < len(chunk):
                    todo.append((k, chunk[nxt:], gen + 1))
        rnd += 1
    for k, chunk, gen in todo:
        for c in chunk:
            inconclusive.setdefault(c["id"], "not run: wall-clock budget of the gpt part exhausted")
    return results, inconclusive


def flat_case(c, eff):
    return {"id": c["id"] + "f", "kind": c.get("kind", "?") + "-flat", "cfg": list(c["cfg"][:3]) + [0], "threads": c["threads"], "sched": list(eff)}


def report(ctx, c, g, what_prefix, counts):
    n = 0
    if g["end"] != "finished":
        return 0
    for key in MONITORS:
        if g["mon"].get(key, 0) > 0:
            n += 1
            counts[key] = counts.get(key, 0) + 1
            mode = "hand-off forced synchronous" if c["cfg"][2] & 1 == 0 else "reclamation thread free-running"
            st = (c["cfg"][2] >> 1) & 3
            if st:
                mode += "; reclamation thread stalls %s each pop_front() for %d scheduler decisions (at most 3 ms)" % ("after" if st == 1 else "before", c["cfg"][2] >> 3)
            ctx.violation("%s: %s" % (what_prefix, TEXT[key]),
                          {"harness": "gpt_sched", "monitor": key, "case": c, "flat_case": flat_case(c, g["eff"]) if g["eff"] is not None else None,
                           "buffer": VARIANT.get(c["cfg"][0]), "capacity": c["cfg"][1], "handoff_mode": mode,
                           "segments": [{"thread": s[0], "until": PN.get(s[1], "steps"), "occurrence": s[2], "then_steps": s[3]} for s in segments(c)],
                           "programs": [[OPN.get(op[0], "?") + ("" if len(op) == 1 else " " + " ".join(map(str, op[1:]))) for op in th] for th in c["threads"]],
                           "history": g["hist"], "harness_monitor": g["mon"],
                           "how_to_replay": "bin/check C04 --replay <this file>  (runs flat_case: the schedule that was effectively used, no director; deterministic when handoff_mode is forced synchronous)"},
                          signature="gpt_sched:" + key)
    return n


def segments(c):
    cfg = c["cfg"]; n = cfg[3] if len(cfg) > 3 else 0
    return [tuple(cfg[4 + 4 * i: 8 + 4 * i]) for i in range(n) if 8 + 4 * i <= len(cfg)]


def run_gpt_sched(ctx, ncases=None, wall=None):
    """-> coverage dict.  Violations are reported through ctx.violation (signature gpt_sched:<monitor>)."""
    what = "cds::urcu::gc<general_threaded> (real code under the deterministic scheduler, monitors only)"
    exe = vcheck.cxx_build(HARNESS, os.path.join(ctx.work, "gpt_sched"), hook=True)
    thorough = ctx.thorough()
    cov = {"harness": "harness/C04/gpt_sched.cpp", "cases": 0, "finished": 0, "overruns": 0, "inconclusive": 0, "violations": {}}
    if ctx.replay:
        rep = json.load(open(ctx.replay))
        if rep.get("harness") != "gpt_sched":
            return cov
        c = rep.get("flat_case") or rep["case"]
        reps = 1 if c["cfg"][2] & 1 == 0 else 30
        cases = [dict(c, id="%s_r%d" % (c["id"], i)) for i in range(reps)]
        res, inc = run_chunks(ctx, exe, cases, "gptreplay", 600, nproc=1, verbose=True)
        nv = 0
        for cc in cases:
            g = res.get(cc["id"])
            if g is not None:
                nv += report(ctx, cc, g, what, cov["violations"])
                if cc is cases[0]:
                    ctx.log("gpt_sched replay: end=%s monitors=%s" % (g["end"], g["mon"]))
                    for l in g["hist"]:
                        ctx.log("   " + l)
        cov.update({"cases": len(cases), "finished": len(res), "inconclusive": len(inc), "replay_violations": nv})
        return cov
    n = ncases or (20000 if thorough else 1400)     # ~5 ms per case and core
    wall = wall or (1200 if thorough else 300)      # generous: cases not run when it expires are inconclusive, not violations
    t0 = time.time()
    corpus = []
    cdir = os.path.join(vcheck.VERIF, "corpus", "C04gpt")      # (not corpus/C04: those files are general_instant cases)
    for f in sorted(os.listdir(cdir)) if os.path.isdir(cdir) else []:
        if f.endswith(".json"):
            c = json.load(open(os.path.join(cdir, f)))
            corpus.append(c.get("flat_case") or c.get("case") or c)
    cases = corpus + gen_cases(ctx, n, prefix="t")
    res, inc = run_chunks(ctx, exe, cases, "gpt", wall)
    kinds = {}; points = {}; ops = {}; stats = {"handoffs": 0, "waits": 0, "by_thread": 0, "by_client": 0, "by_destruct": 0, "steps": 0, "segs": 0, "segs_done": 0, "stalls": 0, "stalls_full": 0, "stall_timeouts": 0}
    variants = {}; caps = {}; modes = {"forced_sync": 0, "free_running": 0}
    shapes = set(); nontrivial = set(); two_sync = 0
    nviol = 0
    for c in cases:
        g = res.get(c["id"])
        if g is None:
            continue
        if g["end"] == "fuel":
            cov["overruns"] += 1
            continue
        cov["finished"] += 1
        nviol += report(ctx, c, g, what, cov["violations"])
        k = c.get("kind", "corpus"); kinds[k] = kinds.get(k, 0) + 1
        for p, v in g["points"].items():
            points[p] = points.get(p, 0) + v
        for s in stats:
            stats[s] += g["stats"].get(s, 0)
        variants[str(c["cfg"][0])] = variants.get(str(c["cfg"][0]), 0) + 1
        caps[str(c["cfg"][1])] = caps.get(str(c["cfg"][1]), 0) + 1
        modes["forced_sync" if c["cfg"][2] & 1 == 0 else "free_running"] += 1
        if (c["cfg"][2] >> 1) & 3:
            modes["free_running_with_pop_stall"] = modes.get("free_running_with_pop_stall", 0) + 1
        for th in c["threads"]:
            for op in th:
                ops[OPN.get(op[0], "?")] = ops.get(OPN.get(op[0], "?"), 0) + 1
        h = hash(tuple(g["hist"]))
        shapes.add(h)
        # non-trivial: a writer really waited for a reader, or two synchronize calls overlapped
        #   (a sync_begin / force_begin between another thread's sync_begin and its hand-off)
        open_sync = set(); overlap = False
        for l in g["hist"]:
            t = l.split()
            if t[1] in ("sync_begin", "force_begin"):
                if open_sync - {t[0]}: overlap = True
                open_sync.add(t[0])
            elif t[1] == "handoff":
                open_sync.discard(t[0])
        if overlap: two_sync += 1
        if g["stats"].get("waits", 0) > 0 or overlap:
            nontrivial.add(h)
    # determinism of the forced-synchronous mode: replay a sample with the effective flat schedule, histories must be equal
    det = {"replayed": 0, "same_history": 0}
    sample = [c for c in cases if c["cfg"][2] & 1 == 0 and c["id"] in res and res[c["id"]]["end"] == "finished"][: (120 if thorough else 40)]
    if sample and time.time() - t0 < wall:
        fl = [flat_case(c, res[c["id"]]["eff"]) for c in sample]
        r2, _ = run_chunks(ctx, exe, fl, "gptdet", max(30, wall - (time.time() - t0)))
        for c, f in zip(sample, fl):
            g2 = r2.get(f["id"])
            if g2 is not None:
                det["replayed"] += 1
                if g2["hist"] == res[c["id"]]["hist"]:
                    det["same_history"] += 1
    cov.update({
        "cases": len(cases), "corpus_cases": len(corpus), "inconclusive": len(inc), "inconclusive_samples": dict(list(inc.items())[:5]),
        "distinct_histories": len(shapes), "distinct_nontrivial": len(nontrivial), "cases_with_overlapping_synchronize": two_sync,
        "rule": "program x schedule pairs on the real general_threaded (3-4 clients + the real reclamation thread); distinct = distinct monitor histories; non-trivial = a flip_and_wait loop went round at least once (a writer really waited for a reader) or two synchronize calls overlapped",
        "kind_histogram": kinds, "point_hits": points, "op_histogram": ops, "totals": stats, "buffer_variant_histogram": {VARIANT[int(k)]: v for k, v in variants.items()},
        "capacity_histogram": caps, "handoff_mode_histogram": modes, "determinism_forced_sync": det,
        "samples": [{k: c[k] for k in ("id", "kind", "cfg", "threads", "sched")} for c in cases[len(corpus):len(corpus) + 2]],
        "wall_s": round(time.time() - t0, 1),
        "restrictions": ["Lock = spin_lock<backoff::empty>, Backoff = empty (template arguments)",
                         "the body of dispose_thread::dispose() is one scheduler step (it holds a std::mutex across an atomic store)",
                         "buffer variants 0/1: a push is one atomic step; variant 2: a hand-off starts only when no push is in flight",
                         "forced-synchronous hand-off in ~70% of the cases (reclamation runs while the caller holds the baton); the rest free-running",
                         "kind ringfull: free-running hand-off with the pop_front() stall of the buffer wrapper (the reclamation thread waits after / before each real pop_front() for N scheduler decisions, at most 3 ms): these runs depend on real time, a replay repeats the case 30 times"],
    })
    return cov


TRUSTED = ["harness/C04/gpt_sched.cpp (client programs, thread-safe monitors, director, template arguments PLock / PBackoff / PDisposer / ABuf / DBuf)"]
ASSUMPTIONS = ["general_threaded under the scheduler: monitors only (no step correspondence); the reclamation thread is not scheduled (it runs freely, in most cases only while the client that handed off waits for it)"]
