"""C17 — resize and rehash never lose or duplicate elements, for any hash functions (DESIGN 7, C17).

Sequential, input-quantified.  Coq: Properties_C17.v (cuckoo conservation theorems + the refutation of the first
sentence for CuckooSet, striped / split-list / Feldman growth theorems).  Tie: observable correspondence of the
real containers (built from the current working tree, no hook) with the extracted models after every operation,
with table-driven degenerate hash functors.  All four families are compared in full with their extracted model:
CuckooSeq, StripedSeq (results, size, bucket_count, contains of every key, final layout), SplitSeq (additionally the
walk of the ordered list with its dummy nodes, the initialised buckets and where they point, m_nMaxItemCount, bucket
table capacity, recursive init_bucket calls) and FeldmanSeq (the tree of array nodes slot by slot,
get_level_statistics, iteration order)."""
import os, json, re, subprocess
import vcheck

KNOWN_SIG = "cuckoo-resize-fallthrough-drop"
KNOWN_WHAT = ("intrusive CuckooSet::resize() drops elements for which neither placement loop finds room (fall-through to do_next): "
              "arity 2, probe-set size 1, initial capacity 2, hashes T1=[1,1,0] T2=[0,0,0]: insert 0,1,2 all return true, "
              "then contains(1)=false while size()=3 (same loss predicted by the Coq model: cuckoo_resize_refuted)")
LG_CAP = 12          # cases are cut before the operation that would make the tables larger than 2^LG_CAP buckets
FUEL = 6             # model fuel for the insert/resize retry loop


# ------------------------------------------------------------------------------------------------ building

def build_model(ctx):
    d = os.path.join(ctx.work, "model")
    os.makedirs(d, exist_ok=True)
    models = ["CuckooSeq", "StripedSeq", "SplitSeq", "SplitSeqObs", "FeldmanSeq", "FeldmanSeqObs"]
    extracts = ["Extract_C17.v", "Extract_SplitSeq.v", "Extract_FeldmanSeq.v"]
    srcs = [os.path.join(vcheck.COQ, "Extract", e) for e in extracts] + [os.path.join(vcheck.VERIF, "ocaml", "c17_main.ml")] + \
           [os.path.join(vcheck.COQ, "Model", m + ".v") for m in models]
    key = vcheck.file_hash(srcs)
    exe = os.path.join(d, "c17_exe")
    stamp = exe + ".key"
    if os.path.exists(exe) and os.path.exists(stamp) and open(stamp).read() == key:
        return exe
    vcheck.coq_makefile()
    rc, out = vcheck.sh(["make", "-j%d" % vcheck.NCPU] + ["Model/%s.vo" % m for m in models], cwd=vcheck.COQ, timeout=900)
    if rc != 0:
        raise vcheck.BuildError("coq model does not build:\n" + out[-3000:])
    for e in extracts:
        rc, out = vcheck.extract(e, d)
        if rc != 0:
            raise vcheck.BuildError("extraction of %s failed:\n" % e + out[-3000:])
    rc, out = vcheck.ocaml_build(d, ["c17model.mli", "c17model.ml", "c17split.mli", "c17split.ml", "c17feldman.mli", "c17feldman.ml",
                                     os.path.join(vcheck.VERIF, "ocaml", "c17_main.ml")], exe)
    if rc != 0:
        raise vcheck.BuildError("ocaml build failed:\n" + out[-3000:])
    open(stamp, "w").write(key)
    return exe


def build_cuckoo(ctx):
    return vcheck.cxx_build(os.path.join(vcheck.VERIF, "harness/C17/cuckoo.cpp"), os.path.join(ctx.work, "h", "cuckoo"), hook=False, link_cds=False)


def build_others(ctx):
    return vcheck.cxx_build(os.path.join(vcheck.VERIF, "harness/C17/others.cpp"), os.path.join(ctx.work, "h", "others"), hook=False)


# ------------------------------------------------------------------------------------------------ cuckoo cases

HASH_KINDS = ["constant", "two-valued", "prefix-sharing", "identity", "few-values", "t1-low-t2-high", "random16", "one-table-constant"]


def gen_hash(rng, kind, k, n):
    """-> k lookup tables over keys 0..n-1"""
    tabs = []
    for i in range(k):
        if kind == "constant":
            c = rng.below(8); t = [c] * n
        elif kind == "two-valued":
            a, b = rng.below(16), rng.below(16); t = [a if rng.chance(1, 2) else b for _ in range(n)]
        elif kind == "prefix-sharing":      # the low s bits agree: the keys collide until the capacity exceeds 2^s
            s = 2 + rng.below(4); low = rng.below(1 << s); t = [low + (rng.below(8) << s) for _ in range(n)]
        elif kind == "identity":
            t = [x if i == 0 else x * (1 if rng.chance(1, 2) else 16) for x in range(n)] if i < 2 else list(range(n))
        elif kind == "few-values":
            vals = [rng.below(64) for _ in range(2 + rng.below(3))]; t = [rng.choice(vals) for _ in range(n)]
        elif kind == "t1-low-t2-high":
            t = [rng.below(8) << (4 * (i % 2)) for _ in range(n)]
        elif kind == "one-table-constant":
            t = [rng.below(4)] * n if i == 0 else [rng.below(1 << 10) for _ in range(n)]
        else:
            t = [rng.below(1 << 16) for _ in range(n)]
        tabs.append(t)
    return tabs


def gen_cuckoo_case(rng, cid):
    k = 3 if rng.chance(1, 6) else 2
    ps = 1 + rng.below(4)
    vec = rng.chance(1, 2)
    if k == 3 and vec:
        ps = 2
    thr = 0 if ps == 1 else 1 + rng.below(ps - 1)
    ordered = rng.below(2)
    lg0 = rng.choice([0, 1, 1, 2, 2, 3])
    sh = rng.below(2)
    ctor0 = rng.below(2)
    hk = rng.choice(HASH_KINDS)
    n = (3 + rng.below(6)) if ps == 1 else (4 + rng.below(22))
    ht = gen_hash(rng, hk, k, n)
    order = list(range(n))
    if rng.chance(1, 2):      # shuffled insertion order
        for i in range(n - 1, 0, -1):
            j = rng.below(i + 1); order[i], order[j] = order[j], order[i]
    ops = []
    okind = rng.below(3)      # 0 inserts only, 1 inserts + erases + re-inserts, 2 mixed with finds/duplicates
    for x in order:
        ops += [1, x]
        if okind >= 1 and rng.chance(1, 5):
            ops += [2, rng.below(n)]
        if okind == 2 and rng.chance(1, 6):
            ops += [1, rng.below(n)]
        if okind == 2 and rng.chance(1, 8):
            ops += [3, rng.below(n)]
    return {"id": cid, "family": "cuckoo", "cfg": [k, ps, thr, ordered, lg0, FUEL, LG_CAP], "impl": [1 if vec else 0, sh, ctor0],
            "hash": ht, "ops": ops, "hash_kind": hk, "ops_kind": ["insert-only", "insert-erase", "mixed"][okind]}


def write_cases(path, cases):
    with open(path, "w") as f:
        for c in cases:
            f.write("case %s\ncfg %s\nimpl %s\n" % (c["id"], " ".join(map(str, c["cfg"])), " ".join(map(str, c["impl"]))))
            for t in c["hash"]:
                f.write("hash %s\n" % " ".join(map(str, t)))
            f.write("ops %s\nend\n" % " ".join(map(str, c["ops"])))


OP_RE = re.compile(r"op (\d+) res=(\d+) size=(\d+) lg=(\d+) dropped=(\S*) found=(\S*)")


def parse_out(text):
    res = {}
    cur = None
    for line in text.split("\n"):
        line = line.rstrip()
        if line.startswith("case "):
            cur = {"ops": [], "final": None, "done": False, "extra": []}
            res[line[5:].strip()] = cur
        elif cur is None:
            continue
        elif line.startswith("op "):
            m = OP_RE.match(line)
            if m:
                cur["ops"].append({"res": int(m.group(2)), "size": int(m.group(3)), "lg": int(m.group(4)),
                                   "dropped": [int(x) for x in m.group(5).split(",") if x], "found": [int(x) for x in m.group(6).split(",") if x]})
        elif line == "final" or line.startswith("final "):
            cur["final"] = [int(x) for x in line.split()[1:]]
        elif line.startswith("endcase"):
            cur["done"] = True
        elif line:
            cur["extra"].append(line)
    return res


def run_model(model, cases, path):
    write_cases(path, cases)
    rc, out = vcheck.sh("ulimit -s unlimited; %s run < %s" % (model, path), timeout=1200)
    return parse_out(out)


def run_impl(exe, cases, path, timeout=120):
    """Real container under a watchdog (address-space limit + timeout).  -> (parsed, rc)"""
    write_cases(path, cases)
    rc, out = vcheck.sh("ulimit -v 6000000; timeout %d %s < %s" % (timeout, exe, path), timeout=timeout + 30)
    return parse_out(out), rc


def run_batches(exe, cases, writer, workdir, tag, batch=250, timeout=30, max_failures=3, raw=None):
    """Run the real container over the cases in batches under a watchdog (address-space limit + timeout).  A case
    that does not reach `endcase` (hang, crash, memory blow-up) ends its batch; the run continues behind it.
    -> (parsed outputs, list of ids of cases that did not finish)"""
    out = {}; failed = []
    pending = list(cases); nb = 0
    while pending and len(failed) < max_failures:
        part = pending[:batch]
        path = os.path.join(workdir, "%s_impl_%d.txt" % (tag, nb)); nb += 1
        writer(path, part)
        rc, txt = vcheck.sh("ulimit -v 6000000; timeout %d %s < %s" % (timeout, exe, path), timeout=timeout + 30)
        o = parse_out(txt); out.update(o)
        if raw is not None:
            raw.update(case_lines(txt))
        ndone = 0
        for c in part:
            if o.get(c["id"], {}).get("done"): ndone += 1
            else: break
        if ndone < len(part):
            failed.append(part[ndone]["id"])
            out.setdefault(part[ndone]["id"], {"ops": [], "final": None, "done": False, "extra": []})
            pending = pending[ndone + 1:]
        else:
            pending = pending[len(part):]
    return out, failed


def cut_for_impl(c, m):
    """The part of a case that is safe to run on the real code: stop before the first operation on which the model
    runs out of fuel (the C++ insert/resize loop would not terminate) or grows the tables beyond 2^LG_CAP."""
    nops = len(c["ops"]) // 2
    keep = 0
    why = None
    for j in range(nops):
        if j >= len(m["ops"]):
            break
        o = m["ops"][j]
        if o["res"] == 2:
            why = "out-of-fuel"; break
        if o["res"] == 3:
            why = "capacity-cap"; break
        keep = j + 1
    c2 = dict(c); c2["ops"] = c["ops"][:2 * keep]
    return c2, why


def ideal_sets(c, m):
    """Reference set semantics per op (a plain set, driven by the operation results of the model)."""
    s = set(); out = []
    for j, o in enumerate(m["ops"]):
        code, x = c["ops"][2 * j], c["ops"][2 * j + 1]
        if code == 1 and o["res"] == 1: s.add(x)
        if code == 2 and o["res"] == 1: s.discard(x)
        out.append(set(s))
    return out


def compare_cuckoo(c, m, r):
    """-> None or a description of the first difference between model (m) and real container (r)"""
    if not r or not r["done"]:
        return {"op": len(r["ops"]) if r else 0, "what": "real container did not finish the case (crash, hang or memory blow-up)", "impl_extra": (r or {}).get("extra")}
    nops = len(c["ops"]) // 2
    for j in range(nops):
        if j >= len(r["ops"]) or j >= len(m["ops"]):
            return {"op": j, "what": "missing output"}
        a, b = m["ops"][j], r["ops"][j]
        for f in ("res", "size", "lg", "found"):
            if a[f] != b[f]:
                return {"op": j, "field": f, "model": a[f], "impl": b[f], "operation": c["ops"][2 * j:2 * j + 2]}
    return None


def minimise(c, fails, budget=80):
    """Greedy shrinking of a failing case: cut behind the failing operation, then drop single operations, as long as
    `fails(case)` (which re-runs model and real container on the candidate) stays true."""
    cur = c
    n = 0
    improved = True
    while improved and n < budget:
        improved = False
        nops = len(cur["ops"]) // 2
        for j in range(nops - 1, -1, -1):
            if n >= budget: break
            cand = dict(cur); cand["ops"] = cur["ops"][:2 * j] + cur["ops"][2 * j + 2:]
            n += 1
            if cand["ops"] and fails(cand):
                cur = cand; improved = True
                break
    return cur


def cuckoo_part(ctx, model, cov, rng):
    exe = build_cuckoo(ctx)
    ngen = 30000 if ctx.thorough() else 4000
    cases = []
    cdir = os.path.join(vcheck.VERIF, "corpus", "C17")
    for f in sorted(os.listdir(cdir)) if os.path.isdir(cdir) else []:
        if f.endswith(".json"):
            cc = json.load(open(os.path.join(cdir, f)))
            if cc.get("family") == "cuckoo":
                cases.append(cc)
    ncorpus = len(cases)
    cases += [gen_cuckoo_case(rng, "g%d" % i) for i in range(ngen)]
    if ctx.replay:
        rc = json.load(open(ctx.replay))
        cases = [rc["case"]] if rc.get("case", {}).get("family") == "cuckoo" else []
        ncorpus = 0
    if not cases:
        return
    mout = run_model(model, cases, os.path.join(ctx.work, "cuckoo_cases.txt"))
    cut = []; why_hist = {}
    for c in cases:
        c2, why = cut_for_impl(c, mout.get(c["id"], {"ops": []}))
        cut.append(c2)
        if why: why_hist[why] = why_hist.get(why, 0) + 1
    rout, bad_batches = run_batches(exe, cut, write_cases, ctx.work, "cuckoo")
    stats = {"agree": 0, "diverged": 0, "with_drop": 0, "ops_compared": 0, "resizes": 0, "lost_keys_predicted_and_observed": 0}
    hk_hist = {}; cfg_hist = {}; ops_hist = {"insert": 0, "erase": 0, "find": 0}; drop_hist = {}
    distinct = set(); first_div = None; drop_cases = []
    for c, c2 in zip(cases, cut):
        m = mout.get(c["id"]); r = rout.get(c["id"])
        if m is None:
            continue
        hk_hist[c.get("hash_kind", "corpus")] = hk_hist.get(c.get("hash_kind", "corpus"), 0) + 1
        ck = "k%d ps%d thr%d %s %s lg%d" % (c["cfg"][0], c["cfg"][1], c["cfg"][2], "ord" if c["cfg"][3] else "unord", "vector" if c["impl"][0] else "list", c["cfg"][4])
        cfg_hist[ck] = cfg_hist.get(ck, 0) + 1
        for j in range(0, len(c2["ops"]), 2):
            ops_hist[{1: "insert", 2: "erase"}.get(c2["ops"][j], "find")] += 1
        d = compare_cuckoo(c2, m, r)
        nops = len(c2["ops"]) // 2
        stats["ops_compared"] += nops
        if d is None and r is not None and r["final"] is not None and nops == len(m["ops"]) and m["final"] != r["final"]:
            d = {"op": nops, "field": "final layout (clear_and_dispose order)", "model": m["final"], "impl": r["final"]}
        grew = nops > 0 and m["ops"][nops - 1]["lg"] > c["cfg"][4]
        if grew:
            stats["resizes"] += m["ops"][nops - 1]["lg"] - c["cfg"][4]
            distinct.add(json.dumps([c["cfg"], c["hash"], c2["ops"]]))
        if d is not None:
            stats["diverged"] += 1
            if first_div is None:
                first_div = (c2, d, m, r)
            continue
        stats["agree"] += 1
        dropped = [x for o in m["ops"][:nops] for x in o["dropped"]]
        if dropped:
            stats["with_drop"] += 1
            stats["lost_keys_predicted_and_observed"] += len(dropped)
            key = "ps%d thr%d" % (c["cfg"][1], c["cfg"][2])
            drop_hist[key] = drop_hist.get(key, 0) + 1
            drop_cases.append(c2)
    if first_div is not None:
        c2, d, m, r = first_div
        def one(cand):
            cand = dict(cand, id="min")
            mo = run_model(model, [cand], os.path.join(ctx.work, "cuckoo_min_m.txt")).get("min")
            if not mo: return None
            cc, _ = cut_for_impl(cand, mo)
            ro, _ = run_batches(exe, [cc], write_cases, ctx.work, "cuckoo_min", timeout=20)
            return cc, compare_cuckoo(cc, mo, ro.get("min")), mo, ro.get("min")
        cut_at = dict(c2); cut_at["ops"] = c2["ops"][:2 * (d.get("op", 0) + 1)]
        small = minimise(cut_at if (one(cut_at) or (0, None))[1] else c2, lambda cand: (one(cand) or (0, None))[1] is not None)
        again = one(small)
        if again and again[1] is not None:
            c2, d, m, r = again[0], again[1], again[2], again[3]
        ideal = ideal_sets(c2, m)
        j = d.get("op", 0)
        kind = "contents of the real CuckooSet differ from the sequential model"
        if d.get("field") == "found" and j < len(ideal):
            lost = sorted(set(d["model"]) - set(d["impl"])); extra = sorted(set(d["impl"]) - set(d["model"]))
            if lost:
                kind = "real CuckooSet lost keys %s that the faithful model keeps (a loss that is not the resize fall-through)" % lost
            elif extra:
                kind = "real CuckooSet holds keys %s that the model does not (duplicate / phantom element or a model-predicted drop that did not happen)" % extra
        ctx.violation(kind, {"case": c2, "first_difference": d, "model_ops": m["ops"][:j + 1], "impl_ops": (r or {}).get("ops", [])[:j + 1]},
                      signature=None)
    if drop_cases:
        smallest = min(drop_cases, key=lambda c: (len(c["ops"]), sum(map(sum, c["hash"]))))
        ctx.violation(KNOWN_WHAT, {"case": smallest, "note": "real container and model agree on every operation; the model's resize reports the dropped elements"},
                      signature=KNOWN_SIG)
    cov["samples"] = [dict(c, hash=c["hash"]) for c in cut[ncorpus:ncorpus + 2]] + ([smallest] if drop_cases else [])
    cov["cuckoo"] = {"cases": len(cases), "corpus_cases": ncorpus, "stats": stats, "hash_kinds": hk_hist, "config_kinds": len(cfg_hist),
                     "config_hist_top": dict(sorted(cfg_hist.items(), key=lambda kv: -kv[1])[:12]), "ops": ops_hist,
                     "not_run_on_real_code": why_hist, "drop_cases_by_config": drop_hist, "watchdog_batches": bad_batches,
                     "distinct_cases_with_resize": len(distinct)}
    return len(cases), len(distinct)


# ------------------------------------------------------------------------------------------------ other families

def write_other_cases(path, cases, striped_model=False):
    with open(path, "w") as f:
        for c in cases:
            f.write("case %s\n" % c["id"])
            if not striped_model:
                f.write("family %s\n" % c["family"])
                f.write("cfg %s\n" % " ".join(map(str, c["cfg"])))
            else:   # model cfg: lg0 kind n lgcap
                f.write("cfg %s\n" % " ".join(map(str, c["cfg"][:3] + [LG_CAP])))
            f.write("hash %s\nops %s\nend\n" % (" ".join(map(str, c["hash"])), " ".join(map(str, c["ops"]))))


OTHER_HASH_KINDS = ["constant", "two-valued", "low-bits-shared", "high-bits-only", "identity", "few-values", "random", "duplicates"]


def gen_hash1(rng, kind, n, width):
    top = (1 << width) - 1
    if kind == "constant":
        c = rng.below(1 << min(width, 12)); t = [c] * n
    elif kind == "two-valued":
        a, b = rng.below(1 << min(width, 10)), rng.below(1 << min(width, 10)); t = [a if rng.chance(1, 2) else b for _ in range(n)]
    elif kind == "low-bits-shared":      # constant prefix in cut order: collide for the first s bits
        s_ = 4 + rng.below(max(1, width - 8)); low = rng.below(1 << s_); t = [(low | (rng.below(1 << 12) << s_)) & top for _ in range(n)]
    elif kind == "high-bits-only":
        sh = width - 4 - rng.below(4); t = [(rng.below(16) << sh) & top for _ in range(n)]
    elif kind == "identity":
        t = list(range(n))
    elif kind == "few-values":
        vals = [rng.below(top + 1) for _ in range(2 + rng.below(4))]; t = [rng.choice(vals) for _ in range(n)]
    elif kind == "duplicates":
        base = [rng.below(top + 1) for _ in range(max(2, n // 2))]; t = [rng.choice(base) for _ in range(n)]
    else:
        t = [rng.below(top + 1) for _ in range(n)]
    return t


def gen_ops(rng, n, okind, shuffle=None):
    order = list(range(n))
    if rng.chance(1, 2) if shuffle is None else shuffle:
        for i in range(n - 1, 0, -1):
            j = rng.below(i + 1); order[i], order[j] = order[j], order[i]
    ops = []
    for x in order:
        ops += [1, x]
        if okind >= 1 and rng.chance(1, 5): ops += [2, rng.below(n)]
        if okind == 2 and rng.chance(1, 6): ops += [1, rng.below(n)]
        if okind == 2 and rng.chance(1, 8): ops += [3, rng.below(n)]
    return ops


def feldman_metrics(head, array, width):
    """details::metrics::make (only used by the generator to stay inside is_correct(); the compared value comes from
    the Coq function make_metrics)."""
    a = max(array, 2); h = max(head, 4); h = min(h, width)
    if (width - h) % a: h += (width - h) % a
    return h, a


def gen_other_case(rng, cid, family):
    hk = rng.choice(OTHER_HASH_KINDS)
    okind = rng.below(3)
    shuffle = None
    if family == "striped":
        pk = rng.below(2)
        cfg = [rng.choice([4, 4, 5]), pk, (1 + rng.below(2)) if pk == 0 else (1 + rng.below(3)), rng.below(3)]
        n = 8 + rng.below(70) if pk == 0 else 4 + rng.below(24)
        if hk == "duplicates": hk = "few-values"
        ht = gen_hash1(rng, hk, n, 16)
    elif family == "split":
        lf = 1 + rng.below(2)
        # estimated item count: mostly 1..8 (bucket tables of 2..8 buckets: growth stops early, the table fills up),
        # sometimes large (growth over 5-6 levels, deep init_bucket recursion, the > 1024 branch of calc_metrics)
        items = (1 + rng.below(8)) if rng.chance(3, 5) else rng.choice([12, 16, 33, 64, 100, 1024, 2048, 3000, 5000])
        shuffle = None
        cfg = [items, lf, rng.below(2), 0 if rng.chance(3, 4) else 1, rng.below(2)]
        n = 4 + rng.below(44)
        if hk == "duplicates": hk = "few-values"
        width = 64 if rng.chance(1, 6) else 32
        if rng.chance(1, 4):
            # "deep": most keys live in bucket 0 at every table size; the last few keys (and now and then one in the middle)
            # have hashes ending in seven one bits: their bucket 2^lg-1 and its ancestors 2^k-1 are uninitialised when
            # they arrive after several growths without a sweep (recursive init_bucket, depth up to lg-1)
            hk = "deep"
            cfg[0] = rng.choice([64, 100, 1024, 2048]) * lf
            if rng.chance(3, 4): cfg[4] = 0
            n = 16 + rng.below(34)
            ndeep = 1 + rng.below(3)
            ht = [(rng.below(1 << 10) << 7) for _ in range(n - ndeep)] + [127 | (rng.below(16) << 7) for _ in range(ndeep)]
            if rng.chance(1, 3): ht[rng.below(n - ndeep)] = 127 | (rng.below(16) << 7)
            shuffle = rng.chance(1, 5)
        else:
            ht = gen_hash1(rng, hk, n, width)
    else:
        while True:
            width = rng.choice([8, 16, 16, 32, 32, 64])
            cfg = [rng.choice([1, 2, 3, 3, 4, 5, 6]), rng.choice([1, 2, 2, 3, 3, 4]), width]
            hb, ab = feldman_metrics(cfg[0], cfg[1], width)
            if hb < width and ab < width: break       # number_splitter::is_correct
        n = 4 + rng.below(40)
        if rng.chance(1, 3):
            # colliding prefixes: groups of hashes that agree on their first p bits (in cut order = low bits) and differ
            # in a chosen higher bit, p spread over the whole width: expand_slot at every level down to the last
            hk = "colliding-prefixes"
            groups = [rng.below(1 << width) for _ in range(1 + rng.below(3))]
            ht = []
            for _ in range(n):
                g = rng.choice(groups); pbits = rng.below(width)
                ht.append((g ^ (1 << pbits) ^ ((rng.below(1 << width) >> (pbits + 1)) << (pbits + 1))) & ((1 << width) - 1))
        else:
            ht = gen_hash1(rng, hk, n, width)
    return {"id": cid, "family": family, "cfg": cfg, "hash": ht, "ops": gen_ops(rng, n, okind, shuffle), "hash_kind": hk,
            "ops_kind": ["insert-only", "insert-erase", "mixed"][okind]}


def norm_case(c):
    """Older corpus / replay cases of the split family have no sweep flag: the harness sweeps by default."""
    if c["family"] == "split" and len(c["cfg"]) == 4:
        c = dict(c, cfg=c["cfg"] + [1])
    return c


def set_model(c):
    """Plain-set reference: per op (res, size, found keys); final key set.  For feldman the element is the hash."""
    fam = c["family"]; h = c["hash"]; n = len(h)
    ident = (lambda k: h[k]) if fam == "feldman" else (lambda k: k)
    cur = {}          # identity -> key of the node that represents it
    out = []
    for j in range(0, len(c["ops"]), 2):
        code, k = c["ops"][j], c["ops"][j + 1]
        e = ident(k)
        if code == 1:
            res = 0 if e in cur else 1
            if res: cur[e] = k
        elif code == 2:
            res = 1 if e in cur else 0
            cur.pop(e, None)
        else:
            res = 1 if e in cur else 0
        out.append({"res": res, "size": len(cur), "found": [q for q in range(n) if ident(q) in cur]})
    return out, sorted(cur.values())


# ---- full comparison of split-list / Feldman with the extracted structural models: the two programs print the same lines

def case_lines(text):
    """-> {case id: (lines between `case` and `endcase`, finished?)}"""
    res = {}; cur = None; cid = None
    for line in text.split("\n"):
        line = line.rstrip()
        if line.startswith("case "):
            cid = line[5:].strip(); cur = []; res[cid] = (cur, False)
        elif cur is None:
            continue
        elif line == "endcase":
            res[cid] = (cur, True); cur = None
        elif line:
            cur.append(line)
    return res


def write_struct_model_cases(path, cases):
    """Input of `c17_exe runsplit|runfeldman`.  split: cfg as for the harness; feldman: <hash width> <head bits> <array bits>."""
    with open(path, "w") as f:
        for c in cases:
            cfg = c["cfg"] if c["family"] == "split" else [c["cfg"][2], c["cfg"][0], c["cfg"][1]]
            f.write("case %s\ncfg %s\nhash %s\nops %s\nend\n" % (c["id"], " ".join(map(str, cfg)), " ".join(map(str, c["hash"])), " ".join(map(str, c["ops"]))))


def run_struct_model(model, fam, cases, path):
    if not cases:
        return {}
    write_struct_model_cases(path, cases)
    rc, out = vcheck.sh("ulimit -s unlimited; %s %s < %s" % (model, "runsplit" if fam == "split" else "runfeldman", path), timeout=1200)
    return case_lines(out)


def short(s_, n=400):
    return s_ if len(s_) <= n else s_[:n] + " ...(%d chars)" % len(s_)


def line_fields(line):
    """`kind j k=v k=v ...` -> (kind, j, {k: v}) for op / lay / lay2 lines; other lines -> (kind, None, {"value": rest})"""
    toks = line.split(" ")
    kind = toks[0]
    if kind in ("op", "lay", "lay2") and len(toks) > 1:
        return kind, toks[1], dict(t.split("=", 1) for t in toks[2:] if "=" in t)
    if kind in ("tree", "ls") and len(toks) > 1:
        return kind, toks[1], {"value": " ".join(toks[2:])}
    if kind == "finallay":
        return kind, None, dict(t.split("=", 1) for t in toks[1:] if "=" in t)
    return kind, None, {"value": " ".join(toks[1:])}


STRUCT_WHAT = {"cap": "bucket table capacity / load factor after construction", "met": "effective head/array bits (metrics::make)",
               "op": "operation result", "lay": "layout after the operation", "lay2": "layout after the contains-sweep",
               "tree": "tree of array nodes after the operation", "ls": "get_level_statistics after the operation",
               "finalfound": "closing contains-sweep", "finallay": "layout after the closing sweep", "final": "iteration order",
               "finalh": "iteration order (hashes)"}


def compare_struct(c, mo, io):
    """First difference between the lines of the extracted model (mo) and of the real container (io), or None."""
    if io is None or not io[1]:
        return {"op": None, "what": "real container did not finish the case (crash, hang or memory blow-up)", "impl_lines_seen": len(io[0]) if io else 0}
    if mo is None or not mo[1]:
        return {"op": None, "what": "model driver did not finish the case"}
    ml = mo[0]
    il = [l for l in io[0] if not (c["family"] == "feldman" and (l == "final" or l.startswith("final ")))]
    for i in range(max(len(ml), len(il))):
        a = ml[i] if i < len(ml) else None
        b = il[i] if i < len(il) else None
        if a == b:
            continue
        if a is None or b is None:
            return {"op": None, "what": "missing output line", "model": short(a or ""), "impl": short(b or "")}
        ka, ja, fa = line_fields(a); kb, jb, fb = line_fields(b)
        d = {"line": ka, "what": STRUCT_WHAT.get(ka, ka), "op": int(ja) if ja is not None and ja.isdigit() else None}
        if ka == kb and ja == jb:
            diff = [k for k in fa if fa.get(k) != fb.get(k)] + [k for k in fb if k not in fa]
            d["fields"] = diff
            d["model"] = {k: short(fa.get(k, "")) for k in diff}
            d["impl"] = {k: short(fb.get(k, "")) for k in diff}
        else:
            d["model"] = short(a); d["impl"] = short(b)
        if d["op"] is not None and 2 * d["op"] + 1 < len(c["ops"]):
            d["operation"] = c["ops"][2 * d["op"]:2 * d["op"] + 2]
        return d
    return None


def struct_stats(c, lines, st):
    """Distributions read off the MODEL output of one case (equal to the real container's when the case agrees)."""
    fam = c["family"]
    if fam == "split":
        lg = 1; maxrec = 0; newb = 0; cap = None
        for l in lines:
            if l.startswith("cap "):
                cap = int(l.split()[1])
            elif l.startswith("op "):
                m = OP_RE.match(l)
                if m: lg = int(m.group(4))
            elif l.startswith("lay "):
                k, j, f = line_fields(l)
                maxrec = max(maxrec, int(f.get("rec", 0))); newb += int(f.get("new", 0))
        fin = [l for l in lines if l.startswith("finallay ")]
        nb = len(line_fields(fin[0])[2].get("buckets", "").split(",")) if fin else 0
        st["growths"] += lg - 1
        st["final_log2_bucket_count"][str(lg)] = st["final_log2_bucket_count"].get(str(lg), 0) + 1
        st["max_init_bucket_recursion_depth"][str(maxrec)] = st["max_init_bucket_recursion_depth"].get(str(maxrec), 0) + 1
        st["capacity"][str(cap)] = st["capacity"].get(str(cap), 0) + 1
        st["buckets_initialised"] += nb
        st["table"]["dynamic" if c["cfg"][2] else "static"] += 1
        st["list"]["lazy" if c["cfg"][3] else "michael"] += 1
        st["sweep"]["on" if c["cfg"][4] else "off"] += 1
        st["table_full"] += 1 if any(" max=inf " in l for l in lines if l.startswith("lay ")) else 0
        return lg > 1 or maxrec > 0
    else:
        ls = [l for l in lines if l.startswith("ls ")]
        levels = [x.split(":") for x in ls[-1].split(" ", 2)[2].split(",")] if ls else []
        for lvl, x in enumerate(levels[1:], 1):
            st["expand_slot_per_level"][str(lvl)] = st["expand_slot_per_level"].get(str(lvl), 0) + int(x[0])
        depth = len(levels) - 1
        st["max_depth"][str(depth)] = st["max_depth"].get(str(depth), 0) + 1
        st["hash_width"][str(c["cfg"][2])] = st["hash_width"].get(str(c["cfg"][2]), 0) + 1
        met = [l for l in lines if l.startswith("met ")]
        if met: st["effective_head_array_bits"][met[0][4:]] = st["effective_head_array_bits"].get(met[0][4:], 0) + 1
        return depth > 0


def other_part(ctx, model, cov, rng):
    exe = build_others(ctx)
    per = 10000 if ctx.thorough() else 1200
    cases = []
    cdir = os.path.join(vcheck.VERIF, "corpus", "C17")
    for f in sorted(os.listdir(cdir)) if os.path.isdir(cdir) else []:
        if f.endswith(".json"):
            cc = json.load(open(os.path.join(cdir, f)))
            if cc.get("family") in ("striped", "split", "feldman"):
                cases.append(norm_case(cc))
    ncorpus = len(cases)
    for fam in ("striped", "split", "feldman"):
        cases += [gen_other_case(rng, "%s%d" % (fam[:2], i), fam) for i in range(per)]
    if ctx.replay:
        rc = json.load(open(ctx.replay))
        cases = [norm_case(rc["case"])] if rc.get("case", {}).get("family") in ("striped", "split", "feldman") else []
        ncorpus = 0
    if not cases:
        return 0, 0
    fam_stats = {}
    struct_st = {"split": {"growths": 0, "final_log2_bucket_count": {}, "max_init_bucket_recursion_depth": {}, "capacity": {}, "buckets_initialised": 0,
                           "table": {"dynamic": 0, "static": 0}, "list": {"michael": 0, "lazy": 0}, "sweep": {"on": 0, "off": 0}, "table_full": 0},
                 "feldman": {"expand_slot_per_level": {}, "max_depth": {}, "hash_width": {}, "effective_head_array_bits": {}}}
    distinct = set()
    samples = {}
    names = {"striped": "StripedSet (internal_resize)", "split": "SplitListSet (bucket table growth / init_bucket)", "feldman": "FeldmanHashSet (expand_slot)"}

    all_bad = []; total = [0]

    def process(cases):
        # the extracted StripedSet model decides where striped cases are cut (capacity cap) and is compared in full
        st = [c for c in cases if c["family"] == "striped"]
        mpath = os.path.join(ctx.work, "striped_model_cases.txt")
        write_other_cases(mpath, st, striped_model=True)
        rc, out = vcheck.sh("ulimit -s unlimited; %s runs < %s" % (model, mpath), timeout=1200)
        smod = parse_out(out)
        # the extracted split-list / Feldman structural models
        struct_mod = {}
        for fam in ("split", "feldman"):
            struct_mod.update(run_struct_model(model, fam, [c for c in cases if c["family"] == fam], os.path.join(ctx.work, "%s_model_cases.txt" % fam)))
        run_cases = []
        for c in cases:
            if c["family"] == "striped":
                m = smod.get(c["id"], {"ops": []})
                c2 = dict(c); c2["ops"] = c["ops"][:2 * len(m["ops"])]
                run_cases.append(c2)
            else:
                run_cases.append(c)
        raw = {}
        rout, bad_batches = run_batches(exe, run_cases, write_other_cases, ctx.work, "others", batch=300, raw=raw)
        def one_struct(cand):
            """model and real container on one candidate -> (difference or None, impl lines)"""
            cand = dict(cand, id="min")
            mo = run_struct_model(model, cand["family"], [cand], os.path.join(ctx.work, "struct_min_m.txt")).get("min")
            raw2 = {}
            run_batches(exe, [cand], write_other_cases, ctx.work, "struct_min", timeout=20, raw=raw2)
            io = raw2.get("min")
            return compare_struct(cand, mo, io), mo, io

        for c in run_cases:
            fam = c["family"]
            fs = fam_stats.setdefault(fam, {"cases": 0, "agree": 0, "diverged": 0, "ops_compared": 0, "grew": 0, "hash_kinds": {}, "ops": {"insert": 0, "erase": 0, "find": 0},
                                            "config_kinds": set(), "model_compared": 0})
            fs["cases"] += 1
            fs["hash_kinds"][c.get("hash_kind", "corpus")] = fs["hash_kinds"].get(c.get("hash_kind", "corpus"), 0) + 1
            fs["config_kinds"].add(tuple(c["cfg"]))
            for j in range(0, len(c["ops"]), 2):
                fs["ops"][{1: "insert", 2: "erase"}.get(c["ops"][j], "find")] += 1
            r = rout.get(c["id"])
            ref, ref_final = set_model(c)
            sweep = fam != "split" or c["cfg"][4] != 0
            d = None
            if r is None or not r["done"]:
                d = {"op": len(r["ops"]) if r else 0, "what": "real container did not finish the case (crash, hang or memory blow-up)"}
            else:
                for j, a in enumerate(ref):
                    if j >= len(r["ops"]):
                        d = {"op": j, "what": "missing output"}; break
                    b_ = r["ops"][j]
                    for f in ("res", "size", "found") if sweep else ("res", "size"):
                        if a[f] != b_[f]:
                            lost = sorted(set(a["found"]) - set(b_["found"])) if f == "found" else None
                            d = {"op": j, "field": f, "set_semantics": a[f], "impl": b_[f], "operation": c["ops"][2 * j:2 * j + 2], "lost_keys": lost}
                            break
                    if d: break
                if d is None and sorted(r["final"] or []) != ref_final:
                    d = {"op": len(ref), "field": "iteration", "set_semantics": ref_final, "impl": sorted(r["final"] or []),
                         "lost_keys": sorted(set(ref_final) - set(r["final"] or []))}
                if d is None and fam == "striped":
                    m = smod.get(c["id"])
                    if m:
                        fs["model_compared"] += 1
                        for j in range(len(ref)):
                            for f in ("res", "size", "lg", "found"):
                                if m["ops"][j][f] != r["ops"][j][f]:
                                    d = {"op": j, "field": "%s (extracted StripedSeq model)" % f, "model": m["ops"][j][f], "impl": r["ops"][j][f]}
                                    break
                            if d: break
                        if d is None and len(m["ops"]) == len(c["ops"]) // 2 == len(ref) and m["final"] != r["final"] and c["cfg"][3] == 0:
                            d = {"op": len(ref), "field": "final layout (clear_and_dispose order)", "model": m["final"], "impl": r["final"]}
                        if r["ops"] and r["ops"][-1]["lg"] > c["cfg"][0]:
                            fs["grew"] += 1; distinct.add(json.dumps([fam, c["cfg"], c["hash"], c["ops"]]))
            fs["ops_compared"] += len(ref)
            # ---- split-list / Feldman: the extracted structural model, line by line
            ds = None
            if fam != "striped":
                mo = struct_mod.get(c["id"])
                if mo is not None and mo[1]:
                    fs["model_compared"] += 1
                    if struct_stats(c, mo[0], struct_st[fam]):
                        fs["grew"] += 1; distinct.add(json.dumps([fam, c["cfg"], c["hash"], c["ops"]]))
                    if fam not in samples and len(c["ops"]) <= 24 and (len([l for l in mo[0] if l.startswith("ls ") and "," in l]) or any(" rec=1" in l or " rec=2" in l for l in mo[0])):
                        samples[fam] = dict(c, model_and_impl_output_last_lines=mo[0][-4:])
                ds = compare_struct(c, mo, raw.get(c["id"]))
            if d is None and ds is None:
                fs["agree"] += 1
                continue
            fs["diverged"] += 1
            if fs["diverged"] > 1:
                continue
            if d is not None and "lg" not in str(d.get("field", "")) and "layout" not in str(d.get("field", "")):
                def diff_of(cand):
                    cand = dict(cand, id="min")
                    ro, _ = run_batches(exe, [cand], write_other_cases, ctx.work, "others_min", timeout=20)
                    rr = ro.get("min"); ref2, fin2 = set_model(cand)
                    sw2 = cand["family"] != "split" or cand["cfg"][4] != 0
                    if rr is None or not rr["done"]: return {"op": 0, "what": "real container did not finish the case"}, rr
                    for j2, a2 in enumerate(ref2):
                        for f2 in ("res", "size", "found") if sw2 else ("res", "size"):
                            if j2 >= len(rr["ops"]) or a2[f2] != rr["ops"][j2][f2]:
                                return {"op": j2, "field": f2, "set_semantics": a2[f2], "impl": rr["ops"][j2][f2] if j2 < len(rr["ops"]) else None,
                                        "operation": cand["ops"][2 * j2:2 * j2 + 2],
                                        "lost_keys": sorted(set(a2["found"]) - set(rr["ops"][j2]["found"])) if f2 == "found" and j2 < len(rr["ops"]) else None}, rr
                    if sorted(rr["final"] or []) != fin2:
                        return {"op": len(ref2), "field": "iteration", "set_semantics": fin2, "impl": sorted(rr["final"] or []), "lost_keys": sorted(set(fin2) - set(rr["final"] or []))}, rr
                    return None, rr
                start = dict(c); start["ops"] = c["ops"][:2 * (d.get("op", 0) + 1)]
                if diff_of(start)[0] is None: start = c
                small = minimise(start, lambda cand: diff_of(cand)[0] is not None)
                d2, r2 = diff_of(small)
                if d2 is not None:
                    c, d, r = small, d2, r2
            if d is not None:
                if d.get("lost_keys"):
                    what = "%s lost keys during growth: an element inserted successfully is no longer found" % names[fam]
                else:
                    what = "%s differs from set semantics after an operation" % names[fam]
                ctx.violation(what, {"case": c, "first_difference": d, "impl_ops": (r or {}).get("ops", [])[:(d.get("op") or 0) + 1]}, signature=None)
            else:
                # the observable set behaviour is right, the structure is not the model's: shrink and report
                c0 = c
                if ds.get("op") is not None:
                    start = dict(c); start["ops"] = c["ops"][:2 * (ds["op"] + 1)]
                    if one_struct(start)[0] is not None: c0 = start
                small = minimise(c0, lambda cand: one_struct(cand)[0] is not None)
                ds2, mo2, io2 = one_struct(small)
                if ds2 is None:
                    small = c; ds2, mo2, io2 = one_struct(c)
                    ds2 = ds2 or ds
                what = "%s: %s of the real container differs from the extracted %s model" % (names[fam], ds2.get("what", "structure"), "SplitSeq" if fam == "split" else "FeldmanSeq")
                ctx.violation(what, {"case": small, "first_difference": ds2,
                                     "model_output": [short(l, 1500) for l in (mo2[0] if mo2 else [])][-12:],
                                     "impl_output": [short(l, 1500) for l in (io2[0] if io2 else [])][-12:]}, signature=None)
        all_bad.extend(bad_batches); total[0] += len(run_cases)

    # chunks keep the memory bounded in the thorough tier (every line of both outputs is held while a chunk is compared)
    CH = 3000
    for i in range(0, len(cases), CH):
        process(cases[i:i + CH])
    bad_batches = all_bad
    for fs in fam_stats.values():
        fs["config_kinds"] = len(fs["config_kinds"])
    cov["others"] = {"families": fam_stats, "corpus_cases": ncorpus, "watchdog_batches": bad_batches,
                     "split_list_distributions": struct_st["split"], "feldman_distributions": struct_st["feldman"],
                     "struct_samples": list(samples.values()),
                     "reference": "plain set semantics (results, size(), contains() of every key, iteration) AND the extracted model of each family, after every operation: "
                                  "StripedSeq (bucket_count, final bucket layout); SplitSeq via SplitSeqObs (bucket table capacity and load factor, m_nBucketCountLog2, m_nMaxItemCount, "
                                  "number of buckets created and of recursive init_bucket calls per operation, the walk of the ordered list INCLUDING dummy nodes as (split-order hash, dummy?, key), "
                                  "the set of initialised buckets with the list position their table entry points to; before and after the contains-sweep); "
                                  "FeldmanSeq via FeldmanSeqObs (effective head/array bits, every slot of every array node in tree order: empty / hash of the data node / nested array, "
                                  "get_level_statistics per level, iteration order)",
                     "abstraction_of_the_real_dump": "split-list: a list node is abstracted to (m_nHash, is_dummy(), key of the item; 0 for a dummy) - addresses, HP guards and the mark bit of the next pointer are dropped "
                                                     "(one thread, no logically deleted node survives an operation); a bucket table entry is abstracted to the index in the walk of the node it points to. "
                                                     "Feldman: a data slot is abstracted to the hash of the item it points to (the model stores hashes: two items with equal hashes are the same element), "
                                                     "an array slot to the sequence of its slots; the flag_array_converting state never shows between operations of one thread (printed as `converting` if it did)"}
    return total[0], len(distinct)


def model_search(ctx, model, cov):
    """Exhaustive model-side sweeps (small scope) that back the minimality claims of the witnesses."""
    sweeps = [("k2 ps1 thr0 lg0=1 keys=2 hashes<8", "2 1 0 0 1 2 8 6 1"), ("k2 ps1 thr0 lg0=1 keys=3 hashes<8", "2 1 0 0 1 3 8 6 1"),
              ("k2 ps2 thr1 lg0=1 keys=5 hashes<4", "2 2 1 0 1 5 4 6 1"), ("k2 ps2 thr1 lg0=1 keys=6 hashes<2", "2 2 1 0 1 6 2 6 1")]
    if ctx.thorough():
        sweeps += [("k2 ps1 thr0 lg0=0 keys=3 hashes<8", "2 1 0 0 0 3 8 6 1"), ("k2 ps1 thr0 lg0=2 keys=3 hashes<8", "2 1 0 0 2 3 8 6 1"),
                   ("k2 ps1 thr0 ordered keys=3 hashes<8", "2 1 0 1 1 3 8 6 1"), ("k2 ps2 thr1 lg0=1 keys=8 hashes<2", "2 2 1 0 1 8 2 6 1"),
                   ("k3 ps1 thr0 lg0=1 keys=3 hashes<4", "3 1 0 0 1 3 4 6 1"), ("k2 ps3 thr2 lg0=1 keys=8 hashes<2", "2 3 2 0 1 8 2 6 1")]
    procs = [(name, subprocess.Popen("ulimit -s unlimited; %s search %s" % (model, args), shell=True, stdout=subprocess.PIPE, text=True)) for name, args in sweeps]
    res = {}
    for name, p in procs:
        out, _ = p.communicate()
        m = re.search(r"searched (\d+) witnesses (\d+) outoffuel (\d+)", out)
        w = re.search(r"witness .*", out)
        res[name] = {"assignments": int(m.group(1)) if m else None, "with_drop": int(m.group(2)) if m else None,
                     "ops_out_of_fuel_or_capped": int(m.group(3)) if m else None, "first_witness": w.group(0) if w else None}
    cov["model_exhaustive_search"] = res
    return sum(v["assignments"] or 0 for v in res.values())


def run(ctx):
    from concurrent.futures import ThreadPoolExecutor
    with ThreadPoolExecutor(max_workers=4) as ex:
        f_coq = ex.submit(vcheck.coq_build, ["Properties/Properties_C17.v"])
        # the cuckoo harness needs nothing from libcds.a; only one thread may build libcds (vcheck.libcds is per process)
        f_h1 = ex.submit(build_cuckoo, ctx)
        f_h2 = ex.submit(build_others, ctx)
        res = f_coq.result()
        f_h1.result(); f_h2.result()      # BuildError propagates to bin/check
    ctx.coq_evidence(res)
    if ctx.thorough() and res.ok:
        rc_chk, out_chk = vcheck.coqchk("LV.Properties.Properties_C17")
        ctx.coverage["coqchk"] = {"rc": rc_chk, "axioms": re.findall(r"\* Axioms: (.*)", out_chk)[:1], "tail": out_chk[-300:] if rc_chk != 0 else ""}
        if rc_chk != 0:
            ctx.violation("coqchk rejects LV.Properties.Properties_C17", {"coqchk": out_chk[-1500:]}, no_input=True)
    model = build_model(ctx)
    cov = {}
    rng_c = ctx.rng.fork(); rng_o = ctx.rng.fork()      # all random choices derive from ctx.rng (VERIF_SEED)
    with ThreadPoolExecutor(max_workers=3) as ex:
        f_s = ex.submit(lambda: 0 if ctx.replay else model_search(ctx, model, cov))
        f_c = ex.submit(cuckoo_part, ctx, model, cov, rng_c)
        f_o = ex.submit(other_part, ctx, model, cov, rng_o)
        nsearch = f_s.result()
        n1, d1 = f_c.result() or (0, 0)
        n2, d2 = f_o.result()
    if not res.ok:
        ctx.violation("Coq obligations of C17 do not check: %s" % (res.failed[:2],), {"theorem": [f[2] for f in res.failed], "errors": res.failed[:3]}, no_input=True)
    ctx.coverage.update(cov)
    ctx.coverage.update({"evaluations": n1 + n2, "distinct_nontrivial": d1 + d2, "model_side_exhaustive_assignments": nsearch,
                         "rule": "a case = family x configuration x hash lookup table(s) x operation sequence, run on the real container and compared after every operation; non-trivial = distinct case in which the container grew at least once (cuckoo/striped: bucket_count doubled; split-list: m_nBucketCountLog2 incremented or init_bucket recursed; Feldman: at least one expand_slot)",
                         "samples": cov.pop("samples", [])})
    return ctx.finish(vcheck.STD_TRUSTED + ["ocaml/c17_main.ml (case parsing / printing)", "harness/C17/*.cpp", "lookup-table hash functors stand for arbitrary hash functions on the executions explored (the theorems quantify over all functions)"],
                      ["one thread: every lock acquisition succeeds", "capacities are powers of two (the constructors apply ceil2)",
                       "CuckooSet: no two equal keys are in the set when resize() runs (C++ resize() reads uninitialised positions otherwise); holds on reachable tables (C17_cuckoo_nodup)",
                       "split-list: the list order, bucket numbers and split-order keys are compared for 64-bit size_t and the default bit_reversal (lookup); MichaelList and LazyList (HP) as the ordered list",
                       "Feldman: unsigned 8/16/32/64-bit hashes (8-bit: the generic split_bitstring; the others: number_splitter), effective head bits < hash width"])
