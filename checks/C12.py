"""C12 — WeakRingBuffer is an exact SPSC FIFO for fixed and variable-size records (DESIGN 7, C12).

Coq: Properties_C12.v (theorems for every schedule / capacity / program about LV.Model.Ring and LV.Model.RingV).
Tie: step correspondence of both models with the real cds::container::WeakRingBuffer<int,...> (harness/C12/main.cpp)
and WeakRingBuffer<void,...> (harness/C12/mainv.cpp) under the deterministic scheduler: generated programs x
schedules, plus ALL interleavings of short programs (DFS over schedules).  Implementation-side monitors (value /
byte exact FIFO, failure justification) are the failing-input search."""
import os, json
import vcheck, conc_check, conc_windows

VARIANTS = {
    "ring":  {"extract": "Extract_Ring.v",  "harness": "harness/C12/main.cpp",  "tag": "ring"},
    "ringv": {"extract": "Extract_RingV.v", "harness": "harness/C12/mainv.cpp", "tag": "ringv"},
}
EMPTY_FAIL_SIG = "C12-void-back-fails-on-empty-ring"


def ceil2(n):
    p = 1
    while p < n:
        p *= 2
    return p


# ------------------------------------------------------------------------------------------------ generators

def schedule(rng, n=60):
    kind = rng.below(4)
    if kind == 0:      # uniform
        return [rng.below(2) for _ in range(10 + rng.below(n))]
    if kind == 1:      # bursty
        s = []
        for _ in range(2 + rng.below(8)):
            s += [rng.below(2)] * (1 + rng.below(9))
        return s
    if kind == 2:      # run one thread to a chosen step, then the other one for a while, then uniform
        first = rng.below(2)
        return [first] * (1 + rng.below(12)) + [1 - first] * (1 + rng.below(12)) + [rng.below(2) for _ in range(30)]
    # consumer lagging: producer runs far ahead, then strict alternation
    return [0] * (4 + rng.below(20)) + [1, 0] * 20


def gen_ring_case(rng, cid):
    cap = rng.choice([2, 3, 4, 5, 8])
    exp2 = rng.below(2)
    kind = rng.choice([0, 0, 1, 2])
    if kind != 0 and exp2 == 1 and cap not in (2, 4, 8):
        kind = 0
    ecap = ceil2(cap) if exp2 else cap
    nextv = [10 * (1 + rng.below(9))]
    def vals(k):
        r = list(range(nextv[0], nextv[0] + k)); nextv[0] += k
        return r
    P = []
    for _ in range(1 + rng.below(6)):
        x = rng.below(10)
        if x < 5:
            k = rng.choice([0, 1, 2, 2, 3, ecap - 1, ecap, ecap + 1]) if rng.chance(1, 3) else 1 + rng.below(max(1, ecap))
            P.append([1] + vals(max(0, k)))
        elif x < 7: P.append([2] + vals(1))
        elif x < 8: P.append([3] + vals(1))
        elif x < 9: P.append([9])
        else: P.append([10])
    C = []
    for _ in range(1 + rng.below(6)):
        x = rng.below(12)
        if x < 5:
            k = rng.choice([0, 1, 2, 3, ecap - 1, ecap, ecap + 1]) if rng.chance(1, 3) else 1 + rng.below(max(1, ecap))
            C.append([4, max(0, k)])
        elif x < 6: C.append([5])
        elif x < 7: C.append([6])
        elif x < 9: C.append([7])
        elif x < 10: C.append([8])
        elif x < 11: C.append([9])
        else: C.append([10])
    return {"id": cid, "cfg": [cap, exp2, kind], "threads": [P, C], "sched": schedule(rng)}


def real_size(size):
    return (size + 7) // 8 * 8 + 8


def gen_ringv_case(rng, cid):
    cap = rng.choice([16, 24, 40, 64])
    exp2 = rng.below(2)
    ecap = ceil2(cap) if exp2 else cap
    off = 0
    P = []
    nrec = 1 + rng.below(7)
    for _ in range(nrec):
        goal = rng.below(6)
        room = ecap - off
        real = None
        if goal == 0 and room >= 16:            # exact fit at the end of the buffer
            real = room
        elif goal == 1 and room - 8 >= 16:      # leave a tail of exactly 8 bytes
            real = room - 8
        elif goal == 2 and room + 8 <= ecap:    # does not fit before the end: tail marker + wrap
            real = min(ecap, room + 8 * (1 + rng.below(3)))
        elif goal == 3:                         # largest records
            real = ecap - 8 * rng.below(2)
        if real is None or real < 16 or real > ecap:
            real = 16 + 8 * rng.below(max(1, (ecap - 16) // 8 + 1))
        size = real - 8 - rng.below(8)          # any size with that real size
        size = max(1, min(size, ecap - 9))
        real = real_size(size)
        P.append([rng.choice([1, 1, 2]), size, rng.below(256)])
        if real > ecap - off:
            off = 0
        off = (off + real) % ecap
    C = [[rng.choice([6, 6, 6, 4])] for _ in range(1 + rng.below(nrec + 3))]
    return {"id": cid, "cfg": [cap, exp2], "threads": [P, C], "sched": schedule(rng, 90)}


# small programs whose interleavings are enumerated completely
DFS_RING = [
    ([2, 1, 0], [[1, 10], [1, 11]], [[4, 1], [4, 1]]),
    ([2, 0, 0], [[1, 10, 11], [2, 12]], [[7], [4, 2]]),
    ([3, 0, 0], [[1, 10, 11], [1, 12, 13]], [[4, 2], [5]]),
    ([4, 1, 0], [[1, 10, 11, 12], [1, 13, 14]], [[4, 3], [6]]),
    ([3, 0, 1], [[2, 10], [3, 11], [2, 12]], [[7], [8], [7]]),
    ([2, 1, 1], [[2, 10], [2, 11], [9]], [[6], [10], [5]]),
    ([5, 0, 0], [[1, 10, 11, 12, 13], [1, 14, 15]], [[4, 2], [4, 4]]),
    ([4, 1, 2], [[1, 10, 11, 12], [1, 13, 14, 15]], [[7], [4, 3]]),
    ([8, 1, 0], [[1, 10, 11, 12, 13, 14], [1, 15, 16, 17, 18]], [[4, 5], [4, 6]]),
    ([3, 1, 0], [[1, 10, 11, 12], [1, 13, 14]], [[4, 3], [4, 2]]),      # exp2 rounds 3 up to 4
    ([2, 0, 0], [[2, 10], [2, 11], [2, 12]], [[5], [5]]),
    ([5, 0, 2], [[1, 10, 11, 12], [1, 13, 14, 15]], [[8], [4, 4]]),
]
# void ring: (cfg, producer, consumer, schedule prefix).  The prefix runs the producer's first back()+push_back()
# alone (begin, A, E, F); all interleavings of the rest are enumerated.
DFS_RINGV = [
    ([16, 1], [[1, 1, 7], [1, 8, 9]], [[6], [6]], [0, 0, 0, 0]),
    ([24, 0], [[1, 8, 1], [1, 5, 2]], [[6], [6]], [0, 0, 0, 0]),           # second record wraps (tail of 8)
    ([40, 0], [[1, 16, 3], [1, 12, 4]], [[6], [6]], [0, 0, 0, 0]),         # wrap, consumer may lag
    ([64, 1], [[1, 48, 5], [1, 9, 6]], [[6], [6]], [0, 0, 0, 0]),          # tail of exactly 8 bytes
    ([64, 0], [[1, 16, 7], [2, 32, 8]], [[4], [6]], [0, 0, 0, 0]),         # exact fit at the end
    ([24, 0], [[1, 3, 9], [1, 15, 10]], [[6], [4], [6]], [0, 0, 0, 0]),
    ([40, 0], [[1, 24, 11], [1, 24, 12]], [[6], [6]], [0, 0, 0, 0]),       # second space test fails while consumer lags
    ([16, 1], [[1, 7, 13], [1, 7, 14]], [[6], [6]], [0, 0, 0, 0]),         # real size == capacity
    ([24, 0], [[1, 8, 15]], [[6], [6]], []),                               # one push against two consumes, from the start
    ([64, 1], [[1, 16, 1], [1, 40, 2]], [[6], [6]], [0, 0, 0, 0]),         # the known finding: back(40) wedged
]


def mk_dfs_cases(templates, tier_thorough):
    out = []
    for i, t in enumerate(templates):
        cfg, P, C = t[0], t[1], t[2]
        out.append({"id": "d%d" % i, "cfg": cfg, "threads": [P, C], "sched": [], "prefix": list(t[3]) if len(t) > 3 else []})
    return out


# model-guided window schedules (lib/conc_windows.py).  The ring has no CAS: the writes are the plain stores that
# publish back_ / front_ (and, void ring, the record headers); the rare paths are the reload of the other side's
# counter when the cached copy says "no room" / "nothing there", and the failing second test after it.  The victim is
# stalled before ANY of its steps (between its load of its own counter and the reload of the other one, between the
# reload and the publishing store), the actor runs exactly through one of its stores or to its end, the victim gets r
# more steps; templates have a set-up prefix run by the producer (ring full / about to wrap) and 2-4 operations per
# thread so that the cached counters are stale in the later operations.
WINDOW_RING = [
    # (cfg, producer set-up, producer, consumer)
    ([2, 0, 0], [],                 [[2, 10], [2, 11], [2, 12]],            [[5], [5], [5]]),
    ([2, 0, 0], [[1, 10, 11]],      [[2, 12], [2, 13]],                     [[5], [6], [5]]),          # full ring: push must reload front_
    ([4, 1, 0], [[1, 10, 11, 12]],  [[1, 13, 14], [1, 15, 16]],             [[4, 2], [4, 3]]),
    ([3, 0, 1], [],                 [[2, 10], [3, 11], [2, 12], [2, 13]],   [[7], [8], [6], [5]]),
    ([2, 0, 0], [],                 [[1, 10, 11], [9], [1, 12]],            [[10], [4, 2], [9]]),
    ([3, 1, 2], [[1, 10, 11, 12, 13]], [[2, 14], [1, 15, 16]],              [[4, 1], [4, 3], [7]]),    # exp2: 3 -> 4, full
    ([5, 0, 0], [[1, 10, 11, 12, 13]], [[1, 14, 15], [1, 16, 17, 18]],      [[4, 2], [4, 4], [4, 3]]),
    ([2, 1, 1], [[2, 10]],          [[2, 11], [2, 12], [2, 13]],            [[8], [7], [7], [5]]),
]
WINDOW_RINGV = [
    ([16, 1], [],             [[1, 1, 7], [1, 8, 9], [1, 3, 2]],    [[6], [6], [6]]),
    ([24, 0], [[1, 8, 1]],    [[1, 5, 2], [1, 4, 3]],               [[6], [6], [6]]),      # second record wraps (tail of 8)
    ([40, 0], [[1, 16, 3]],   [[1, 12, 4], [1, 9, 5]],              [[6], [4], [6]]),
    ([64, 1], [[1, 48, 5]],   [[1, 9, 6], [1, 20, 7]],              [[6], [6], [6]]),      # tail of exactly 8 bytes
    ([64, 0], [[1, 16, 7]],   [[2, 32, 8], [1, 8, 9]],              [[4], [6], [6]]),      # exact fit at the end
    ([40, 0], [[1, 24, 11]],  [[1, 24, 12], [1, 24, 13]],           [[6], [6]]),           # second space test fails while the consumer lags
    ([16, 1], [[1, 7, 13]],   [[1, 7, 14], [1, 7, 15]],             [[6], [6], [6]]),      # real size == capacity
    ([24, 0], [],             [[1, 8, 15]],                         [[6], [6]]),
]


def gen_window_cases(ctx, var, rng, quick):
    wdir = os.path.join(ctx.work, "wprobe_" + var)
    os.makedirs(wdir, exist_ok=True)
    model = VARIANTS[var]["model"]
    tpls = WINDOW_RING if var == "ring" else WINDOW_RINGV
    cases = []
    info = {"templates": len(tpls), "enumerated": 0, "model_probes": 0}
    for ti, (cfg, setup, P, C) in enumerate(tpls):
        threads, sw, inf = conc_windows.windows(model, wdir, cfg, [P, C], setup=setup, kinds=("st",), stall="all",
                                                rs=(0, 1, 2, 3, 5) if quick else (0, 1, 2, 3, 4, 5, 6, 8, 11), tag="w%s%d" % (var[-1], ti))
        info["enumerated"] += len(sw)
        info["model_probes"] += inf["model_probes"]
        if quick:
            sw = conc_windows.subsample(rng, sw, 40)
        for name, sched in sw:
            cases.append({"id": "w%d_%s" % (ti, name), "cfg": cfg, "threads": threads, "sched": sched})
    if not quick and len(cases) > 6000:
        # thorough tier: the full enumeration, up to a budget (a seeded subsample beyond it; 'enumerated' says how many there are)
        cases = conc_windows.subsample(rng, cases, 6000)
        info["thorough_budget"] = 6000
    info["cases"] = len(cases)
    return cases, info


# ------------------------------------------------------------------------------------------------ running

def steps_of(log):
    """thread ids of the scheduler steps of a model log: begin lines and access lines"""
    s = []
    for l in log["lines"]:
        t = l.split(" ")
        if len(t) >= 2 and t[1] != "ev":
            s.append(int(t[0]))
    return s


def enumerate_interleavings(ctx, model, base, tag, limit):
    """All interleavings of the two threads of case `base` (DFS over schedules, driven by the model): returns
    (list of complete schedules, truncated?).  A schedule prefix is completed by 'thread 0 while it is enabled'."""
    PAD = [0] * 80
    done = []
    frontier = [list(base.get("prefix", []))]
    truncated = False
    level = 0
    while frontier:
        cases = [{"id": "%s.%d.%d" % (base["id"], level, k), "cfg": base["cfg"], "threads": base["threads"], "sched": p + PAD}
                 for k, p in enumerate(frontier)]
        cf = os.path.join(ctx.work, tag + "_enum.txt")
        conc_check.write_cases(cf, cases)
        rc, out = vcheck.sh("%s 20000 < %s" % (model, cf), timeout=600)
        logs = conc_check.parse_logs(out)
        nxt = []
        for c, p in zip(cases, frontier):
            lg = logs.get(c["id"])
            if lg is None:
                continue
            s = steps_of(lg)
            done.append(s)
            for j in range(len(p), len(s)):
                if s[j] == 0 and 1 in s[j:]:
                    nxt.append(s[:j] + [1])
        if len(done) + len(nxt) > limit:
            truncated = True
            nxt = nxt[:max(0, limit - len(done))]
        frontier = nxt
        level += 1
    return done, truncated


def op_signatures(lines):
    """per operation: 'name:kind kind ..:result' from a model log"""
    sigs = []
    cur = {}
    for l in lines:
        t = l.split(" ")
        tid = t[0]
        if t[1] == "ev":
            if t[2].startswith("inv_"):
                cur[tid] = [t[2][4:], []]
            elif tid in cur:
                name, acc = cur.pop(tid)
                sigs.append("%s:%s:%s" % (name, ",".join(acc), t[2]))
                if t[2] == "vfront_ok":
                    cur[tid] = ["vpop", []]      # the pop_front() of a consume operation, if any
        elif t[1] != "begin" and tid in cur:
            cur[tid][1].append(t[1] + t[2])
    return sigs


def void_layout_hits(impl_lines, ecap):
    """which layout situations of the void ring a run went through (from the values stored to back_ by thread 0)"""
    hits = set()
    back = 0
    in_op = False
    stores = 0
    for l in impl_lines:
        t = l.split(" ")
        if t[0] != "0" or len(t) < 3:
            continue
        if t[1] == "ev" and t[2] == "inv_vpush" and len(t) >= 4 and t[3].isdigit():
            in_op = True; stores = 0; size = int(t[3])
        elif t[1] == "st" and in_op and len(t) >= 6 and t[5][1:].isdigit():
            v = int(t[5][1:])
            stores += 1
            if v % ecap == 0 and (v - back) != real_size(size):
                hits.add("tail_published")
                if v - back == 8:
                    hits.add("tail_of_8")
            elif v % ecap == 0:
                hits.add("exact_fit_at_end")
            back = v
        elif t[1] == "ev" and t[2] == "vpush_fail":
            in_op = False
        elif t[1] == "ev" and t[2] == "vpush_ok":
            in_op = False
    return hits


def run_variant(ctx, var, cases, tag, nproc=8):
    """model once, implementation in `nproc` concurrent processes (a scheduled run is mostly waiting for baton
    hand-overs, so wall time is far above CPU time)"""
    import subprocess
    v = VARIANTS[var]
    cf = os.path.join(ctx.work, tag + ".txt")
    conc_check.write_cases(cf, cases)
    rc1, out1 = vcheck.sh("%s 20000 < %s" % (v["model"], cf), timeout=900)
    ml = conc_check.parse_logs(out1)
    chunks = [cases[k::nproc] for k in range(nproc)] if len(cases) >= 4 * nproc else [cases]
    procs = []
    for k, ch in enumerate(chunks):
        f = os.path.join(ctx.work, "%s.part%d.txt" % (tag, k))
        conc_check.write_cases(f, ch)
        procs.append(subprocess.Popen([v["impl"], f], stdout=subprocess.PIPE, stderr=subprocess.STDOUT, text=True, errors="replace"))
    il = {}
    for p in procs:
        try:
            out, _ = p.communicate(timeout=900)
        except subprocess.TimeoutExpired:
            p.kill(); out, _ = p.communicate()
        il.update(conc_check.parse_logs(out))
    return ml, il


def analyse(ctx, var, cases, ml, il, st):
    """compare logs, read the monitors; returns first divergence (case, d) or None"""
    first_div = None
    for c in cases:
        m = ml.get(c["id"]); i = il.get(c["id"])
        if i is not None and i["end"] in ("refused", "unsupported"):
            st["refused"] += 1
            continue
        if m is None or i is None:
            st["diverged"] += 1
            first_div = first_div or (c, {"index": -1, "model": "<no output>" if m is None else "ok", "impl": "<no output>" if i is None else "ok", "prefix": []})
            continue
        st["evaluations"] += 1
        st["steps"] += len(i["lines"])
        d = conc_check.compare(m, i)
        st["shapes"].add(hash(tuple(m["lines"])))
        sigs = op_signatures(m["lines"])
        nontrivial = False
        for s in sigs:
            st["branches"][s] = st["branches"].get(s, 0) + 1
            name, acc, res = s.split(":")
            toks = acc.split(",")
            loaded = set(t for t in toks if t.startswith("ld"))
            # a reload of the other side's counter, a failing operation or a tail skip: a path that depends on the other thread
            if (name in ("push", "pop", "front", "vpush", "vfront", "vpop") and len(loaded) >= 2) or res.endswith("fail") or res.endswith("null") or (name == "vfront" and "sto" in acc):
                nontrivial = True
        if nontrivial:
            st["nontrivial"].add(hash(tuple(m["lines"])))
        if var == "ringv":
            ecap = ceil2(c["cfg"][0]) if c["cfg"][1] else c["cfg"][0]
            for h in void_layout_hits(i["lines"], ecap):
                st["layout"][h] = st["layout"].get(h, 0) + 1
        if i["end"] == "hang" or any(x.startswith("monitor hang") for x in i["extra"]):
            # harness/C12/watchdog.h: the case did not end (an operation or the ring's destructor loops for ever)
            st["hangs"] = st.get("hangs", 0) + 1
            ctx.violation("WeakRingBuffer%s: an operation or the destructor of the real ring does not terminate on this program and schedule (harness watchdog; the model terminates)" % ("<void>" if var == "ringv" else "<int>"),
                          {"variant": var, "case": c, "monitor": [x for x in i["extra"] if x.startswith("monitor")], "impl_log": i["lines"]}, signature=None)
        for x in i["extra"]:
            if x.startswith("monitor bad"):
                st["monitor_bad"] += 1
                ctx.violation("WeakRingBuffer%s violates the SPSC FIFO property on the real code (implementation-side monitor)" % ("<void>" if var == "ringv" else "<int>"),
                              {"variant": var, "case": c, "monitor": x[12:], "impl_log": i["lines"]}, signature=None)
            elif x.startswith("monitor note") and "failed although the ring held no record" in x:
                st["empty_fail"] += 1
                if st["empty_fail_case"] is None:
                    st["empty_fail_case"] = {"variant": var, "case": c, "monitor": x, "impl_log": i["lines"]}
        if d is not None:
            st["diverged"] += 1
            if first_div is None:
                first_div = (c, d)
    return first_div


def new_stats():
    return {"evaluations": 0, "steps": 0, "shapes": set(), "nontrivial": set(), "branches": {}, "layout": {}, "diverged": 0,
            "monitor_bad": 0, "refused": 0, "empty_fail": 0, "empty_fail_case": None, "dfs_programs": 0, "dfs_interleavings": 0, "dfs_truncated": 0}


def run(ctx):
    res = vcheck.coq_build(["Properties/Properties_C12.v"])
    ctx.coq_evidence(res)
    for var, v in VARIANTS.items():
        v["model"] = conc_check.build_model(ctx, v["extract"], tag="model_" + v["tag"])
        v["impl"] = vcheck.cxx_build(os.path.join(vcheck.VERIF, v["harness"]), os.path.join(ctx.work, "harness_" + v["tag"]), hook=True, link_cds=False)
    stats = {"ring": new_stats(), "ringv": new_stats()}
    gens = {"ring": gen_ring_case, "ringv": gen_ringv_case}
    divs = {}

    if ctx.replay:
        r = json.load(open(ctx.replay))
        var = r.get("variant", "ring"); c = r["case"]
        ml, il = run_variant(ctx, var, [c], "replay")
        d = analyse(ctx, var, [c], ml, il, stats[var])
        if d is not None and stats[var]["monitor_bad"] == 0:
            ctx.violation("replayed case: step correspondence of %s breaks" % var, {"variant": var, "case": c, "first_divergence": d[1]}, no_input=True)
        ctx.coverage.update({"evaluations": 1, "distinct_nontrivial": 0, "rule": "replay of one case", "samples": [c]})
        return ctx.finish(vcheck.STD_TRUSTED)

    # 1. corpus
    cdir = os.path.join(vcheck.VERIF, "corpus", "C12")
    corpus = {"ring": [], "ringv": []}
    for f in sorted(os.listdir(cdir)) if os.path.isdir(cdir) else []:
        if f.endswith(".json"):
            r = json.load(open(os.path.join(cdir, f)))
            c = r["case"]; c["id"] = "corpus_" + f[:-5]
            corpus[r.get("variant", "ring")].append(c)
    samples = {}
    winfo = {}
    for var in ("ring", "ringv"):
        st = stats[var]
        # 2. generated programs x schedules
        n = (6000 if ctx.thorough() else 800)
        cases = corpus[var] + [gens[var](ctx.rng, "g%d" % i) for i in range(n)]
        samples[var] = cases[len(corpus[var])]
        ml, il = run_variant(ctx, var, cases, var + "_gen")
        d = analyse(ctx, var, cases, ml, il, st)
        # 3. all interleavings of short programs
        templates = DFS_RING if var == "ring" else DFS_RINGV
        if not ctx.thorough():
            templates = templates[:4]
        limit = 8000 if ctx.thorough() else 1000
        dcases = []
        for base in mk_dfs_cases(templates, ctx.thorough()):
            scheds, trunc = enumerate_interleavings(ctx, VARIANTS[var]["model"], base, var, limit)
            st["dfs_programs"] += 1
            st["dfs_interleavings"] += len(scheds)
            st["dfs_truncated"] += 1 if trunc else 0
            for k, s in enumerate(scheds):
                dcases.append({"id": "%s_%d" % (base["id"], k), "cfg": base["cfg"], "threads": base["threads"], "sched": s + [0] * 8})
        ml2, il2 = run_variant(ctx, var, dcases, var + "_dfs")
        d2 = analyse(ctx, var, dcases, ml2, il2, st)
        # 4'. model-guided window schedules
        t_w = os.times()
        wcases, winfo[var] = gen_window_cases(ctx, var, ctx.rng.fork(), not ctx.thorough())
        ml3, il3 = run_variant(ctx, var, wcases, var + "_win")
        before = (st["diverged"], st["monitor_bad"], len(st["nontrivial"]))
        d3 = analyse(ctx, var, wcases, ml3, il3, st)
        t_w2 = os.times()
        paths = {}
        for c in wcases:
            m = ml3.get(c["id"])
            for sg in (op_signatures(m["lines"]) if m else []):
                name, acc, r_ = sg.split(":")
                toks = acc.split(",")
                if len(set(t for t in toks if t.startswith("ld"))) >= 2:
                    paths["reloaded_other_counter"] = paths.get("reloaded_other_counter", 0) + 1
                    if r_.endswith("fail") or r_.endswith("null"):
                        paths["failed_after_reload"] = paths.get("failed_after_reload", 0) + 1
        winfo[var].update({"cpu_s": round((t_w2.user + t_w2.system + t_w2.children_user + t_w2.children_system) - (t_w.user + t_w.system + t_w.children_user + t_w.children_system), 1),
                           "diverged_from_model": st["diverged"] - before[0], "monitor_failures": st["monitor_bad"] - before[1],
                           "operations_on_rare_paths": paths, "failed_cas_events": 0,
                           "note": "the ring has no CAS; the rare paths are the reload of the other side's counter and the failing test after it"})
        ctx.log("%s: %d window cases (%d enumerated), rare paths %s, cpu %.1fs" % (var, len(wcases), winfo[var]["enumerated"], paths, winfo[var]["cpu_s"]))
        divs[var] = d or d2 or d3
        ctx.log("%s: %d generated + %d interleavings of %d programs, diverged %d, monitor_bad %d" % (var, len(cases), len(dcases), st["dfs_programs"], st["diverged"], st["monitor_bad"]))

    # 4. the correspondence broke without the monitor having fired: search for a concrete failure of the property
    for var in ("ring", "ringv"):
        st = stats[var]
        if divs.get(var) is not None and st["monitor_bad"] == 0:
            c, d = divs[var]
            more = [gens[var](ctx.rng, "s%d" % i) for i in range(12000)]
            ml3, il3 = run_variant(ctx, var, more, var + "_search")
            st2 = new_stats()
            analyse(ctx, var, more, ml3, il3, st2)
            if st2["monitor_bad"] == 0:
                ctx.violation("step correspondence between LV.Model.%s and cds/container/weak_ringbuffer.h no longer holds" % ("Ring" if var == "ring" else "RingV"),
                              {"correspondence": "Model/%s.v vs cds::container::WeakRingBuffer%s" % ("Ring" if var == "ring" else "RingV", "<int>" if var == "ring" else "<void>"),
                               "variant": var, "case": c, "first_divergence": d, "searched_cases_without_monitor_failure": len(more)}, no_input=True)
    if not res.ok:
        ctx.violation("Coq obligations of C12 do not check: %s" % (res.failed[:2],), {"theorem": [f[2] for f in res.failed], "errors": res.failed[:3]}, no_input=True)

    # 5. known defect of the void variant (liveness; Properties_C12.v C12_ringv_push_fails_on_empty_refuted): back(size)
    #    fails although the ring holds no record.  Listed in known_findings.json -> KNOWN-FINDING, otherwise VIOLATION.
    ef = stats["ringv"]["empty_fail_case"]
    if ef is not None:
        ctx.violation("WeakRingBuffer<void>::back(size) fails on an empty ring (free space >= real_size but not contiguous at the positions the algorithm uses)", ef, signature=EMPTY_FAIL_SIG)

    def top(d, k=40):
        return dict(sorted(d.items(), key=lambda kv: -kv[1])[:k])
    ctx.coverage.update({
        "evaluations": stats["ring"]["evaluations"] + stats["ringv"]["evaluations"],
        "distinct_nontrivial": len(stats["ring"]["nontrivial"]) + len(stats["ringv"]["nontrivial"]),
        "rule": "program x schedule pairs of the two threads (typed ring: capacities 2,3,4,5,8, Exp2 on/off, dynamic / uninitialized_static / initialized_static buffers, 1-6 operations per thread; void ring: capacities 16,24,40,64, Exp2 on/off, record sizes 1..capacity-9 aimed at exact fit, 8-byte tail, wrap, failing second space test), schedules uniform / bursty / run-then-switch / producer-ahead from one splitmix64 stream, plus ALL interleavings (DFS over schedules, driven by the model) of the short programs listed in checks/C12.py, plus model-guided window schedules (victim stalled before any of its steps, the other thread exactly through one of its publishing stores or to its end; templates with a producer set-up prefix: full ring, wrap, stale cached counters; see window_schedules); distinct = distinct model event logs; non-trivial = some operation reloaded the other thread's counter, failed, or skipped a tail marker",
        "traces_validated_against_impl": stats["ring"]["evaluations"] + stats["ringv"]["evaluations"] - stats["ring"]["diverged"] - stats["ringv"]["diverged"],
        "per_variant": {var: {"evaluations": st["evaluations"], "distinct_event_logs": len(st["shapes"]), "distinct_nontrivial": len(st["nontrivial"]),
                              "impl_steps_compared": st["steps"], "diverged": st["diverged"], "monitor_failures": st["monitor_bad"], "refused_by_harness": st["refused"],
                              "dfs_programs": st["dfs_programs"], "dfs_interleavings": st["dfs_interleavings"], "dfs_truncated_programs": st["dfs_truncated"],
                              "operation_paths": top(st["branches"]), "void_layout_situations": st["layout"],
                              "corpus_cases": len(corpus[var])} for var, st in stats.items()},
        "candidate_finding_void_back_fails_on_empty_ring": stats["ringv"]["empty_fail"],
        "samples": [samples.get("ring"), samples.get("ringv")],
        "window_schedules": winfo,
        "modelled": "WeakRingBuffer<T>: push(arr,n), push(v)/emplace/enqueue_with, pop(arr,n), pop(v)/dequeue, dequeue_with, front, pop_front, size, empty; WeakRingBuffer<void>: back, push_back, push_back(data,size), front, pop_front",
    })
    return ctx.finish(vcheck.STD_TRUSTED + ["hook layer: khizmax_libcds_verif::atomic<T>, baton scheduler, event log (hooks/include)", "ocaml/conc_main.ml event printer"],
                      ["sequential consistency: memory_order arguments are not modelled",
                       "non-atomic buffer accesses are modelled inside the scheduler step of the preceding atomic access (the baton scheduler switches threads only before atomic accesses)",
                       "counters do not wrap: total pushed volume + capacity < 2^64 (hypothesis of every theorem)",
                       "size()/empty(): operand evaluation order of the two loads as compiled by g++ (left operand first)",
                       "void variant run only with capacity a multiple of 8 and calc_real_size(size) <= capacity (anything else writes outside the buffer; the code does not check it)"])
