"""C11 — priority queues conserve items and honour priority order (DESIGN 7, C11).

MSPriorityQueue half (this file):
  * Coq: Properties/Properties_C11.v (mspq_conservation, mspq_push_fails_only_if_full, mspq_sequential_refines_pq,
    the partial phase-linearizability result, the capacity investigation) over LV.Model.MsPq;
  * step correspondence of LV.Model.MsPq with cds::intrusive::MSPriorityQueue AND cds::container::MSPriorityQueue
    (the container only adds an allocation around push/pop: the atomic accesses are the same), capacities 1, 3, 7, 15,
    five trait variants (harness/C11/main.cpp);
  * monitors on the real code's history: conservation (popped + drained = pushed, no duplicate, nothing alien),
    a failed push must have had `capacity` items possibly present, the queue's size() equals what is drained,
    and for every history in which no push overlaps a pop the verified lincheck (BPQueue capacity) must accept.
FCPriorityQueue half: checks/C11fc.py (run_fc), owned by the flat-combining work, called when present.
"""
import os, sys, json, hashlib
import vcheck, conc_check, conc_windows

try:
    import C11fc
except ImportError:
    C11fc = None

VARIANTS = {0: "intrusive/dynamic_buffer", 1: "container/dynamic_buffer", 2: "intrusive/static_buffer",
            3: "container/static_buffer", 4: "container/default traits (sync::spin, backoff::Default)",
            5: "intrusive/bounds-checked buffer of any size, Exp2=false"}
NONPOW2_BUFFERS = [6, 10, 14, 5, 7, 12, 3]    # variant 5: buffer sizes; capacity() must be floor2(size) - 1
CAPS = [1, 3, 7, 15]
STEP_FUEL = 4000        # global step limit of a run (both sides; harness/C11/main.cpp uses the same number)
LOCK_FUEL = 30000       # spin / heapify loop fuel of the model: larger than the step limit, never the first to run out
HEAP_FUEL = 30000
STEPS_PER_OP = 40       # more atomic accesses than one uncontended operation performs at capacity <= 15


# ---------------------------------------------------------------------------------------------------
# generators

def gen_program(rng, kind, cap):
    """-> (threads, npushers).  kind: 'mixed' | 'phase' | 'seq' | 'single'"""
    nid = [0]
    prange = rng.choice([1, 2, 3, 4])          # priorities 0..prange-1: ties are frequent

    def push():
        nid[0] += 1
        return [1, rng.below(prange), nid[0]]

    if kind == "single":
        nops = 2 + rng.below(2 * cap + 6)
        ops = []
        for _ in range(nops):
            ops.append(push() if rng.chance(3, 5) else [2])
        return [ops], 0
    nthreads = 2 + rng.below(3)
    if kind == "phase":
        npush = 1 + rng.below(nthreads - 1)
        threads = []
        # enough pushes to fill small heaps (failed pushes) some of the time
        for t in range(nthreads):
            n = 1 + rng.below(4)
            threads.append([push() for _ in range(n)] if t < npush else [[2] for _ in range(n)])
        return threads, npush
    threads = []
    for t in range(nthreads):
        n = 1 + rng.below(4)
        threads.append([push() if rng.chance(3, 5) else [2] for _ in range(n)])
    return threads, 0


def rand_sched(rng, nthreads, lo=0, hi=None, length=None):
    hi = nthreads if hi is None else hi
    k = rng.below(3)
    n = length if length is not None else 20 + rng.below(160)
    if k == 0:
        return [lo + rng.below(hi - lo) for _ in range(n)]
    if k == 1:       # bursts: a thread stalls while holding locks
        s = []
        while len(s) < n:
            s += [lo + rng.below(hi - lo)] * (1 + rng.below(12))
        return s[:n]
    first = lo + rng.below(hi - lo)     # run one thread to a point, then the others
    return ([first] * (2 + rng.below(25)) + [lo + rng.below(hi - lo) for _ in range(n)])[:max(n, 30)]


def gen_cases(ctx, n, tag="g"):
    rng = ctx.rng
    cases = []
    for i in range(n):
        cap = rng.choice(CAPS) if not rng.chance(1, 3) else rng.choice([1, 3])
        variant = rng.below(5)
        bsz = None
        if rng.chance(1, 8):
            # regression for the fixed finding "mspq-non-power-of-two-buffer-overflow": a buffer whose size is not a
            # power of two; the real queue must use only the complete levels (capacity floor2(size) - 1)
            variant = 5
            bsz = rng.choice(NONPOW2_BUFFERS)
            cap = (1 << (bsz.bit_length() - 1)) - 1
        kind = rng.choice(["mixed", "mixed", "phase", "phase", "seq", "single"])
        threads, npush = gen_program(rng, "mixed" if kind == "seq" else kind, cap)
        nt = len(threads)
        c = {"id": "%s%d" % (tag, i), "cfg": [cap, LOCK_FUEL, HEAP_FUEL, variant] + ([bsz] if bsz else []), "threads": threads, "kind": kind}
        if kind == "mixed":
            c["sched"] = rand_sched(rng, nt)
        elif kind == "single":
            c["sched"] = []
        elif kind == "seq":
            # thread 0 runs alone to its end, then thread 1, ...: a sequential history (nobody ever waits for a lock)
            c["sched"] = [0] * (STEPS_PER_OP * sum(len(t) for t in threads) + nt + 5)
        else:
            # pushers are threads 0..npush-1, poppers the others.  The schedule of the push phase is measured on the
            # model: the pushers alone are run under a random prefix followed by round-robin, and the sequence of
            # thread choices of that run (every entry names a thread that is enabled at that step) is replayed with all
            # threads present; the poppers start only after the last pusher has finished.
            c["npush"] = npush
            c["probe"] = {"id": c["id"], "cfg": c["cfg"], "threads": threads[:npush], "sched": rand_sched(rng, npush)}
            c["tail"] = rand_sched(rng, nt, npush, nt)
            c["sched"] = []
        cases.append(c)
    return cases


def finish_phase_schedules(ctx, model, cases):
    """probe run of the push phase of the phase-structured cases on the model; builds their final schedule"""
    ph = [c for c in cases if c["kind"] == "phase"]
    if not ph:
        return
    cf = os.path.join(ctx.work, "probe.txt")
    conc_check.write_cases(cf, [c["probe"] for c in ph])
    rc, out = vcheck.sh("%s %d < %s" % (model, STEP_FUEL, cf), timeout=600)
    logs = conc_check.parse_logs(out)
    for c in ph:
        m = logs.get(c["id"])
        choices = [int(l.split(" ")[0]) for l in (m["lines"] if m else []) if l.split(" ")[1] != "ev"]
        c["push_phase_steps"] = len(choices)
        c["sched"] = choices + c["tail"]
        del c["probe"]


# ---------------------------------------------------------------------------------------------------
# model-guided window schedules (lib/conc_windows.py).  Writes are the exchanges that take a lock (m_Lock, a heap
# node) and the stores that release one; tags and values are plain fields written inside those steps.
#
# PUSH templates: thread 0 pushes the set-up items, then 2-3 pushers run concurrently under window schedules: the victim
# is stalled right before each of its writes (in particular after it tagged its slot with its thread id and released the
# node: its item is IN FLIGHT), the actor is run to the end of each of its operations, and - when it has to wait for
# the victim's in-flight item, which is what the unchanged code does - for a few more run lengths (a pusher that no
# longer waits uses these steps to swap with the in-flight item and go on); then r victim steps, the others, the rest.
# The insertion slots follow the bit-reversed counter (insertions 1,2,3,4,5,6,7 -> slots 1,2,3,4,6,5,7), so a pusher on
# the same heap path as the 2nd insertion (slot 2) is the 4th or the 6th one; the lower pusher's priority is larger
# than the upper in-flight one, and two more pushes follow so that a stranded item is not the bottom node at the next pop.
# Every such case P (pushers only: the harness' sequential drain must come out in priority order) is run on the real
# code first; its exact sequence of thread choices, followed by a pop-only phase of one more thread, is the case Q: the
# pops start after every push has returned, so the history has no push/pop overlap and the verified lincheck decides it.
# POP templates: thread 0 pushes everything (set-up prefix), then 2-4 poppers run concurrently under window schedules
# (victim stalled before each lock / unlock of its sift-down, actor through its writes): no push overlaps a pop either.
# (capacity, set-up priorities, priorities pushed by each pusher, pops of the final phase (None = all, k = all but k))
WINDOW_PUSH_TEMPLATES = [
    (7,  [7],       [[10], [1, 20, 2, 3]], None),             # slots 2 and 4 (the 2nd and the 4th insertion), 20 > 10 in flight
    (7,  [7],       [[1, 20, 2, 3], [10]], 1),                # the same with the roles of the set-up thread swapped
    (7,  [7],       [[10], [1, 20], [2, 3]], None),           # three pushers
    (7,  [7],       [[10], [1, 0, 2, 20, 3]], None),          # slots 2 and 5 (the 6th insertion)
    (15, [9, 8, 7], [[10], [1, 2, 0, 20, 3, 4]], 2),          # one level down: slots 4 and 8
    (7,  [7],       [[10], [1, 10, 2, 3]], None),             # equal priorities on the path
    (3,  [5],       [[6], [7]], None),                        # both children of the root
    (7,  [1],       [[5], [2, 9, 3, 4], [8]], None),          # the in-flight item itself has to move to the root
    (15, [3],       [[10, 11], [1, 20, 2, 30, 4, 5]], 3),     # two operations of the upper pusher
]
WINDOW_POP_TEMPLATES = [
    (7,  [7, 10, 1, 20, 2, 3],               [1, 1, 1]),      # (capacity, set-up priorities, pops per popper)
    (7,  [5, 5, 5, 4, 4, 6],                 [2, 2]),
    (15, [9, 8, 7, 10, 1, 2, 0, 20, 3, 4],   [2, 1, 2]),
    (3,  [1, 2, 3],                          [1, 1, 1, 1]),
]
# MIXED templates: after the set-up, pushers and poppers run concurrently under window schedules (a pop moves a
# pusher's in-flight item up / takes it as the bottom node; a pusher finds its parent Empty).  Push and pop overlap, so
# these histories are decided by the conservation / failed-push / quiescent-drain-order / crash / hang monitors only.
# (capacity, set-up priorities, operations per thread: a number = push of that priority, "P" = pop)
WINDOW_MIXED_TEMPLATES = [
    (7, [7, 5],       [[10], ["P"], ["P"]]),
    (7, [7, 5, 6],    [[1, 9], ["P", "P"]]),
    (3, [5],          [[6], ["P"], [7]]),
    (7, [7, 5, 6, 4], [[9, 8], ["P"], ["P", 3]]),
    (7, [3],          [[4, "P"], [5, "P"], ["P", 6]]),
]
WINDOW_KINDS = ("xchg", "st")
WINDOW_PER_TEMPLATE = 20
WINDOW_PER_TEMPLATE_THOROUGH = 80      # per template and variant (3 variants); a seeded subsample of the enumeration, whose size is recorded


def gen_window_cases(ctx, model, rng, quick):
    """-> (push-phase cases P, pop-phase cases, info); P cases carry 'pops' (number of pops of the final phase)"""
    wdir = os.path.join(ctx.work, "wprobe")
    os.makedirs(wdir, exist_ok=True)
    info = {"push_templates": len(WINDOW_PUSH_TEMPLATES), "pop_templates": len(WINDOW_POP_TEMPLATES), "enumerated": 0, "model_probes": 0}
    P = []; R = []
    variants = [0, 1, 4]
    for ti, (cap, setup, pushers, pops) in enumerate(WINDOW_PUSH_TEMPLATES):
        for variant in ([(ctx.seed + ti) % 5] if quick else variants):
            cfg = [cap, LOCK_FUEL, HEAP_FUEL, variant]
            nid = [0]
            def item(p):
                nid[0] += 1
                return [1, p, nid[0]]
            su = [item(p) for p in setup]
            ths = [[item(p) for p in th] for th in pushers]
            total = len(setup) + sum(len(th) for th in pushers)
            tag = "wp%d_%d" % (ti, variant)
            threads, sw, inf = conc_windows.windows(model, wdir, cfg, ths, setup=su, kinds=WINDOW_KINDS, actor_stops="ops" if quick else "both",
                                                    actor_extra=(12, 24, 40, 70), rs=(0, 2, 4, 8) if quick else (0, 1, 2, 4, 6, 9),
                                                    third=len(ths) > 2, max_actor=8 if quick else 12, max_stalls=12 if quick else 16, finish_rounds=40, tag=tag, fuel=600)
            info["enumerated"] += len(sw); info["model_probes"] += inf["model_probes"]
            for name, sched in conc_windows.subsample(rng, sw, WINDOW_PER_TEMPLATE if quick else WINDOW_PER_TEMPLATE_THOROUGH):
                P.append({"id": "%s_%s" % (tag, name), "cfg": cfg, "threads": threads, "sched": sched, "kind": "window-push",
                          "pops": total if pops is None else max(1, total - pops)})
    for ti, (cap, setup, pops) in enumerate(WINDOW_POP_TEMPLATES):
        for variant in ([(ctx.seed + ti + 2) % 5] if quick else variants):
            cfg = [cap, LOCK_FUEL, HEAP_FUEL, variant]
            su = [[1, p, k + 1] for k, p in enumerate(setup)]
            ths = [[[2] for _ in range(n)] for n in pops]
            tag = "wq%d_%d" % (ti, variant)
            threads, sw, inf = conc_windows.windows(model, wdir, cfg, ths, setup=su, kinds=WINDOW_KINDS, max_stalls=14, max_actor=10,
                                                    rs=(0, 1, 3, 6) if quick else (0, 1, 2, 3, 4, 6, 9), third=not quick and len(ths) > 2, finish_rounds=40, tag=tag, fuel=600)
            info["enumerated"] += len(sw); info["model_probes"] += inf["model_probes"]
            for name, sched in conc_windows.subsample(rng, sw, WINDOW_PER_TEMPLATE if quick else WINDOW_PER_TEMPLATE_THOROUGH):
                R.append({"id": "%s_%s" % (tag, name), "cfg": cfg, "threads": threads, "sched": sched, "kind": "window-pop"})
    info["mixed_templates"] = len(WINDOW_MIXED_TEMPLATES)
    for ti, (cap, setup, tpl) in enumerate(WINDOW_MIXED_TEMPLATES):
        for variant in ([(ctx.seed + ti + 3) % 5] if quick else variants):
            cfg = [cap, LOCK_FUEL, HEAP_FUEL, variant]
            nid = [0]
            def op(x):
                if x == "P":
                    return [2]
                nid[0] += 1
                return [1, x, nid[0]]
            su = [op(x) for x in setup]
            ths = [[op(x) for x in th] for th in tpl]
            tag = "wm%d_%d" % (ti, variant)
            threads, sw, inf = conc_windows.windows(model, wdir, cfg, ths, setup=su, kinds=WINDOW_KINDS, max_stalls=8 if quick else 12, max_actor=5 if quick else 8, actor_stops="both",
                                                    actor_extra=(12, 30), rs=(0, 3, 6) if quick else (0, 1, 3, 6, 9), third=len(ths) > 2,
                                                    finish_rounds=40, tag=tag, fuel=600)
            info["enumerated"] += len(sw); info["model_probes"] += inf["model_probes"]
            for name, sched in conc_windows.subsample(rng, sw, WINDOW_PER_TEMPLATE if quick else WINDOW_PER_TEMPLATE_THOROUGH):
                R.append({"id": "%s_%s" % (tag, name), "cfg": cfg, "threads": threads, "sched": sched, "kind": "window-mixed"})
    return P, R, info


def pop_phase_cases(ctx, impl, P):
    """runs the push-phase cases on the real code and appends, to the exact sequence of thread choices of each run, a
    pop-only phase of one more thread (it starts after the last push returned: no push overlaps a pop)"""
    cf = os.path.join(ctx.work, "windows_p.txt")
    conc_check.write_cases(cf, P)
    rc, out = vcheck.sh([impl, cf], timeout=900)
    logs = conc_check.parse_logs(out)
    Q = []
    for c in P:
        i = logs.get(c["id"])
        if i is None or i["end"] != "finished":
            continue
        choices = [int(l.split(" ")[0]) for l in i["lines"] if l.split(" ")[1] != "ev"]
        k = len(c["threads"])
        Q.append({"id": c["id"] + "_q", "cfg": c["cfg"], "threads": c["threads"] + [[[2] for _ in range(c["pops"])]],
                  "sched": choices + [k] * (STEPS_PER_OP * c["pops"] + 5), "kind": "window-push-then-pop", "push_phase_steps": len(choices)})
    return Q


def waited_pushes(lines):
    """pushes that went round the 'parent holds another pusher's in-flight item: back off and look again' branch of
    heapify_after_push: the same (parent, item) pair of node locks taken twice in a row by one thread"""
    n = 0
    last = {}; prev = {}
    for l in lines:
        t = l.split(" ")
        if len(t) < 3:
            continue
        tid = t[0]
        if t[1] == "ev":
            if t[2].startswith("inv_"):
                last[tid] = []; prev[tid] = None
            continue
        if t[1] == "xchg" and len(t) >= 4 and t[3] == "1" and tid in last:
            last[tid].append(t[2])
            if len(last[tid]) == 2:
                pair = tuple(last[tid])
                if prev.get(tid) == pair:
                    n += 1; prev[tid] = None
                else:
                    prev[tid] = pair
                last[tid] = []
        elif t[1] == "st" and tid in last and len(last[tid]) == 1:
            last[tid] = []
    return n


# ---------------------------------------------------------------------------------------------------
# history of a log, monitors

def history(lines):
    """-> list of events (tid, 'inv'|'res', op, args) in log order"""
    h = []
    for l in lines:
        t = l.split(" ")
        if len(t) >= 3 and t[1] == "ev":
            tid = int(t[0]); name = t[2]; args = [int(x) for x in t[3:]] if name != "ret_pop_alien" else []
            if name == "inv_push": h.append((tid, "inv", "push", args))
            elif name == "ret_push": h.append((tid, "res", "push", args))
            elif name == "inv_pop": h.append((tid, "inv", "pop", args))
            elif name == "ret_pop": h.append((tid, "res", "pop", args))
            elif name == "ret_pop_alien": h.append((tid, "res", "alien", []))
    return h


def intervals(h):
    """-> list of dict(op, tid, inv, res (index or None), args, ret)"""
    ops = []; open_ = {}
    for k, (tid, what, op, args) in enumerate(h):
        if what == "inv":
            o = {"op": op, "tid": tid, "inv": k, "res": None, "args": args, "ret": None}
            open_[tid] = o; ops.append(o)
        else:
            o = open_.pop(tid, None)
            if o is not None:
                o["res"] = k; o["ret"] = args; o["alien"] = (op == "alien")
    return ops


def push_pop_overlap(ops, hlen):
    """does some push overlap some pop (pending operations extend to the end)?"""
    pushes = [o for o in ops if o["op"] == "push"]; pops = [o for o in ops if o["op"] == "pop"]
    for a in pushes:
        ar = a["res"] if a["res"] is not None else hlen
        for b in pops:
            br = b["res"] if b["res"] is not None else hlen
            if not (ar < b["inv"] or br < a["inv"]):
                return True
    return False


def monitors(c, ilog):
    """property monitors on the real code's history; -> list of (what, detail)"""
    bad = []
    cap = c["cfg"][0]
    h = history(ilog["lines"]); ops = intervals(h)
    finished = ilog["end"] == "finished"
    extra = ilog["extra"]
    for x in extra:
        if x.startswith("monitor hang") or x.startswith("monitor alien") or x.startswith("monitor badcfg"):
            bad.append(("MSPriorityQueue: " + x.split(" ")[1] + " reported by the harness", x))
        if x.startswith("monitor oob"):
            bad.append(("MSPriorityQueue indexes its buffer out of bounds (bounds-checked buffer whose size is not a power of two)", {"monitor": x, "buffer_size": c["cfg"][4] if len(c["cfg"]) > 4 else None}))
        if x.startswith("monitor capacity"):
            bad.append(("MSPriorityQueue::capacity() is not floor2(buffer size) - 1 for a buffer whose size is not a power of two", {"monitor": x, "buffer_size": c["cfg"][4] if len(c["cfg"]) > 4 else None}))
    pushed = []; failed = []; popped = []
    for o in ops:
        if o.get("alien"):
            bad.append(("MSPriorityQueue::pop returned a pointer that was never pushed", o))
        elif o["op"] == "push" and o["ret"] is not None:
            (pushed if o["ret"][0] == 1 else failed).append((o["args"][0], o["args"][1]))
        elif o["op"] == "pop" and o["ret"] is not None and o["ret"][0] == 1:
            popped.append((o["ret"][1], o["ret"][2]))
    drain = None; size = None
    for x in extra:
        t = x.split(" ")
        if x.startswith("monitor drain"):
            v = [int(y) for y in t[2:]]; drain = [(v[2 * k], v[2 * k + 1]) for k in range(len(v) // 2)]
        if x.startswith("monitor size"):
            size = int(t[2])
    allpending = [o for o in ops if o["res"] is None]
    if len(set(popped)) != len(popped):
        bad.append(("MSPriorityQueue: an item was popped twice", {"popped": popped}))
    for it in popped:
        invoked = [(o["args"][0], o["args"][1]) for o in ops if o["op"] == "push"]
        if it not in invoked:
            bad.append(("MSPriorityQueue::pop returned an item that was never pushed", {"item": it}))
        if it in failed:
            bad.append(("MSPriorityQueue::pop returned an item whose push had failed", {"item": it}))
    if finished and not allpending and drain is not None:
        got = sorted(popped + drain)
        if got != sorted(pushed):
            lost = [x for x in pushed if x not in got]
            dup = sorted(set(x for x in got if got.count(x) > 1))
            extra_ = [x for x in got if x not in pushed]
            bad.append(("MSPriorityQueue conservation: popped + drained differs from the successfully pushed items",
                        {"lost": lost, "duplicated": dup, "not_pushed": extra_, "pushed": pushed, "popped": popped, "drained": drain}))
        if size is not None and size != len(drain):
            bad.append(("MSPriorityQueue::size() differs from the number of items that can be popped", {"size": size, "drained": drain}))
        if drain != sorted(drain, key=lambda x: -x[0]):
            bad.append(("MSPriorityQueue: sequential pops of the quiescent queue are not in priority order", {"drained": drain}))
    # a failed push: at most  (#successful pushes invoked before its response) - (#successful pops returned
    # before its invocation) items can have been present at any instant of its interval
    for o in ops:
        if o["op"] == "push" and o["ret"] is not None and o["ret"][0] == 0:
            ub = len([p for p in ops if p["op"] == "push" and p["inv"] < o["res"] and (p["ret"] is None or p["ret"][0] == 1) and p is not o]) \
               - len([p for p in ops if p["op"] == "pop" and p["res"] is not None and p["res"] < o["inv"] and p["ret"][0] == 1])
            if ub < cap:
                bad.append(("MSPriorityQueue::push failed although fewer than capacity items can have been present",
                            {"capacity": cap, "upper_bound_present": ub, "push": o["args"]}))
    return bad, h, ops


def lin_text(h):
    out = []
    for (tid, what, op, args) in h:
        if what == "inv":
            out.append("inv %d push %d" % (tid, args[0]) if op == "push" else "inv %d pop" % tid)
        elif op == "push":
            out.append("res %d %s" % (tid, "true" if args[0] == 1 else "false"))
        elif op == "pop":
            out.append("res %d %s" % (tid, ("some %d" % args[1]) if args[0] == 1 else "none"))
        else:
            out.append("res %d some -999999" % tid)
    return "\n".join(out)


def build_lincheck(ctx):
    d = os.path.join(ctx.work, "lin")
    os.makedirs(d, exist_ok=True)
    drv = os.path.join(vcheck.VERIF, "ocaml", "lincheck_main.ml")
    key = vcheck.file_hash([os.path.join(vcheck.COQ, "Extract", "Extract_Lin.v"), drv,
                            os.path.join(vcheck.COQ, "Base", "Lin.v"), os.path.join(vcheck.COQ, "Spec", "Specs.v")])
    exe = os.path.join(d, "lincheck"); stamp = exe + ".key"
    if os.path.exists(exe) and os.path.exists(stamp) and open(stamp).read() == key:
        return exe
    vcheck.coq_makefile()
    rc, out = vcheck.sh(["make", "-j%d" % vcheck.NCPU, "Base/Lin.vo", "Spec/Specs.vo"], cwd=vcheck.COQ, timeout=900)
    if rc != 0:
        raise vcheck.BuildError("Lin/Specs do not build:\n" + out[-2000:])
    rc, out = vcheck.extract("Extract_Lin.v", d)
    if rc != 0:
        raise vcheck.BuildError("extraction of lincheck failed:\n" + out[-2000:])
    rc, out = vcheck.ocaml_build(d, ["lin.mli", "lin.ml", drv], exe)
    if rc != 0:
        raise vcheck.BuildError("lincheck does not build:\n" + out[-2000:])
    open(stamp, "w").write(key)
    return exe


def run_lincheck(ctx, exe, items):
    """items: list of (case, history) -> list of verdict strings; grouped by capacity"""
    verdict = {}
    by_cap = {}
    for c, h in items:
        by_cap.setdefault(c["cfg"][0], []).append((c, h))
    for cap, lst in by_cap.items():
        txt = "\n---\n".join(lin_text(h) if h else "# empty" for _, h in lst) + "\n---\n"
        f = os.path.join(ctx.work, "lin_%d.txt" % cap)
        open(f, "w").write(txt)
        rc, out = vcheck.sh("%s bpqueue %d < %s" % (exe, cap, f), timeout=900)
        vs = [l.strip() for l in out.split("\n") if l.strip()]
        if len(vs) < len(lst):
            raise vcheck.BuildError("lincheck produced %d verdicts for %d histories: %s" % (len(vs), len(lst), out[-500:]))
        for (c, _), v in zip(lst, vs):
            verdict[c["id"]] = v
    return verdict


# ---------------------------------------------------------------------------------------------------

def strip_ghost(mlog):
    m = dict(mlog)
    m["lines"] = [l for l in mlog["lines"] if " ev g_" not in l]
    return m


def public_case(c):
    return {k: c[k] for k in ("id", "cfg", "threads", "sched")}


def evaluate(ctx, model, impl, lin, cases, tag, stats, keep=None):
    """run cases on both sides; returns (first divergence or None, list of (what, case, detail))"""
    rc1, mlog, rc2, ilog, raw = conc_check.run_both(ctx, model, impl, cases, tag=tag, fuel=STEP_FUEL)
    if os.environ.get("VERIF_VERBOSE"): ctx.log("%s: %d cases run on model and implementation" % (tag, len(cases)))
    found = []; first_div = None; linq = []
    hang = None
    for l in raw.split("\n"):
        if l.startswith("monitor hang"):
            hang = l.split(" ")[2] if len(l.split(" ")) > 2 else "?"
    crashed = None
    if rc2 not in (0, 3):
        # the harness died (signal, abort): the first case without output is the one that killed it
        for c in cases:
            if c["id"] not in ilog or ilog[c["id"]]["end"] is None:
                crashed = c["id"]
                found.append(("MSPriorityQueue: the real code crashes (harness exit status %d) on this case" % rc2, c, {"exit_status": rc2}))
                stats["crash"] = stats.get("crash", 0) + 1
                break
    for c in cases:
        m = mlog.get(c["id"]); i = ilog.get(c["id"])
        if crashed is not None and (i is None or i["end"] is None):
            continue    # not run (or cut short) because the harness died
        if hang == c["id"]:
            found.append(("MSPriorityQueue: the run does not terminate (a lock is never released or the heap is corrupted)", c, {"hang": True}))
            stats["hang"] = stats.get("hang", 0) + 1
            continue
        if m is None or i is None:
            if hang is None:
                stats["diverged"] += 1
                first_div = first_div or (c, {"index": -1, "model": "<no output>" if m is None else "ok", "impl": "<no output>" if i is None else "ok", "prefix": []})
            continue    # cases after a hang were not run
        stats["ran"] += 1
        mg = strip_ghost(m)
        stats["steps"] += len(i["lines"])
        d = conc_check.compare(mg, i)
        if c["cfg"][3] == 5:
            stats["nonpow2"] = stats.get("nonpow2", 0) + 1
        if d is not None:
            stats["diverged"] += 1
            first_div = first_div or (c, d)
        bad, h, ops = monitors(c, i)
        for what, detail in bad:
            found.append((what, c, detail))
        if keep is not None:
            keep["pushes_that_waited_for_an_in_flight_item"] = keep.get("pushes_that_waited_for_an_in_flight_item", 0) + waited_pushes(i["lines"])
        key = hashlib.sha256("\n".join(mg["lines"]).encode()).hexdigest()
        stats["shapes"].add(key)
        spun = any(l.split(" ")[1] == "ld" for l in mg["lines"])
        if spun:
            stats["contended"].add(key)
        for l in m["lines"]:
            if " ev g_full" in l: stats["push_full"] += 1
            if " ev ub_" in l or " ev stopped" in l: stats["model_stopped"] += 1
        for o in ops:
            stats["ops"][o["op"]] = stats["ops"].get(o["op"], 0) + 1
            if o["op"] == "pop" and o["ret"] is not None and o["ret"][0] == 0: stats["pop_empty"] += 1
        stats["by_cap"][c["cfg"][0]] = stats["by_cap"].get(c["cfg"][0], 0) + 1
        stats["by_variant"][VARIANTS[c["cfg"][3]]] = stats["by_variant"].get(VARIANTS[c["cfg"][3]], 0) + 1
        stats["by_kind"][c.get("kind", "?")] = stats["by_kind"].get(c.get("kind", "?"), 0) + 1
        prios = [o["args"][0] for o in ops if o["op"] == "push"]
        if len(set(prios)) < len(prios): stats["with_equal_priorities"] += 1
        if i["end"] == "finished" and not push_pop_overlap(ops, len(h)):
            linq.append((c, h))
            if len(set(o["tid"] for o in ops)) > 1 and any(
                    a["tid"] != b["tid"] and not (a["res"] < b["inv"] or b["res"] < a["inv"])
                    for a in ops for b in ops if a is not b and a["res"] is not None and b["res"] is not None):
                stats["lin_concurrent"] += 1
        else:
            stats["overlapping_histories"] += 1
    if os.environ.get("VERIF_VERBOSE"): ctx.log("%s: logs compared, monitors done" % tag)
    if linq:
        verdict = run_lincheck(ctx, lin, linq)
        if os.environ.get("VERIF_VERBOSE"): ctx.log("%s: lincheck done (%d histories)" % (tag, len(linq)))
        for c, h in linq:
            v = verdict.get(c["id"])
            stats["lincheck"][v] = stats["lincheck"].get(v, 0) + 1
            if v != "OK":
                found.append(("MSPriorityQueue: a history in which no push overlaps a pop is not linearizable to the bounded max-priority queue (verified lincheck, BPQueue capacity): %s" % v,
                              c, {"capacity": c["cfg"][0], "history": lin_text(h).split("\n")}))
    return first_div, found


def new_stats():
    return {"ran": 0, "steps": 0, "diverged": 0, "shapes": set(), "contended": set(), "push_full": 0, "model_stopped": 0,
            "ops": {}, "pop_empty": 0, "by_cap": {}, "by_variant": {}, "by_kind": {}, "with_equal_priorities": 0,
            "lin_concurrent": 0, "overlapping_histories": 0, "lincheck": {}}


def report_found(ctx, found):
    # the smallest failing case of each kind becomes the replay
    found = sorted(found, key=lambda f: (sum(len(t) for t in f[1]["threads"]), len(f[1]["threads"]), len(f[1]["sched"])))
    for what, c, detail in found:
        ctx.violation(what, {"case": public_case(c), "kind": c.get("kind"), "variant": VARIANTS.get(c["cfg"][3]), "detail": detail})


def run(ctx):
    props = ["Properties/Properties_C11.v"]
    # Properties_C11 cites the equality of the model's counter with the GENERATED translation of
    # cds/details/bit_reverse_counter.h (Gen_brc, shared with C26): regenerate it from the tree under test first
    rc_g, out_g = vcheck.sh([sys.executable, os.path.join(vcheck.VERIF, "tools", "cxx2v", "gen_all.py")], timeout=600,
                            env={"CXX2V_UNITS": os.path.join(vcheck.VERIF, "tools", "cxx2v", "units_C26.json"), "VERIF_REPO": vcheck.REPO})
    gen_info = {"cmd": "CXX2V_UNITS=tools/cxx2v/units_C26.json python3 tools/cxx2v/gen_all.py", "rc": rc_g, "out": out_g.strip()[-300:]}
    res = vcheck.coq_build(props)
    ctx.coq_evidence(res)
    model = conc_check.build_model(ctx, "Extract_MsPq.v")
    impl = vcheck.cxx_build(os.path.join(vcheck.VERIF, "harness/C11/main.cpp"), os.path.join(ctx.work, "harness"), hook=True, link_cds=False)
    lin = build_lincheck(ctx)
    stats = new_stats()
    if os.environ.get("VERIF_VERBOSE"): ctx.log("coq obligations, model, harness and lincheck built")

    if ctx.replay:
        rep = json.load(open(ctx.replay))
        c = rep.get("case")
        if c is None:
            ctx.log("replay file carries no case (a proof obligation or the correspondence itself was reported)")
            return ctx.finish(vcheck.STD_TRUSTED)
        c = dict(c); c.setdefault("kind", rep.get("kind", "replay"))
        div, found = evaluate(ctx, model, impl, lin, [c], "replay", stats)
        report_found(ctx, found)
        if div is not None and not found:
            ctx.violation("step correspondence between LV.Model.MsPq and cds/intrusive/mspriority_queue.h does not hold on the replayed case",
                          {"case": public_case(c), "first_divergence": div[1]}, no_input=True)
        ctx.coverage.update({"evaluations": 1, "replayed": ctx.replay})
        return ctx.finish(vcheck.STD_TRUSTED)

    n = 6000 if ctx.thorough() else 1400
    cases = []
    cdir = os.path.join(vcheck.VERIF, "corpus", "C11")
    for f in sorted(os.listdir(cdir)) if os.path.isdir(cdir) else []:
        if f.endswith(".json"):
            c = json.load(open(os.path.join(cdir, f)))
            c.setdefault("kind", "corpus")
            cases.append(c)
    ncorpus = len(cases)
    gen = gen_cases(ctx, n)
    finish_phase_schedules(ctx, model, gen)
    cases += gen
    first_div, found = evaluate(ctx, model, impl, lin, cases, "cases", stats)
    # model-guided window schedules: push-phase cases P, the same followed by a pop-only phase (Q), pop-phase cases
    t_w = os.times()
    wP, wR, winfo = gen_window_cases(ctx, model, ctx.rng.fork(), not ctx.thorough())
    wQ = pop_phase_cases(ctx, impl, wP)
    wcases = wP + wQ + wR
    wstats = new_stats()
    div_w, found_w = evaluate(ctx, model, impl, lin, wcases, "windows", wstats, keep=winfo)
    t_w2 = os.times()
    winfo.update({"cases": len(wcases), "push_phase_cases": len(wP), "push_then_pop_cases": len(wQ), "pop_phase_and_mixed_cases": len(wR),
                  "cpu_s": round((t_w2.user + t_w2.system + t_w2.children_user + t_w2.children_system) - (t_w.user + t_w.system + t_w.children_user + t_w.children_system), 1),
                  "ran": wstats["ran"], "diverged_from_model": wstats["diverged"], "rejected_by_monitors_or_lincheck": len(found_w),
                  "cases_with_a_lock_found_taken": len(wstats["contended"]), "lincheck": wstats["lincheck"],
                  "histories_with_push_pop_overlap": wstats["overlapping_histories"], "failed_cas_events": 0,
                  "note": "MSPriorityQueue has no CAS: the rare paths are a lock found taken (TATAS load) and a pusher waiting for another pusher's in-flight item"})
    ctx.log("window schedules: %d cases (%d enumerated; %d push-phase, %d push-then-pop, %d pop-phase / mixed), %d with a lock found taken, %d pushes waited for an in-flight item, lincheck %s, %d rejected, %d diverged, cpu %.1fs" % (
        len(wcases), winfo["enumerated"], len(wP), len(wQ), len(wR), len(wstats["contended"]), winfo.get("pushes_that_waited_for_an_in_flight_item", 0),
        wstats["lincheck"], len(found_w), wstats["diverged"], winfo["cpu_s"]))
    for k_ in ("ran", "steps", "diverged", "push_full", "model_stopped", "pop_empty", "with_equal_priorities", "lin_concurrent", "overlapping_histories"):
        stats[k_] += wstats[k_]
    stats["shapes"] |= wstats["shapes"]; stats["contended"] |= wstats["contended"]
    for k_ in ("ops", "by_cap", "by_variant", "by_kind", "lincheck"):
        for a_, b_ in wstats[k_].items():
            stats[k_][a_] = stats[k_].get(a_, 0) + b_
    for k_ in ("crash", "hang", "nonpow2"):
        if k_ in wstats:
            stats[k_] = stats.get(k_, 0) + wstats[k_]
    cases += wcases
    first_div = first_div or div_w
    found += found_w
    report_found(ctx, found)
    if first_div is not None and not found:
        # the correspondence broke and no monitor fired: enlarge the search for a concrete failure
        more = gen_cases(ctx, 5000, tag="s")
        finish_phase_schedules(ctx, model, more)
        st2 = new_stats()
        _, found2 = evaluate(ctx, model, impl, lin, more, "search", st2)
        report_found(ctx, found2[:1])
        if not found2:
            c, d = first_div
            ctx.violation("step correspondence between LV.Model.MsPq and cds::intrusive::MSPriorityQueue (cds/intrusive/mspriority_queue.h, cds/details/bit_reverse_counter.h) no longer holds",
                          {"correspondence": "Model/MsPq.v vs MSPriorityQueue push/pop/heapify_after_push/heapify_after_pop", "case": public_case(c),
                           "variant": VARIANTS.get(c["cfg"][3]), "first_divergence": d, "search": "monitors over %d further cases found nothing" % len(more)}, no_input=True)
    if not res.ok:
        ctx.violation("Coq obligations of C11 do not check: %s" % (res.failed[:2],), {"theorem": [f[2] for f in res.failed], "errors": res.failed[:3]}, no_input=True)
    coqchk = None
    if ctx.thorough() and res.ok:
        rc_c, out_c = vcheck.coqchk("LV.Properties.Properties_C11")
        coqchk = {"cmd": "coqchk -o -silent -Q . LV LV.Properties.Properties_C11", "rc": rc_c, "axioms_none": "* Axioms: <none>" in out_c}
        if rc_c != 0 or not coqchk["axioms_none"]:
            ctx.violation("coqchk rejects Properties_C11 or reports axioms", {"output": out_c[-1500:]}, no_input=True)

    # the real code under AddressSanitizer (plain single thread, no hook): buffers whose size is not a power of two
    # (regression for the fixed finding mspq-non-power-of-two-buffer-overflow)
    asan = {"cmd": "g++ -O1 -g -DNDEBUG -fsanitize=address harness/C11/asan_cap5.cpp; asan_cap5 <buffer size> <pushes>", "runs": []}
    asan_exe = os.path.join(ctx.work, "asan_cap5")
    rc_a, out_a = vcheck.sh(["g++", vcheck.CXXSTD, "-O1", "-g", "-DNDEBUG", "-fsanitize=address", "-fno-omit-frame-pointer", "-w", "-I" + vcheck.REPO,
                             os.path.join(vcheck.VERIF, "harness/C11/asan_cap5.cpp"), "-pthread", "-o", asan_exe], timeout=600)
    if rc_a != 0:
        raise vcheck.BuildError("harness/C11/asan_cap5.cpp does not build:\n" + out_a[-2000:])
    for bsz, npush in ((6, 5), (10, 9), (14, 13), (7, 6), (5, 4)):
        rc_r, out_r = vcheck.sh([asan_exe, str(bsz), str(npush)], timeout=120)
        bad_a = "AddressSanitizer" in out_r or rc_r != 0
        asan["runs"].append({"buffer": bsz, "pushes": npush, "ok": not bad_a})
        if bad_a:
            ctx.violation("MSPriorityQueue with a buffer whose size is not a power of two: AddressSanitizer reports an error (or the run fails)",
                          {"input": {"buffer_size": bsz, "pushes": npush, "program": "harness/C11/asan_cap5.cpp"}, "output": out_r[-1500:]})
    if os.environ.get("VERIF_VERBOSE"): ctx.log("violations reported; writing evidence")
    fc_ran = False; fc_stats = None
    if C11fc is not None and hasattr(C11fc, "run_fc"):
        fc_stats = C11fc.run_fc(ctx)       # reports its own violations through ctx
        fc_ran = True
        if os.environ.get("VERIF_VERBOSE"): ctx.log("FCPriorityQueue half (checks/C11fc.py) done")

    ctx.coverage.update({
        "evaluations": len(cases), "distinct_nontrivial": len(stats["contended"]),
        "rule": "program x schedule pairs on MSPriorityQueue (1-4 threads, 1-4 push/pop operations each [single-thread programs up to 2*cap+7], "
                "capacities 1,3,7,15, priorities from 0..k-1 with k in 1..4 so equal priorities are frequent; schedules uniform / bursty / run-one-then-switch, "
                "sequential, and phase-structured [pushers run to completion, then poppers]) plus model-guided window schedules (templates: set-up pushes, 2-3 concurrent pushers on one heap path with the lower priority larger than the upper in-flight one, then a pop-only phase; concurrent poppers after a push-only set-up; see window_schedules); distinct = distinct model event logs; "
                "non-trivial = some thread found a lock taken and spun (load in the TATAS loop)",
        "distinct_event_logs": len(stats["shapes"]), "impl_steps_compared": stats["steps"], "diverged": stats["diverged"],
        "traces_validated_against_impl": stats["ran"] - stats["diverged"], "corpus_cases": ncorpus,
        "of_which_non_power_of_two_bounds_checked_buffers": stats.get("nonpow2", 0),
        "operations": stats["ops"], "push_failed_full(model ghost events)": stats["push_full"], "pop_empty": stats["pop_empty"],
        "model_threads_stopped(fuel/ub)": stats["model_stopped"],
        "by_capacity": stats["by_cap"], "by_variant": stats["by_variant"], "by_kind": stats["by_kind"],
        "cases_with_equal_priorities": stats["with_equal_priorities"],
        "histories_without_push_pop_overlap_decided_by_lincheck": stats["lincheck"],
        "of_which_with_concurrent_operations": stats["lin_concurrent"],
        "histories_with_push_pop_overlap(conservation only)": stats["overlapping_histories"],
        "samples": [public_case(c) for c in cases[ncorpus:ncorpus + 2]] + [public_case(c) for c in (wQ[:1] + wR[:1])],
        "window_schedules": winfo,
        "modelled": "cds::intrusive::MSPriorityQueue push/pop/heapify_after_push/heapify_after_pop + bit_reverse_counter inc/dec; "
                    "cds::container::MSPriorityQueue runs the same atomic accesses (checked by the same correspondence)",
        "fc_part_ran": fc_ran, "fc": fc_stats,
        "gen_brc_regenerated": gen_info, "asan_non_power_of_two_buffers": asan, "coqchk(thorough tier)": coqchk,
        "fc_part": "checks/C11fc.py run_fc(ctx)" if fc_ran else "checks/C11fc.py not present: the FCPriorityQueue half of C11 was NOT checked in this run",
    })
    return ctx.finish(vcheck.STD_TRUSTED + ["hook layer: khizmax_libcds_verif::atomic<T>, baton scheduler, event log (hooks/include)",
                                            "ocaml/conc_main.ml event printer; ocaml/lincheck_main.ml parser",
                                            "checks/C11.py history extraction and conservation / capacity monitors"],
                      ["sequential consistency: memory_order arguments are not modelled",
                       "tags, value pointers and the item counter are plain fields: their accesses are attributed to the step of the preceding atomic access",
                       "buffers with Exp2 = true only (capacity + 1 a power of two); other capacities: see Properties_C11 (mspq_unsafe_capacities)",
                       "phase-concurrent linearizability is decided per history by lincheck on the implementation, proved in Coq only for the parts listed in Properties_C11"])
