"""Helpers shared by the flat-combining checks (C23, C10, C11fc): trace monitor, schedule generators,
batch runner, case minimiser, lincheck driver."""
import os, re, json
import vcheck, conc_check

BOOST_LIBS = ["-lboost_thread", "-lboost_system"]


def have_boost():
    return os.path.exists("/usr/include/boost/thread/tss.hpp")


def have_boost_deque():
    return os.path.exists("/usr/include/boost/container/deque.hpp")


# ---------------------------------------------------------------------------------------------------------
# the trace predicate of Properties_C23 (fc_trace_ok), re-implemented for logs of the real code

def fc_monitor(lines, unique_args=True):
    """First violation of: lock/unlock alternate; exec and free only by the lock holder; per requester
    inv -> exec -> ret with the response read equal to the response written; (counting container with
    unique request ids) every request executed once and the counter returned is 1.
    Returns None if the log is fine, else (kind of violation, detail)."""
    holder = None
    st = {}
    nexec = {}
    for k, l in enumerate(lines):
        t = l.split(" ")
        if len(t) < 3 or t[1] != "ev":
            continue
        tid = int(t[0]); name = t[2]; a = t[3:]
        if name == "lock":
            if holder is not None:
                return ("a thread acquires the combiner lock while another thread holds it", "log line %d: thread %d, holder %d" % (k, tid, holder))
            holder = tid
        elif name == "unlock":
            if holder != tid:
                return ("a thread releases the combiner lock it does not hold", "log line %d: thread %d" % (k, tid))
            holder = None
        elif name == "inv":
            if st.get(tid) is not None:
                return ("a thread invokes while its previous request is outstanding", "log line %d: thread %d" % (k, tid))
            st[tid] = ("pending", a[0], a[1])
        elif name == "exec":
            if holder != tid:
                return ("a request is executed by a thread that does not hold the combiner lock", "log line %d: thread %d, holder %s" % (k, tid, holder))
            o = int(a[0])
            s = st.get(o)
            if s is None or s[0] != "pending" or s[1] != a[1] or s[2] != a[2]:
                return ("a request is executed while it is not pending (executed twice, after its response was stored, or never published)", "log line %d: request (%s) of thread %d, requester state %s" % (k, " ".join(a[1:3]), o, s))
            st[o] = ("done", a[3:])
            nexec[a[2]] = nexec.get(a[2], 0) + 1
            if unique_args and (nexec[a[2]] != 1 or a[3:] != ["1"]):
                return ("a request is executed more than once", "log line %d: request id %s executed %d times (counter %s)" % (k, a[2], nexec[a[2]], a[3:]))
        elif name == "ret":
            s = st.get(tid)
            if s is None or s[0] != "done":
                return ("a requester returns although its request was not executed", "log line %d: thread %d, state %s" % (k, tid, s))
            if s[1] != a:
                return ("a requester returns a response different from the one the combiner wrote", "log line %d: thread %d returns %s, combiner wrote %s" % (k, tid, a, s[1]))
            st[tid] = None
        elif name == "free":
            if holder != tid:
                return ("a publication record is freed by a thread that does not hold the combiner lock", "log line %d: thread %d" % (k, tid))
    return None


def monitor_extra(extra):
    """'monitor k v' lines -> dict"""
    d = {}
    for x in extra:
        t = x.split()
        if len(t) >= 3 and t[0] == "monitor":
            try:
                d[t[1]] = int(t[2])
            except ValueError:
                d[t[1]] = t[2]
    return d


# ---------------------------------------------------------------------------------------------------------
# schedules

def gen_sched(rng, nthreads, length=260):
    kind = rng.below(4)
    if kind == 0:       # uniform
        return [rng.below(nthreads) for _ in range(20 + rng.below(length))], "uniform"
    if kind == 1:       # bursty
        s = []
        while len(s) < length:
            s += [rng.below(nthreads)] * (1 + rng.below(30))
        return s, "bursty"
    if kind == 2:       # one thread runs to a chosen step, a second one runs to a chosen step, then the first again...
        s = []
        a = rng.below(nthreads); b = (a + 1 + rng.below(max(1, nthreads - 1))) % nthreads
        for _ in range(2 + rng.below(4)):
            s += [a] * (8 + rng.below(45))
            s += [b] * (1 + rng.below(20))
        s += [rng.below(nthreads) for _ in range(40)]
        return s, "run-then-switch"
    # PCT-like: priorities with few change points
    prio = list(range(nthreads))
    for i in range(nthreads - 1, 0, -1):
        j = rng.below(i + 1); prio[i], prio[j] = prio[j], prio[i]
    s = []
    for _ in range(1 + rng.below(4)):
        s += [prio[0]] * (5 + rng.below(60))
        prio = prio[1:] + prio[:1]
    return s, "pct"


# ---------------------------------------------------------------------------------------------------------
# running

def run_impl(ctx, exe, cases, tag, timeout=900, env=None):
    cf = os.path.join(ctx.work, tag + ".txt")
    conc_check.write_cases(cf, cases)
    rc, out = vcheck.sh([exe, cf], timeout=timeout, env=env)
    return rc, conc_check.parse_logs(out), out


def run_par(exe_args, cases, workdir, tag, nproc=8, timeout=1200, env=None, stdin_mode=False):
    """Run `exe_args + [casefile]` (or with the case file on stdin) on chunks of the cases in parallel processes;
    returns the concatenated output (chunk order)."""
    import subprocess
    nproc = max(1, min(nproc, vcheck.NCPU, (len(cases) + 19) // 20))
    chunks = [cases[k::nproc] for k in range(nproc)]
    procs = []
    e = dict(os.environ)
    if env:
        e.update(env)
    for k, ch in enumerate(chunks):
        cf = os.path.join(workdir, "%s.%d.txt" % (tag, k))
        conc_check.write_cases(cf, ch)
        if stdin_mode:
            procs.append(subprocess.Popen(exe_args, stdin=open(cf), stdout=subprocess.PIPE, stderr=subprocess.STDOUT, text=True, errors="replace", env=e))
        else:
            procs.append(subprocess.Popen(exe_args + [cf], stdout=subprocess.PIPE, stderr=subprocess.STDOUT, text=True, errors="replace", env=e))
    import time
    deadline = time.time() + timeout
    outs = []
    for p in procs:
        try:
            o, _ = p.communicate(timeout=max(1.0, deadline - time.time()))
        except subprocess.TimeoutExpired:
            p.kill(); o, _ = p.communicate(); o += "\n[timeout]"
        outs.append(o)
    return "\n".join(outs)


def run_both_par(ctx, model_exe, impl_exe, cases, tag="cases", timeout=420, fuel=20000, nproc=8):
    """like conc_check.run_both, the implementation runs in parallel processes.  A case the implementation did
    not finish (crash, or no termination before the deadline) has no entry in the implementation's logs."""
    o1 = run_par([model_exe, str(fuel)], cases, ctx.work, tag + "_m", nproc=nproc, timeout=timeout, stdin_mode=True)
    o2 = run_par([impl_exe], cases, ctx.work, tag + "_i", nproc=nproc, timeout=timeout)
    return 0, conc_check.parse_logs(o1), 0, conc_check.parse_logs(o2), o2


def first_unfinished(cases, ilog, nproc=8):
    """the first case of each chunk (same chunking as run_par) without output = where the implementation crashed or hung"""
    nproc = max(1, min(nproc, vcheck.NCPU, (len(cases) + 19) // 20))
    res = []
    for k in range(nproc):
        for c in cases[k::nproc]:
            if c["id"] not in ilog:
                res.append(c)
                break
    return res


def split_model_uaf(mlog):
    """model-only 'uaf' / 'lost' marker lines are removed before the comparison; returns the number of uaf markers
    (the number of lost markers is left in mlog['lost'])"""
    n = sum(1 for l in mlog["lines"] if l.endswith(" ev uaf"))
    k = sum(1 for l in mlog["lines"] if l.endswith(" ev lost"))
    if n or k:
        mlog["lines"] = [l for l in mlog["lines"] if not (l.endswith(" ev uaf") or l.endswith(" ev lost"))]
    mlog["lost"] = mlog.get("lost", 0) + k
    return n


def minimise(case, fails, rounds=8):
    """Greedy: drop one operation / cut the schedule while fails(list of variants) -> list of bools says it still fails."""
    cur = case
    for _ in range(rounds):
        variants = []
        for t, ops in enumerate(cur["threads"]):
            for i in range(len(ops)):
                v = json.loads(json.dumps(cur))
                del v["threads"][t][i]
                variants.append(v)
        for t in range(len(cur["threads"])):
            if len(cur["threads"]) > 1 and not cur["threads"][t]:
                continue
        n = len(cur["sched"])
        for k in (n // 2, (3 * n) // 4, n - 8, n - 1):
            if 0 <= k < n:
                v = json.loads(json.dumps(cur)); v["sched"] = v["sched"][:k]
                variants.append(v)
        if not variants:
            break
        for j, v in enumerate(variants):
            v["id"] = "m%d" % j
        res = fails(variants)
        best = None
        for v, r in zip(variants, res):
            if r:
                size = sum(len(o) for o in v["threads"]) * 1000 + len(v["sched"])
                if best is None or size < best[0]:
                    best = (size, v)
        if best is None:
            break
        cur = best[1]
    cur = dict(cur); cur["id"] = case["id"] + "-min"
    return cur


# ---------------------------------------------------------------------------------------------------------
# verified lincheck (extracted from LV.Base.Lin, driver ocaml/lincheck_main.ml)

def build_lincheck(ctx):
    d = os.path.join(vcheck.WORK, "lin")
    os.makedirs(d, exist_ok=True)
    exe = os.path.join(d, "lincheck")
    key = vcheck.file_hash([os.path.join(vcheck.COQ, "Extract", "Extract_Lin.v"), os.path.join(vcheck.VERIF, "ocaml", "lincheck_main.ml"),
                            os.path.join(vcheck.COQ, "Base", "Lin.v"), os.path.join(vcheck.COQ, "Spec", "Specs.v")])
    stamp = exe + ".key"
    if os.path.exists(exe) and os.path.exists(stamp) and open(stamp).read() == key:
        return exe
    vcheck.coq_makefile()
    rc, out = vcheck.sh(["make", "-j%d" % vcheck.NCPU, "Base/Lin.vo", "Spec/Specs.vo"], cwd=vcheck.COQ, timeout=900)
    if rc != 0:
        raise vcheck.BuildError("Lin/Specs do not build:\n" + out[-2000:])
    rc, out = vcheck.extract("Extract_Lin.v", d)
    if rc != 0:
        raise vcheck.BuildError("extraction of lincheck failed:\n" + out[-2000:])
    rc, out = vcheck.ocaml_build(d, ["lin.mli", "lin.ml", os.path.join(vcheck.VERIF, "ocaml", "lincheck_main.ml")], exe)
    if rc != 0:
        raise vcheck.BuildError("lincheck does not build:\n" + out[-2000:])
    open(stamp, "w").write(key)
    return exe


def lincheck_many(exe, spec, histories, timeout=900):
    """histories: list of lists of lines ('inv t op..' / 'res t r..'); -> list of verdict strings"""
    if not histories:
        return []
    text = "\n---\n".join("\n".join(h) for h in histories) + "\n---\n"
    rc, out = vcheck.sh([exe] + spec.split(), timeout=timeout, input=text)
    v = [l.strip() for l in out.split("\n") if l.strip()]
    return v[:len(histories)] + ["ERROR no verdict"] * max(0, len(histories) - len(v))


# ---------------------------------------------------------------------------------------------------------
# observable correspondence: histories of the real containers decided by the verified lincheck

def history_of(lines):
    """'<tid> ev inv <op..>' / '<tid> ev res <r..>' -> lincheck input lines"""
    h = []
    for l in lines:
        t = l.split(" ")
        if len(t) >= 4 and t[1] == "ev" and t[2] in ("inv", "res"):
            h.append("%s %s %s" % (t[2], t[0], " ".join(t[3:])))
    return h


def park_sched(rng, nthreads):
    """one thread acquires the combiner lock and is parked; the others publish their requests and spin; then the
    combiner runs: its fc_process / combining_pass meets a batch of requests"""
    a = rng.below(nthreads)
    s = [a] * (12 + rng.below(5))
    others = [t for t in range(nthreads) if t != a]
    for i in range(len(others) - 1, 0, -1):
        j = rng.below(i + 1); others[i], others[j] = others[j], others[i]
    for t in others:
        s += [t] * (13 + rng.below(12))
    s += [a] * (60 + rng.below(80))
    for _ in range(2):
        for t in others:
            s += [t] * (10 + rng.below(30))
        s += [a] * (20 + rng.below(60))
    return s


def observable_lincheck(ctx, impl, cases, spec_of, tag, what_notlin, what_crash, timeout=240, nproc=8):
    """Runs the cases on the real container, decides every finished history with the verified lincheck.
    Returns stats; reports violations through ctx (one replay per kind)."""
    lin = build_lincheck(ctx)
    out = run_par([impl], cases, ctx.work, tag, nproc=nproc, timeout=timeout)
    logs = conc_check.parse_logs(out)
    byspec = {}
    for c in cases:
        lg = logs.get(c["id"])
        if lg is None or lg["end"] != "finished":
            continue
        byspec.setdefault(spec_of(c), []).append((c, history_of(lg["lines"]), lg))
    stats = {"cases": len(cases), "finished": 0, "ok": 0, "notlin": 0, "other": 0, "collided_cases": 0, "batched_cases": 0,
             "distinct_histories": 0, "distinct_nontrivial": 0, "ops": 0, "combs": 0, "collided": 0, "unfinished": 0, "by_spec": {}, "samples": []}
    seen = set(); seen_nt = set()
    for spec, items in sorted(byspec.items()):
        verdicts = lincheck_many(lin, spec, [h for (_, h, _) in items], timeout=timeout)
        stats["by_spec"][spec] = len(items)
        for (c, h, lg), v in zip(items, verdicts):
            stats["finished"] += 1
            mon = monitor_extra(lg["extra"])
            stats["ops"] += mon.get("ops", 0); stats["combs"] += mon.get("combs", 0); stats["collided"] += mon.get("collided", 0)
            key = hash((spec, tuple(h)))
            seen.add(key)
            nt = mon.get("collided", 0) > 0 or mon.get("ops", 0) > mon.get("combs", 0) + c.get("cfg", [0, 0, 0, 0])[3]
            if mon.get("collided", 0) > 0:
                stats["collided_cases"] += 1
            if nt:
                stats["batched_cases"] += 1
                seen_nt.add(key)
                if len(stats["samples"]) < 2:
                    stats["samples"].append({"case": c, "history": h, "verdict": v})
            if v == "OK":
                stats["ok"] += 1
            elif v == "NOTLIN":
                stats["notlin"] += 1
                ctx.violation(what_notlin, {"case": c, "spec": spec, "history": h, "verdict": v, "monitor": lg["extra"]})
            else:
                stats["other"] += 1
                ctx.violation(what_notlin + " (history rejected: %s)" % v.split(" ")[0], {"case": c, "spec": spec, "history": h, "verdict": v})
    stats["distinct_histories"] = len(seen); stats["distinct_nontrivial"] = len(seen_nt)
    unfinished = [c for c in cases if c["id"] not in logs or logs[c["id"]]["end"] != "finished"]
    stats["unfinished"] = len(unfinished)
    for c in first_unfinished(cases, logs, nproc=nproc):
        ctx.violation(what_crash, {"case": c, "output_tail": out[-1500:]})
    return stats
