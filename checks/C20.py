"""C20 - single-threaded API behaviour of every container variant matches the reference model (DESIGN 7, C20).

The reference model is the Coq specification LV.Spec.ApiSpec (laws in Properties_C20.v).  The check extracts it,
builds the type-list driver harness/C20/*.cpp (one executable per translation unit, many container variants
each) against /repo's working tree, feeds both the same operation sequences and compares the canonical output
line by line: return value, functor-call log with arguments and the new-item flag, disposer-call counts.

Environment (development aids):  C20_ONLY=<tu>[,<tu>..]   restrict to these translation units (names without .cpp)
                                 C20_VARIANTS=<regex>      restrict to matching variant names
                                 C20_SKIP_COQ=1            do not rebuild the Coq obligations
                                 C20_TAG=<word>            private scratch directory for sequence files (concurrent runs)
"""
import os, re, json, glob, hashlib, subprocess, time, itertools
from concurrent.futures import ThreadPoolExecutor
import vcheck

HDIR = os.path.join(vcheck.VERIF, "harness", "C20")

# ------------------------------------------------------------------------------------------------------
# builds

def build_model(ctx):
    d = os.path.join(ctx.work, "model")
    os.makedirs(d, exist_ok=True)
    srcs = [os.path.join(vcheck.COQ, "Extract", "Extract_C20.v"), os.path.join(vcheck.VERIF, "ocaml", "c20_main.ml"),
            os.path.join(vcheck.COQ, "Spec", "ApiSpec.v"), os.path.join(vcheck.COQ, "Spec", "Specs.v"), os.path.join(vcheck.COQ, "Base", "Lin.v")]
    key = vcheck.file_hash(srcs)
    exe = os.path.join(d, "c20_exe")
    stamp = exe + ".key"
    if os.path.exists(exe) and os.path.exists(stamp) and open(stamp).read() == key:
        return exe
    vcheck.coq_makefile()
    rc, out = vcheck.sh(["make", "-j%d" % vcheck.NCPU, "Spec/ApiSpec.vo"], cwd=vcheck.COQ, timeout=900)
    if rc != 0:
        raise vcheck.BuildError("Spec/ApiSpec.v does not build:\n" + out[-3000:])
    rc, out = vcheck.extract("Extract_C20.v", d)
    if rc != 0:
        raise vcheck.BuildError("extraction of ApiSpec failed:\n" + out[-3000:])
    rc, out = vcheck.ocaml_build(d, ["c20spec.mli", "c20spec.ml", os.path.join(vcheck.VERIF, "ocaml", "c20_main.ml")], exe)
    if rc != 0:
        raise vcheck.BuildError("ocaml build of c20_main failed:\n" + out[-3000:])
    open(stamp, "w").write(key)
    return exe


def build_harness(ctx):
    """-> {tu name: exe}.  One executable per harness/C20/*.cpp, built in parallel; vcheck.cxx_build caches per TU
    (the hash of the local headers is passed as a -D so that a header edit invalidates the cache)."""
    tus = sorted(glob.glob(os.path.join(HDIR, "*.cpp")))
    only = os.environ.get("C20_ONLY")
    if only:
        want = set(only.split(","))
        tus = [t for t in tus if os.path.basename(t)[:-4] in want]
    hdr = vcheck.file_hash(sorted(glob.glob(os.path.join(HDIR, "*.h"))))
    vcheck.libcds(True, "-O1")        # build the library once, before the parallel part
    bindir = os.path.join(ctx.work, "bin")
    os.makedirs(bindir, exist_ok=True)
    exes, errors = {}, []

    def one(src):
        name = os.path.basename(src)[:-4]
        t0 = time.time()
        exe = vcheck.cxx_build(src, os.path.join(bindir, name), hook=True, extra=("-DC20_HDR_HASH=0x%s" % hdr, "-I" + HDIR,
                                      "-Wl,--no-as-needed", "-lboost_thread", "-lboost_system"),     # flat combining uses boost::thread_specific_ptr
                               timeout=1800)
        return name, exe, time.time() - t0

    with ThreadPoolExecutor(max_workers=max(2, vcheck.NCPU)) as ex:
        futs = [ex.submit(one, s) for s in tus]
        for f in futs:
            try:
                name, exe, dt = f.result()
                exes[name] = exe
            except vcheck.BuildError as e:
                errors.append(str(e))
    if errors:
        raise vcheck.BuildError("\n".join(errors)[-6000:])
    return exes


def list_variants(exes):
    vs = []
    pat = os.environ.get("C20_VARIANTS")
    for tu, exe in sorted(exes.items()):
        rc, out = vcheck.sh([exe, "--list"], timeout=60)
        if rc != 0:
            raise vcheck.BuildError("%s --list failed:\n%s" % (exe, out[-2000:]))
        for line in out.split("\n"):
            w = line.split(" ", 4)
            if len(w) < 4:
                continue
            if pat and not re.search(pat, w[0]):
                continue
            vs.append({"name": w[0], "kind": w[1], "cfg": [int(x) for x in w[2].split(",")], "ops": sorted(w[3].split(",")),
                       "traits": w[4].strip() if len(w) > 4 else "", "tu": tu, "exe": exe})
    names = [v["name"] for v in vs]
    dup = set(n for n in names if names.count(n) > 1)
    if dup:
        raise vcheck.BuildError("duplicate variant names in harness/C20: %s" % sorted(dup))
    return vs

# ------------------------------------------------------------------------------------------------------
# operation-sequence generators.  A profile = (kind, cfg, offered ops): all variants of a profile get the same
# sequences and share one run of the model.

class Gen:
    """one stream of sequences for a profile; every inserted object gets a fresh value (its client id)"""

    def __init__(self, rng, prof):
        self.rng = rng
        self.kind, self.cfg, self.ops = prof
        self.fresh = 0

    def val(self):
        self.fresh += 1
        return self.fresh

    # ---- keyed ----
    def keyed(self, nkeys, length, malformed):
        rng = self.rng
        ops = self.ops
        have = lambda *names: [n for n in names if n in ops]
        ins_ops = have("ins", "emp", "insf")
        upd_ops = have("upd", "ups")
        del_ops = have("era", "eraw", "eraf", "erafw", "unl", "ext", "extw")
        look_ops = have("con", "conw", "fnd", "fndw", "get", "getw")
        misc = have("size", "empty")
        present = set()             # generator-side guess of the contents, only used to bias the choice of keys
        seq = []
        big = nkeys > 64
        self.fresh = 0
        for i in range(length):
            r = rng.below(100)
            if malformed:
                # erase of absent keys, extract after clear, update with insertion disallowed on an absent key, unlink of a foreign object
                absent = lambda: self.pick_absent(present, nkeys)
                c = rng.below(8)
                if c == 0 and del_ops:
                    seq.append("%s:%d" % (rng.choice(del_ops), absent())); continue
                if c == 1 and "clear" in ops and del_ops:
                    seq.append("clear"); present.clear()
                    seq.append("%s:%d" % (rng.choice(del_ops), rng.below(nkeys))); continue
                if c == 2 and upd_ops:
                    seq.append("%s:%d:%d:0" % (rng.choice(upd_ops), absent(), self.val())); continue
                if c == 3 and "unx" in ops:
                    seq.append("unx:%d" % rng.below(nkeys)); continue
                if c == 4 and have("xmin", "xmax") and not present:
                    seq.append(rng.choice(have("xmin", "xmax"))); continue
                if c == 5 and ins_ops and present:      # duplicate insert
                    seq.append("%s:%d:%d" % (rng.choice(ins_ops), self.pick_present(present), self.val())); continue
            if r < (45 if big and len(present) < 300 else 28) and (ins_ops or upd_ops):
                k = self.pick_absent(present, nkeys) if rng.chance(4, 5) else rng.below(nkeys)
                if ins_ops and (not upd_ops or rng.chance(2, 3)):
                    seq.append("%s:%d:%d" % (rng.choice(ins_ops), k, self.val()))
                else:
                    seq.append("%s:%d:%d:1" % (rng.choice(upd_ops), k, self.val()))
                present.add(k)
            elif r < 45 and upd_ops:
                k = self.pick_present(present) if present and rng.chance(3, 4) else rng.below(nkeys)
                a = 1 if rng.chance(1, 2) else 0
                seq.append("%s:%d:%d:%d" % (rng.choice(upd_ops), k, self.val(), a))
                if a or k in present:
                    present.add(k)
            elif r < 68 and del_ops:
                k = self.pick_present(present) if present and rng.chance(4, 5) else rng.below(nkeys)
                seq.append("%s:%d" % (rng.choice(del_ops), k)); present.discard(k)
            elif r < 86 and look_ops:
                k = self.pick_present(present) if present and rng.chance(2, 3) else rng.below(nkeys)
                seq.append("%s:%d" % (rng.choice(look_ops), k))
            elif r < 92 and misc:
                seq.append(rng.choice(misc))
            elif r < 95 and have("xmin", "xmax"):
                seq.append(rng.choice(have("xmin", "xmax")))     # the generator does not know which key leaves: present stays a guess
            elif r < 97 and "iter" in ops and (not big or rng.chance(1, 6)):
                seq.append("iter")
            elif r < 98 and "clear" in ops and (not big or rng.chance(1, 8)):
                seq.append("clear"); present.clear()
            elif look_ops:
                seq.append("%s:%d" % (rng.choice(look_ops), rng.below(nkeys)))
        if "size" in ops: seq.append("size")
        if "iter" in ops: seq.append("iter")
        return seq

    def many_keys(self, length):
        """grow the container to well over a thousand distinct keys (sequential and scattered), with finds, erases and
        updates in between: resize / rehash / bucket-table growth paths of the hash containers"""
        rng = self.rng
        ops = self.ops
        have = lambda *names: [n for n in names if n in ops]
        ins_ops = have("ins", "emp", "insf") or have("upd", "ups")
        del_ops = have("era", "eraf", "unl", "ext")
        look_ops = have("con", "fnd", "get")
        seq, present, nxt = [], [], 0
        self.fresh = 0
        scattered = rng.chance(1, 2)
        for i in range(length):
            r = rng.below(100)
            if r < 62 and ins_ops:
                if scattered and rng.chance(1, 3):
                    k = 20000 + rng.below(40000)
                else:
                    k = nxt; nxt += 1
                o = rng.choice(ins_ops)
                seq.append("%s:%d:%d%s" % (o, k, self.val(), ":1" if o in ("upd", "ups") else ""))
                present.append(k)
            elif r < 72 and del_ops and present:
                j = rng.below(len(present)); k = present[j]; present[j] = present[-1]; present.pop()
                seq.append("%s:%d" % (rng.choice(del_ops), k))
            elif r < 97 and look_ops:
                if present and rng.chance(4, 5):
                    k = present[rng.below(len(present))] if rng.chance(1, 2) else present[-1 - rng.below(min(4, len(present)))]
                else:
                    k = rng.below(nxt + 10)
                seq.append("%s:%d" % (rng.choice(look_ops), k))
            elif "size" in ops:
                seq.append("size")
        # every key believed present must be found
        for k in present[-40:]:
            if look_ops: seq.append("%s:%d" % (look_ops[0], k))
        if "size" in ops: seq.append("size")
        if "iter" in ops: seq.append("iter")
        return seq

    def pick_present(self, present):
        # sets are small or we only need *some* element: sample through sorted order for determinism
        l = sorted(present)
        return l[self.rng.below(len(l))]

    def pick_absent(self, present, nkeys):
        for _ in range(6):
            k = self.rng.below(nkeys)
            if k not in present:
                return k
        return self.rng.below(nkeys)

    # ---- queues ----
    def queue(self, nvals, length, malformed):
        rng = self.rng
        ops = self.ops
        have = lambda *names: [n for n in names if n in ops]
        push_ops = have("push", "enq", "emp", "pushw", "pushb", "pushf")
        pop_ops = have("pop", "deq", "popw", "popf", "popb")
        misc = have("size", "empty")
        cap = self.cfg[1] if self.kind == "Q" else -1
        prio = self.kind == "Q" and self.cfg[0] == 3
        n = 0
        seq = []
        self.fresh = 0
        mode = rng.below(3)     # 0 balanced, 1 grow then drain, 2 mostly empty / mostly full
        for i in range(length):
            if malformed and rng.chance(1, 4):
                c = rng.below(3)
                if c == 0 and pop_ops and "clear" in ops:
                    seq.append("clear"); n = 0; seq.append(rng.choice(pop_ops)); continue
                if c == 1 and pop_ops and n == 0:
                    seq.append(rng.choice(pop_ops)); continue
                if c == 2 and cap >= 0 and push_ops:        # push on full
                    while n <= cap:
                        seq.append("%s:%d" % (rng.choice(push_ops), self.qval(nvals, prio))); n += 1
                    n = cap; continue
            if mode == 0: ppush = 50
            elif mode == 1: ppush = 75 if i < length // 2 else 25
            else: ppush = 30 if cap < 0 else 70
            r = rng.below(100)
            if r < 8 and misc:
                seq.append(rng.choice(misc))
            elif r < 10 and "clear" in ops:
                seq.append("clear"); n = 0
            elif rng.below(100) < ppush and push_ops:
                seq.append("%s:%d" % (rng.choice(push_ops), self.qval(nvals, prio)))
                if cap < 0 or n < cap: n += 1
            elif pop_ops:
                seq.append(rng.choice(pop_ops)); n = max(0, n - 1)
        if "size" in ops: seq.append("size")
        # drain: the order of everything still inside is observed
        for _ in range(min(n + 1, 400)):
            if pop_ops: seq.append(pop_ops[0])
        return seq

    def qval(self, nvals, prio):
        if prio:
            return self.rng.below(nvals)     # priorities collide on purpose
        return self.val()


def profile_of(v):
    return (v["kind"], tuple(v["cfg"]), tuple(v["ops"]))


def sequences_for(ctx, prof, rng):
    """-> list of (id, [op tokens], meta)"""
    kind, cfg, ops = prof
    g = Gen(rng, prof)
    out = []
    thorough = ctx.thorough()
    if kind == "K":
        n_small, n_mal, n_long = (160, 80, 10) if thorough else (40, 24, 3)
        for i in range(n_small):
            out.append(("k4v%d" % i, g.keyed(4, 6 + rng.below(30), False), {"stream": "valid", "keys": 4}))
        for i in range(n_mal):
            out.append(("k4m%d" % i, g.keyed(4, 6 + rng.below(30), True), {"stream": "malformed", "keys": 4}))
        for i in range(n_long):
            out.append(("k10kv%d" % i, g.keyed(10000, 600 + rng.below(900), False), {"stream": "valid", "keys": 10000}))
        for i in range(max(1, n_long // 2)):
            out.append(("k10km%d" % i, g.keyed(10000, 300 + rng.below(300), True), {"stream": "malformed", "keys": 10000}))
        for i in range(max(2, n_long)):
            out.append(("k64v%d" % i, g.keyed(64, 200 + rng.below(300), False), {"stream": "valid", "keys": 64}))
        for i in range(3 if thorough else 1):
            out.append(("kmany%d" % i, g.many_keys(2400 + rng.below(800)), {"stream": "many-keys", "keys": 60000}))
    else:
        n_small, n_mal, n_long = (160, 80, 10) if thorough else (40, 24, 3)
        for i in range(n_small):
            out.append(("q4v%d" % i, g.queue(4, 6 + rng.below(30), False), {"stream": "valid", "keys": 4}))
        for i in range(n_mal):
            out.append(("q4m%d" % i, g.queue(4, 6 + rng.below(30), True), {"stream": "malformed", "keys": 4}))
        for i in range(n_long):
            out.append(("q10kv%d" % i, g.queue(10000, 400 + rng.below(600), False), {"stream": "valid", "keys": 10000}))
    return out


def exhaustive_for(prof, maxlen, nkeys=3):
    """all sequences of <= maxlen operations over nkeys keys (values = position in the sequence, so they are fresh)"""
    kind, cfg, ops = prof
    alpha = []
    if kind == "K":
        for o in ops:
            if o == "ins" or (o == "ups" and "upd" not in ops and False):
                alpha += ["%s:%d:V" % (o, k) for k in range(nkeys)]
            elif o == "upd" or (o == "ups" and "upd" not in ops):
                alpha += ["%s:%d:V:%d" % (o, k, a) for k in range(nkeys) for a in (0, 1)]
            elif o in ("era", "ext", "unl", "con"):
                alpha += ["%s:%d" % (o, k) for k in range(nkeys)]
            elif o in ("size", "clear", "xmin", "iter"):
                alpha.append(o)
    else:
        for o in ops:
            if o in ("push", "pushf"):
                alpha += ["%s:%s" % (o, x) for x in (("0", "1", "2") if cfg[0] == 3 else ("V",))]
            elif o in ("pop", "popb", "size", "empty", "clear"):
                alpha.append(o)
    seqs = []
    n = 0
    for L in range(1, maxlen + 1):
        if len(alpha) ** L > 450000:
            break
        for tup in itertools.product(alpha, repeat=L):
            seqs.append(("x%d" % n, [t.replace("V", str(i + 1)) for i, t in enumerate(tup)], {"stream": "exhaustive", "keys": nkeys}))
            n += 1
    return seqs, len(alpha)

# ------------------------------------------------------------------------------------------------------
# running

def header(kind, cfg):
    return "%s %s" % (kind, " ".join(str(c) for c in cfg))


def write_seqs(path, kind, cfg, seqs):
    with open(path, "w") as f:
        for sid, ops, _ in seqs:
            f.write("%s %s | %s\n" % (sid, header(kind, cfg), " ".join(ops)))


def parse_out(text):
    """-> {seq id: [lines]} (lines without the index prefix kept as they are)"""
    res, cur = {}, None
    for line in text.split("\n"):
        if line.startswith("# "):
            cur = []
            res[line[2:].strip()] = cur
        elif cur is not None and line and not line.startswith("[watchdog"):
            cur.append(line)
    return res


def run_model(model, path):
    with open(path) as f:
        p = subprocess.run([model], stdin=f, stdout=subprocess.PIPE, stderr=subprocess.STDOUT, text=True, timeout=3000)
    return parse_out(p.stdout)


HP_SETTINGS = ["", "0,1,0,0", "1,2,64,1", "0,1,17,1", "8,8,100,0", "3,3,500,0"]      # extra hazard pointers, max threads, max retired, scan type
DHP_SETTINGS = ["", "4", "64"]


WATCHDOG_S = 90        # a whole sequence file takes a few seconds; a hang (e.g. a cycle in a list) is killed
WATCHDOG_MIN_S = 4      # one sequence during minimisation


def run_variant(v, path, hp="", dhp="", timeout=WATCHDOG_S):
    env = dict(os.environ)
    if hp: env["C20_HP"] = hp
    if dhp: env["C20_DHP"] = dhp
    try:
        p = subprocess.run([v["exe"], v["name"], path], stdout=subprocess.PIPE, stderr=subprocess.STDOUT, text=True, timeout=timeout, env=env, errors="replace")
        return p.returncode, p.stdout
    except subprocess.TimeoutExpired as ex:
        o = ex.stdout or ""
        if isinstance(o, bytes): o = o.decode(errors="replace")
        return 124, o + "\n[watchdog: no result after %ss - hang]" % timeout


PUSH_NAMES = ("push", "enq", "emp", "pushw")
POP_NAMES = ("pop", "deq", "popw")


def seg_model_input(seqs, impl):
    """SegmentedQueue with a random permutation: the observed pops are given to the (nondeterministic) specification"""
    out = []
    for sid, ops, meta in seqs:
        lines = impl.get(sid, [])
        toks = []
        for i, o in enumerate(ops):
            if o in POP_NAMES:
                obs = -1
                if i < len(lines):
                    m = re.match(r"\d+ v(-?\d+)", lines[i])
                    if m: obs = int(m.group(1))
                    elif not re.match(r"\d+ none", lines[i]): obs = -2      # unparsable: the model will reject
                toks.append("pop:%d" % obs)
            elif o.split(":")[0] in PUSH_NAMES:
                toks.append("push:" + o.split(":")[1])
            else:
                toks.append(o)
        out.append((sid, toks, meta))
    return out


def first_mismatch(kind, seqs, expected, observed):
    """-> (seq id, op index, expected line, observed line) or None"""
    for sid, ops, _ in seqs:
        e = expected.get(sid); o = observed.get(sid)
        if e is None:
            return (sid, -1, "<model produced no output>", "")
        if o is None:
            return (sid, -1, e[0] if e else "", "<no output for this sequence: crash, abort or hang (watchdog)>")
        if kind == "S":
            for i, op in enumerate(ops):
                el = e[i].split(" ", 1)[1] if i < len(e) else "<missing>"
                ol = o[i].split(" ", 1)[1] if i < len(o) else "<missing>"
                nm = op.split(":")[0]
                if nm in PUSH_NAMES:
                    ok = el == "ok" and ol.startswith("b1")
                elif nm in POP_NAMES:
                    ok = el == "ok"
                elif nm in ("size", "empty"):
                    ok = ol.split(" ")[0] == el
                else:
                    ok = el == "ok" and ol.startswith("u")
                if not ok:
                    return (sid, i, "model verdict: " + el, ol)
            continue
        n = max(len(e), len(o))
        for i in range(n):
            el = e[i] if i < len(e) else "<missing>"
            ol = o[i] if i < len(o) else "<missing: crash, hang or abort>"
            if el != ol:
                return (sid, min(i, len(ops)), el, ol)
    return None


class Runner:
    def __init__(self, ctx, model):
        self.ctx, self.model = ctx, model
        self.tmp = os.path.join(ctx.work, "seq" + os.environ.get("C20_TAG", ""))
        os.makedirs(self.tmp, exist_ok=True)
        self.n = 0

    def check(self, v, seqs, tag, hp="", dhp="", expected=None, timeout=None):
        """run variant v on seqs; -> (mismatch or None, expected)"""
        kind, cfg = v["kind"], v["cfg"]
        path = os.path.join(self.tmp, "%s-%s.ops" % (tag, hashlib.sha256(v["name"].encode()).hexdigest()[:8] if expected is None else "p"))
        if expected is None or not os.path.exists(path):
            write_seqs(path, kind, cfg, seqs)
        rc, out = run_variant(v, path, hp, dhp, timeout or (WATCHDOG_S * (4 if len(seqs) > 5000 else 1)))
        observed = parse_out(out)
        # (the harness prints a sequence only when it is complete and flushes: after a watchdog kill the first
        #  sequence without output is the one that hangs)
        if kind == "S":
            mseqs = seg_model_input(seqs, observed)
            mpath = path + ".model-%s" % hashlib.sha256(v["name"].encode()).hexdigest()[:8]
            write_seqs(mpath, kind, cfg, mseqs)
            expected = run_model(self.model, mpath)
        elif expected is None:
            expected = run_model(self.model, path)
        mm = first_mismatch(kind, seqs, expected, observed)
        if mm is None and rc != 0:
            mm = (seqs[-1][0] if seqs else "?", -1, "exit status 0", "exit status %d: %s" % (rc, out[-300:]))
        return mm, expected

    def minimise(self, v, ops, hp, dhp):
        """drop operations while some mismatch persists; -> (ops, mismatch)"""
        deadline = time.time() + 60
        def bad(cand):
            self.n += 1
            mm, _ = self.check(v, [("m", cand, {})], "min", hp, dhp, timeout=WATCHDOG_MIN_S)
            return mm
        cur = list(ops)
        mm = bad(cur)
        if mm is None:
            return ops, None
        if mm[1] >= 0:
            cur = cur[:mm[1] + 1]
        chunk = max(1, len(cur) // 2)
        budget = 400
        while chunk >= 1 and budget > 0 and time.time() < deadline:
            i = 0
            progress = False
            while i < len(cur) and budget > 0 and time.time() < deadline:
                cand = cur[:i] + cur[i + chunk:]
                budget -= 1
                if cand:
                    m2 = bad(cand)
                    if m2 is not None:
                        cur, mm, progress = cand, m2, True
                        if m2[1] >= 0 and m2[1] + 1 < len(cur):
                            cur = cur[:m2[1] + 1]
                        continue
                i += chunk
            if chunk == 1 and not progress:
                break
            chunk = chunk // 2 if chunk > 1 else (1 if progress else 0)
        return cur, mm


def op_name(tok):
    return tok.split(":")[0]


def run(ctx):
    if os.environ.get("C20_SKIP_COQ"):          # development aid: harness work only
        res = vcheck.CoqResult(); res.ok = True
    else:
        res = vcheck.coq_build(["Properties/Properties_C20.v"])
    ctx.coq_evidence(res)
    ctx.log("coq obligations built")
    model = build_model(ctx)
    t0 = time.time()
    exes = build_harness(ctx)
    build_s = time.time() - t0
    variants = list_variants(exes)
    ctx.log("harness built: %d translation units, %d variants, %.1fs" % (len(exes), len(variants), build_s))
    runner = Runner(ctx, model)

    # ---- replay of one case
    if ctx.replay:
        r = json.load(open(ctx.replay))
        v = [x for x in variants if x["name"] == r.get("variant")]
        if not v:
            ctx.violation("replay names an unknown variant", {"variant": r.get("variant")}, no_input=True)
            return ctx.finish(vcheck.STD_TRUSTED)
        mm, _ = runner.check(v[0], [("replay", r["ops"], {})], "replay", r.get("hp", ""), r.get("dhp", ""))
        if mm:
            ctx.violation("C20 replay still fails: %s" % v[0]["name"], {"variant": v[0]["name"], "ops": r["ops"], "expected": mm[2], "observed": mm[3], "op_index": mm[1]})
        return ctx.finish(vcheck.STD_TRUSTED)

    profiles = {}
    for v in variants:
        profiles.setdefault(profile_of(v), []).append(v)

    # ---- corpus first: files corpus/C20/*.json {"variant": regex, "kind": , "ops": [...]}
    cdir = os.path.join(vcheck.VERIF, "corpus", "C20")
    corpus = []
    for f in sorted(glob.glob(os.path.join(cdir, "*.json"))):
        corpus.append(json.load(open(f)))

    op_hist, stream_hist, per_variant, keyspace_hist = {}, {}, {}, {}
    distinct = set()
    evaluations = 0
    nontrivial = set()
    samples = []
    mismatches = []
    jobs = []

    prof_list = sorted(profiles.items(), key=lambda kv: repr(kv[0]))
    prng = ctx.rng.fork()
    hprng = ctx.rng.fork()
    for pi, (prof, vs) in enumerate(prof_list):
        kind, cfg, ops = prof
        seqs = sequences_for(ctx, prof, prng.fork())
        for c in corpus:
            if c.get("kind", "K") == kind and all(op_name(t) in ops for t in c["ops"]):
                seqs.insert(0, ("corpus%d" % corpus.index(c), c["ops"], {"stream": "corpus", "keys": 0}))
        tag = "p%d" % pi
        path = os.path.join(runner.tmp, tag + "-p.ops")
        write_seqs(path, kind, cfg, seqs)
        expected = run_model(model, path) if kind != "S" else None
        for sid, sops, meta in seqs:
            h = hashlib.sha256((repr(prof[:2]) + " ".join(sops)).encode()).hexdigest()
            distinct.add(h)
            # non-trivial: at least one state-changing op succeeds and one fails / the stream contains both
            names = set(op_name(t) for t in sops)
            if len(names) >= 3 and len(sops) >= 4:
                nontrivial.add(h)
            stream_hist[meta["stream"]] = stream_hist.get(meta["stream"], 0) + 1
            keyspace_hist[str(meta["keys"])] = keyspace_hist.get(str(meta["keys"]), 0) + 1
        if len(samples) < 4 and seqs:
            samples.append({"profile": header(kind, cfg), "variant": vs[0]["name"], "ops": seqs[min(1, len(seqs) - 1)][1][:40]})
        for v in vs:
            hp = hprng.choice(HP_SETTINGS) if "gc=HP" in v["traits"] else ""
            dhp = hprng.choice(DHP_SETTINGS) if "gc=DHP" in v["traits"] else ""
            jobs.append((v, seqs, tag, hp, dhp, expected))

    def do(job):
        v, seqs, tag, hp, dhp, expected = job
        t = time.time()
        mm, _ = runner.check(v, seqs, tag, hp, dhp, expected)
        return v, seqs, hp, dhp, mm, time.time() - t

    ctx.log("sequences generated and model run for %d profiles" % len(profiles))
    with ThreadPoolExecutor(max_workers=max(2, vcheck.NCPU)) as ex:
        results = list(ex.map(do, jobs))
    ctx.log("variants run: %d" % len(jobs))

    for v, seqs, hp, dhp, mm, dt in results:
        nops = sum(len(s[1]) for s in seqs)
        per_variant[v["name"]] = {"sequences": len(seqs), "ops": nops, "hp": hp or dhp or "default", "wall_s": round(dt, 2)}
        evaluations += len(seqs)
        for _, sops, _ in seqs:
            for t in sops:
                op_hist[op_name(t)] = op_hist.get(op_name(t), 0) + 1
        if mm:
            mismatches.append((v, seqs, hp, dhp, mm))

    # ---- exhaustive small scope (thorough): a few representative variants per kind
    exhaustive = {}
    if ctx.thorough() and not os.environ.get("C20_NO_EXHAUSTIVE"):
        reps = pick_representatives(variants)

        def exh(v):
            seqs, asz = exhaustive_for(profile_of(v), 6 if v["kind"] != "K" else 4)
            if not seqs:
                return v, [], asz, None
            mm, _ = runner.check(v, seqs, "exh-" + v["name"][:40])
            return v, seqs, asz, mm

        with ThreadPoolExecutor(max_workers=max(2, vcheck.NCPU // 2)) as ex:
            for v, seqs, asz, mm in ex.map(exh, reps):
                if not seqs:
                    continue
                exhaustive[v["name"]] = {"sequences": len(seqs), "alphabet": asz, "max_len": max(len(s[1]) for s in seqs)}
                evaluations += len(seqs)
                if mm:
                    mismatches.append((v, seqs, "", "", mm))
        ctx.log("exhaustive small scope: %d variants" % len(exhaustive))

    # ---- report
    # one replay per container family first (different families usually mean different defects), at most 10
    def family(v):
        m = re.search(r"family=([^;]+)", v["traits"]); f = re.search(r"form=([^;]+)", v["traits"])
        return (m.group(1) if m else v["name"]) + "/" + (f.group(1) if f else "")
    seen, chosen = set(), []
    for m in mismatches:
        if family(m[0]) not in seen:
            seen.add(family(m[0])); chosen.append(m)
    ctx.max_per_what = 1

    def minimise_one(m):
        v, seqs, hp, dhp, mm = m
        ops = next((s[1] for s in seqs if s[0] == mm[0]), [])
        mops, mm2 = runner.minimise(v, ops, hp, dhp)
        if mm2 is None:
            mops, mm2 = ops, mm
        return v, ops, hp, dhp, mops, mm2

    with ThreadPoolExecutor(max_workers=max(2, vcheck.NCPU // 2)) as ex:
        minimised = list(ex.map(minimise_one, chosen[:10]))
    for v, ops, hp, dhp, mops, mm2 in minimised:
        what = "%s: sequential API behaviour differs from the specification LV.Spec.ApiSpec" % v["name"]
        note = ""
        if "Cuckoo" in v["name"]:
            note = "cuckoo variant: check against the known C17 defect (resize drops elements when few distinct hash values exist) before treating this as a C20 finding"
        sig = "c20:%s:%s" % (v["name"], " ".join(mops))
        if v["name"].startswith("MichaelHashMap_Iterable") and any(op_name(t) == "ups" for t in mops):
            sig = "michael-map-upsert-bucket-by-value"
        if "BronsonAVLTreeMap" in v["name"] and mops and mops[-1].split(":")[0] in ("upd", "ups") and mops[-1].endswith(":0") and "p00" in mm2[2]:
            sig = "bronson-update-noinsert-routing-node"
        ctx.violation(what, {"variant": v["name"], "tu": v["tu"], "kind": v["kind"], "cfg": v["cfg"], "ops": mops, "op_index": mm2[1],
                             "expected": mm2[2], "observed": mm2[3], "original_sequence_length": len(ops), "hp": hp, "dhp": dhp, "note": note,
                             "replay_cmd": "bin/check C20 --replay <this file>"},
                      signature=sig)
    if ctx.thorough() and res.ok and not os.environ.get("C20_SKIP_COQ"):
        rc, out = vcheck.coqchk("LV.Properties.Properties_C20")
        ctx.coverage["coqchk"] = "ok" if rc == 0 else out[-400:]
        if rc != 0:
            ctx.violation("coqchk rejects LV.Properties.Properties_C20", {"coqchk": out[-1500:]}, no_input=True)
    if not res.ok:
        ctx.violation("Coq obligations of C20 do not check: %s" % (res.failed[:2],), {"theorem": [f[2] for f in res.failed], "errors": res.failed[:3]}, no_input=True)

    axes = {}
    for v in variants:
        for kv in v["traits"].split(";"):
            if "=" in kv:
                a, b = kv.split("=", 1)
                axes.setdefault(a, set()).add(b)
    ctx.coverage.update({
        "evaluations": evaluations,
        "distinct_nontrivial": len(nontrivial),
        "distinct_op_sequences": len(distinct),
        "rule": "evaluation = one (variant, operation sequence) pair compared line by line with the extracted specification; distinct = distinct (profile, sequence); non-trivial = at least 4 operations of at least 3 different kinds",
        "variants": len(variants), "profiles": len(profiles), "translation_units": len(exes),
        "variant_names": [v["name"] for v in variants],
        "per_variant": per_variant,
        "op_histogram": dict(sorted(op_hist.items())),
        "stream_histogram": stream_hist, "keyspace_histogram": keyspace_hist,
        "trait_axes": {a: sorted(b) for a, b in sorted(axes.items())},
        "exhaustive_small_scope": exhaustive,
        "mismatching_variants": [m[0]["name"] for m in mismatches],
        "harness_build_s": round(build_s, 1),
        "samples": samples,
    })
    return ctx.finish(vcheck.STD_TRUSTED + ["ocaml/c20_main.ml (parsing, canonical printing)", "harness/C20 adapters: the mapping from canonical operations to each container's API and the canonicalisation of outputs"],
                      ["sequential only: one thread, no scheduler", "correspondence is sampling (random streams) plus exhaustive small scope in the thorough tier",
                       "container forms have no observable disposer; disposer counts are checked on the intrusive forms",
                       "reclamation is driven to quiescence (force_dispose) after every operation, so the disposer counts are per operation"])


def pick_representatives(variants):
    want = [r"^MichaelList_HP", r"^MichaelHashSet_.*HP", r"^SkipListSet_.*HP", r"^SplitListSet", r"^FeldmanHashSet", r"^EllenBinTreeSet", r"^BronsonAVLTreeMap",
            r"^CuckooSet", r"^StripedSet", r"^I_MichaelList.*HP", r"^I_SkipList", r"^MSQueue", r"^VyukovMPMCCycleQueue", r"^TreiberStack", r"^FCDeque", r"^MSPriorityQueue",
            r"^I_MSQueue", r"^WeakRingBuffer", r"^SkipListMap", r"^MichaelHashMap"]
    out = []
    for w in want:
        for v in variants:
            if re.search(w, v["name"]) and v["kind"] != "S":
                out.append(v); break
    return out
