"""C09, full interface — TreiberStack push / pop / empty() / clear()  (Properties_C09_Full.v).

run_full(ctx) -> dict   (called from checks/C09.py; it reports nothing itself unless report=True)

Step correspondence (same program, same schedule, event logs compared line by line):
  family 0 : LV.Model.TreiberFull  vs  cds::container::TreiberStack<cds::gc::HP,int>   (harness/C09/full_main.cpp)
Observable correspondence:
  family 0 and 2 (cds::intrusive::TreiberStack<HP> with a per-item dispose counter): the history of the real run is
  decided by the verified, extracted lincheck for StackX (LIFO + empty + clear; the extracted model decides a history
  when cfg[0] = 99, see LV.Model.TreiberFull.lin_case).
Implementation-side monitors (the failing-input search): lincheck verdict; conservation
  pushed = popped + left in the stack + removed by clear, nothing delivered twice; family 2: after the run, the drain,
  the destruction of the stack and a final scan every item's disposer ran EXACTLY once; no popped item is read after
  its disposer ran."""
import os, json
import vcheck, conc_check

HARNESS = os.path.join(vcheck.VERIF, "harness/C09/full_main.cpp")
EXTRACT = "Extract_TreiberFull.v"
PROPS = "Properties/Properties_C09_Full.v"
LFUEL = 400
FAM_NAME = {0: "container::TreiberStack<HP>", 2: "intrusive::TreiberStack<HP>"}


# ------------------------------------------------------------------------------------------------------
# generators

def gen_program(rng, nthreads, maxops):
    threads = []
    for t in range(nthreads):
        ops = []
        for k in range(1 + rng.below(maxops)):
            r = rng.below(10)
            if r < 4:
                ops.append([1, 100 * (t + 1) + k])      # values distinct per push
            elif r < 6:
                ops.append([2])
            elif r < 8:
                ops.append([4])
            else:
                ops.append([3])
        threads.append(ops)
    return threads


def gen_sched(rng, nthreads, kind):
    if kind == 0:       # uniform
        return [rng.below(nthreads) for _ in range(20 + rng.below(120))]
    if kind == 1:       # bursty
        s = []
        for _ in range(2 + rng.below(8)):
            s += [rng.below(nthreads)] * (1 + rng.below(14))
        return s
    if kind == 2:
        # run one thread to a point inside an operation (between clear's load and its CAS: steps 2..3 of a clear;
        # inside the dispose walk: 4 steps per node; between pop's m_pNext load and its CAS), let the others run
        # whole operations, come back
        a = rng.below(nthreads)
        s = [a] * (1 + rng.below(12))
        for _ in range(1 + rng.below(3)):
            b = rng.below(nthreads)
            s += [b] * (4 + rng.below(30))
        s += [a] * (1 + rng.below(10))
        return s + [rng.below(nthreads) for _ in range(rng.below(40))]
    # two threads in lock step (maximal CAS contention), then the rest
    a = rng.below(nthreads); b = (a + 1 + rng.below(nthreads - 1)) % nthreads
    s = []
    for _ in range(10 + rng.below(40)):
        s += [a, b]
    return s + [rng.below(nthreads) for _ in range(rng.below(30))]


def gen_cases(rng, n, fam, prefix):
    cases = []
    for i in range(n):
        nthreads = 2 + rng.below(3)
        threads = gen_program(rng, nthreads, 4)
        if rng.chance(2, 3):
            # a pre-filled stack: clear has a chain to walk, pops meet clears
            threads[0] = [[1, 150 + j] for j in range(1 + rng.below(3))] + threads[0][:2]
        cases.append({"id": "%s%d" % (prefix, i), "cfg": [fam, LFUEL], "threads": threads,
                      "sched": gen_sched(rng, nthreads, rng.below(4))})
    return cases


# ------------------------------------------------------------------------------------------------------
# history, monitors

def history_of(lines):
    """event log -> (encoded history for lin_case, pushed, popped, number of completed clears, readable history)"""
    enc = []; txt = []; pushed = []; popped = []; pend = {}; clears = 0
    for l in lines:
        t = l.split(" ")
        if len(t) < 3 or t[1] != "ev":
            continue
        tid, name, args = t[0], t[2], t[3:]
        txt.append(" ".join(t[0:1] + t[2:]))
        if name == "inv_push":
            enc.append([1, int(tid), 1, int(args[0])]); pend[tid] = int(args[0])
        elif name == "ret_push":
            enc.append([2, int(tid), 0, 1 if args[0] != "0" else 0])
            if args[0] != "0":
                pushed.append(pend.get(tid))
            pend.pop(tid, None)
        elif name == "inv_pop":
            enc.append([1, int(tid), 2])
        elif name == "ret_pop":
            if args[0] != "0":
                enc.append([2, int(tid), 2, int(args[1])]); popped.append(int(args[1]))
            else:
                enc.append([2, int(tid), 1])
        elif name == "inv_empty":
            enc.append([1, int(tid), 3])
        elif name == "ret_empty":
            enc.append([2, int(tid), 0, 1 if args[0] != "0" else 0])
        elif name == "inv_clear":
            enc.append([1, int(tid), 4])
        elif name == "ret_clear":
            enc.append([2, int(tid), 3]); clears += 1
    return enc, pushed, popped, clears, txt, list(pend.values())


def lincheck_batch(ctx, model, hists, tag):
    """hists: list of encoded histories -> list of 'OK' / 'NOTLIN' / 'ERROR ...' (decided by the extracted lincheck StackX)"""
    if not hists:
        return []
    cases = [{"id": "h%d" % k, "cfg": [99], "threads": [h if h else [[0]]], "sched": []} for k, h in enumerate(hists)]
    f = os.path.join(ctx.work, tag + ".hist.txt")
    conc_check.write_cases(f, cases)
    rc, out = vcheck.sh("%s %d < %s" % (model, 10, f), timeout=900)
    logs = conc_check.parse_logs(out)
    res = []
    for k in range(len(hists)):
        i = logs.get("h%d" % k)
        if i is None or not i["lines"]:
            res.append("ERROR missing verdict (rc=%d)" % rc)
        else:
            res.append("OK" if i["lines"][0].strip().endswith("lin 1") else "NOTLIN")
    return res


def monitor_case(c, ilog, verdict):
    bad = []
    enc, pushed, popped, clears, txt, pend = history_of(ilog["lines"])
    name = FAM_NAME.get(c["cfg"][0], "?")
    if verdict != "OK":
        bad.append(("notlin", "history of push/pop/empty/clear on %s is not linearizable to a LIFO stack with empty and clear (verified lincheck: %s)" % (name, verdict), {"history": txt}))
    drained = None; disp_read = 0; disposed = None
    for x in ilog["extra"]:
        if x.startswith("monitor drained"):
            drained = [int(v) for v in x.split()[2:]]
        elif x.startswith("monitor disposed_read"):
            disp_read = int(x.split()[-1])
        elif x.startswith("monitor disposed"):
            disposed = [(int(p.split(":")[0]), int(p.split(":")[1])) for p in x.split()[2:]]
    if disp_read:
        bad.append(("disposed_read", "a popped intrusive item was read after its disposer ran (%s)" % name, {"history": txt}))
    if len(set(popped)) != len(popped):
        bad.append(("dup", "a pushed item was delivered to more than one popper (%s)" % name, {"history": txt, "popped": popped}))
    if ilog["end"] == "finished" and drained is not None:
        rest = sorted(popped + drained)
        lost = sorted(set(pushed) - set(rest))
        if [v for v in rest if v not in pushed] or len(set(rest)) != len(rest):
            bad.append(("invented", "items invented or duplicated: popped + left in the stack is not a subset of pushed (%s)" % name,
                        {"history": txt, "pushed": pushed, "popped": popped, "drained": drained}))
        if lost and clears == 0:
            bad.append(("lost", "items lost although no clear() completed (%s)" % name, {"history": txt, "pushed": pushed, "popped": popped, "drained": drained}))
        if disposed is not None:
            wrong = [(v, n) for v, n in disposed if n != 1]
            if wrong:
                bad.append(("dispose_count", "after the run, the drain and the final scan an item's disposer ran %s (expected exactly once per item; value:count = %s) (%s)" % (
                    "more than once" if any(n > 1 for _, n in wrong) else "never", wrong, name), {"history": txt, "dispose_counts": disposed}))
    return bad


def nontrivial(lines):
    """a clear that detached a chain while another thread was inside an operation, or any failed CAS"""
    failed_cas = any(len(l.split(" ")) > 3 and l.split(" ")[1] == "cas" and l.split(" ")[3] == "0" for l in lines)
    return failed_cas


def run_batch(ctx, model, impl, cases, tag, step=True):
    cf = os.path.join(ctx.work, tag + ".txt")
    conc_check.write_cases(cf, cases)
    mlog = {}
    if step:
        rc1, out1 = vcheck.sh("%s %d < %s" % (model, 20000, cf), timeout=900)
        mlog = conc_check.parse_logs(out1)
    ilog = {}; crashes = []; todo = list(cases)
    for attempt in range(12):
        if not todo:
            break
        cfi = os.path.join(ctx.work, tag + ".impl.txt")
        conc_check.write_cases(cfi, todo)
        rc2, raw = vcheck.sh([impl, cfi], timeout=900)
        part = conc_check.parse_logs(raw)
        for c in todo:
            if c["id"] in part and part[c["id"]]["end"] is not None:
                ilog[c["id"]] = part[c["id"]]
        if rc2 == 0:
            break
        rest = [c for c in todo if c["id"] not in ilog]
        if not rest:
            break
        crashes.append((rc2, rest[0], raw[-400:]))
        todo = rest[1:]
    st = {"n": len(cases), "diverged": 0, "first_div": None, "violations": [], "shapes": set(), "nontrivial": set(), "verdicts": {},
          "overrun": 0, "steps": 0, "ops": {"push": 0, "pop_some": 0, "pop_none": 0, "empty_true": 0, "empty_false": 0, "clear": 0},
          "clear_walk_nodes": 0, "failed_clear_cas": 0}
    for rc, culprit, tail in crashes:
        st["violations"].append(("the real stack crashed or hung under the scheduler (harness exit status %d) on %s" % (rc, FAM_NAME.get(culprit["cfg"][0], "?")),
                                 {"case": culprit, "harness_tail": tail}, False))
    crashed = set(c["id"] for _, c, _ in crashes)
    have = [c for c in cases if c["id"] in ilog and c["id"] not in crashed and ilog[c["id"]]["end"] != "badcfg"]
    for c in cases:
        if c["id"] not in crashed and c not in have:
            st["diverged"] += 1
            st["first_div"] = st["first_div"] or (c, {"index": -1, "model": "?", "impl": "<no output from the harness>", "prefix": []})
    verdicts = lincheck_batch(ctx, model, [history_of(ilog[c["id"]]["lines"])[0] for c in have], tag)
    for c, v in zip(have, verdicts):
        i = ilog[c["id"]]
        st["verdicts"][v.split(" ")[0]] = st["verdicts"].get(v.split(" ")[0], 0) + 1
        st["steps"] += len(i["lines"])
        if i["end"] != "finished":
            st["overrun"] += 1
        sh = hash(tuple(conc_check.norm_impl_line(l) for l in i["lines"]))
        st["shapes"].add(sh)
        if nontrivial(i["lines"]):
            st["nontrivial"].add(sh)
        inclear = {}
        for l in i["lines"]:
            t = l.split(" ")
            if " ev ret_push" in l: st["ops"]["push"] += 1
            elif " ev ret_pop 1" in l: st["ops"]["pop_some"] += 1
            elif " ev ret_pop 0" in l: st["ops"]["pop_none"] += 1
            elif " ev ret_empty 1" in l: st["ops"]["empty_true"] += 1
            elif " ev ret_empty 0" in l: st["ops"]["empty_false"] += 1
            elif " ev inv_clear" in l: inclear[t[0]] = True
            elif " ev ret_clear" in l: st["ops"]["clear"] += 1; inclear[t[0]] = False
            elif inclear.get(t[0]) and len(t) > 3 and t[1] == "cas" and t[3] == "0": st["failed_clear_cas"] += 1
            elif inclear.get(t[0]) and len(t) > 3 and t[1] == "st": st["clear_walk_nodes"] += 1
        for kind, what, det in monitor_case(c, i, v):
            det = dict(det); det.update({"case": c, "impl_log": i["lines"], "monitor": kind})
            st["violations"].append((what, det, False))
        if step:
            m = mlog.get(c["id"])
            d = conc_check.compare(m, i) if m is not None else {"index": -1, "model": "<no output>", "impl": "ok", "prefix": []}
            if d is not None:
                st["diverged"] += 1
                if st["first_div"] is None:
                    st["first_div"] = (c, d)
    return st


CORRESPONDENCE = "LV.Model.TreiberFull vs cds::container::TreiberStack<HP,int> (cds/intrusive/treiber_stack.h push/pop/empty/clear, cds/gc/hp.h Guard::protect, retire)"


def run_full(ctx, report=False, case=None):
    """-> {"coq": CoqResult, "stats": {...}, "violations": [(what, details, no_input)], "coverage": {...}}
    report=True additionally turns the violations into ctx.violation calls."""
    res = vcheck.coq_build([PROPS])
    model = conc_check.build_model(ctx, EXTRACT, tag="model_treiber_full")
    impl = vcheck.cxx_build(HARNESS, os.path.join(ctx.work, "harness_full"), hook=True)
    rng = ctx.rng.fork() if hasattr(ctx.rng, "fork") else ctx.rng
    big = ctx.thorough()
    stats = {}
    if case is not None:
        stats["replay"] = run_batch(ctx, model, impl, [case], "full_replay", step=(case["cfg"][0] == 0))
    else:
        stats["step_full"] = run_batch(ctx, model, impl, gen_cases(rng, 2000 if big else 400, 0, "f"), "step_full", step=True)
        stats["obs_intrusive"] = run_batch(ctx, model, impl, gen_cases(rng, 800 if big else 200, 2, "i"), "obs_intrusive_full", step=False)
    viol = []
    for s in stats.values():
        viol += s["violations"]
    first_div = None
    for k, s in stats.items():
        if s["first_div"] is not None and first_div is None:
            first_div = (k, s["first_div"])
    if first_div is not None and not viol:
        k, (c, d) = first_div
        viol.append(("step correspondence no longer holds: " + CORRESPONDENCE, {"correspondence": CORRESPONDENCE, "case": c, "first_divergence": d}, True))
    if not res.ok and not viol:
        viol.append(("Coq obligations of C09 (full interface) do not check: %s" % (res.failed[:2],), {"theorem": [f[2] for f in res.failed], "errors": res.failed[:3]}, True))
    shapes = set(); nontriv = set()
    for s in stats.values():
        shapes |= s["shapes"]; nontriv |= s["nontrivial"]
    per = {}
    for k, s in stats.items():
        per[k] = {"cases": s["n"], "diverged": s["diverged"], "distinct_logs": len(s["shapes"]), "distinct_contended": len(s["nontrivial"]),
                  "lincheck_verdicts": s["verdicts"], "overrun": s["overrun"], "ops": s["ops"], "impl_events": s["steps"],
                  "nodes_disposed_by_clear_walks": s["clear_walk_nodes"] // 2, "failed_clear_cas": s["failed_clear_cas"]}
    cov = {"evaluations": sum(s["n"] for s in stats.values()), "distinct_nontrivial": len(nontriv), "distinct_event_logs": len(shapes),
           "rule": "program x schedule pairs (2-4 threads, 1-4 operations each of push 40% / pop 20% / clear 20% / empty 20%, two thirds with a pre-filled stack; uniform, bursty, run-to-a-point-then-switch and lock-step schedules); distinct = distinct implementation event logs; non-trivial = at least one failed CAS",
           "traces_validated_against_impl": sum(s["n"] - s["diverged"] for k, s in stats.items() if k.startswith("step")),
           "histories_decided_by_verified_lincheck_StackX": sum(sum(s["verdicts"].values()) for s in stats.values()),
           "per_variant": per, "obligation_names": res.obligations, "obligations": len(res.obligations), "discharged": len(res.discharged),
           "print_assumptions": res.assumptions}
    if report:
        for what, det, no_input in viol:
            ctx.violation(what, det, no_input=no_input)
    return {"coq": res, "stats": stats, "violations": viol, "coverage": cov,
            "trusted": ["LV.Model.TreiberFull.lin_case / decode_hist (history decoding around the verified lincheck)", "harness/C09/full_main.cpp dispose counter"],
            "assumptions": ["clear()/empty(): theorems cover container::TreiberStack<HP,int> without elimination; the intrusive variant is covered by lincheck + dispose-count monitor on sampled real runs",
                            "'handed to the disposer' is gc::retire<disposer>; that retired nodes are disposed exactly once by scan() is C01"]}
