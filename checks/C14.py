"""C14 — hash sets and maps are linearizable, including during growth (DESIGN 7, C14).

Stage A (observable correspondence, DESIGN 3.3): every container variant of the property's list is built from
/repo's working tree with the instrumented atomics, run on generated 2-3 thread programs over keys 0..5 under
the deterministic scheduler (harness/C14/tu_*.cpp, one shard per family), and every history is decided by the
verified, extracted `lincheck` (coq/Base/Lin.v, SetSpec / MapSpec).  After each case the real container is
iterated: a key met twice is a duplicate; the contents are appended to the history as quiescent contains/find
operations, so a lost or invented key makes the extended history non-linearizable.

Stage C (models + theorems): coq/Properties/Properties_C14.v, step correspondence for the split-list and
Feldman models (see run())."""
import os, json, re, time, hashlib, glob, subprocess
from concurrent.futures import ThreadPoolExecutor
import vcheck, conc_check, conc_windows2

HDIR = os.path.join(vcheck.VERIF, "harness", "C14")
EXTRA_LINK = ("-Wl,--no-as-needed", "-latomic")

OPS = {1: "insert", 2: "insert_f", 3: "update", 4: "update_noins", 5: "upsert", 6: "emplace", 7: "erase", 8: "erase_f",
       9: "unlink", 10: "extract", 11: "get", 12: "find_f", 13: "contains", 14: "upsert_noins"}
INS_OPS = (1, 2, 3, 5, 6)
DEL_OPS = (7, 8, 9, 10)
RD_OPS = (11, 12, 13)


# ------------------------------------------------------------------------------------------------------------
# builds

def shard_filter(srcs):
    """VERIF_SHARDS=tu_a,tu_b restricts a run to some shards (replays, mutation experiments); default: all"""
    only = [x for x in (os.environ.get("VERIF_SHARDS") or "").split(",") if x]
    return [s for s in srcs if not only or os.path.basename(s)[:-4] in only]


def shard_sources():
    return shard_filter(sorted(glob.glob(os.path.join(HDIR, "tu_*.cpp"))))


def hdr_hash(dirs=(HDIR,)):
    fs = []
    for d in dirs:
        fs += sorted(glob.glob(os.path.join(d, "*.h")))
    return vcheck.file_hash(fs)


def build_shards(ctx, srcs, incdirs=(HDIR,), tag="h"):
    """compile all shards in parallel (each is one g++ process); returns {shard name: exe}"""
    vcheck.libcds(True, "-O1")          # build the static library once, before the parallel compiles need it
    extra = tuple("-I" + d for d in incdirs) + ("-DC14_HDR=" + hdr_hash(incdirs),) + EXTRA_LINK
    out = {}
    errs = []

    def one(src):
        name = os.path.basename(src)[:-4]
        exe = os.path.join(ctx.work, tag, name)
        err = None
        for attempt in range(3):
            try:
                return name, vcheck.cxx_build(src, exe, hook=True, extra=extra, timeout=1500), None
            except vcheck.BuildError as e:
                err = str(e)
                if "libcds.a" not in err:       # the shared static library was removed under us (another run cleaned _work/libcds)
                    break
        return name, None, err

    with ThreadPoolExecutor(max_workers=max(2, vcheck.NCPU)) as ex:
        for name, exe, err in ex.map(one, srcs):
            if err:
                errs.append((name, err))
            else:
                out[name] = exe
    if errs:
        raise vcheck.BuildError("harness shard(s) do not build: %s\n%s" % ([n for n, _ in errs], errs[0][1][-3500:]))
    return out


def build_lincheck(ctx):
    """the verified checker: extraction of LV.Base.Lin + LV.Spec.Specs behind ocaml/lincheck_main.ml"""
    d = os.path.join(vcheck.WORK, "lincheck")
    os.makedirs(d, exist_ok=True)
    srcs = [os.path.join(vcheck.COQ, "Extract", "Extract_Lin.v"), os.path.join(vcheck.VERIF, "ocaml", "lincheck_main.ml"),
            os.path.join(vcheck.COQ, "Base", "Lin.v"), os.path.join(vcheck.COQ, "Spec", "Specs.v")]
    key = vcheck.file_hash(srcs)
    exe = os.path.join(d, "lincheck")
    stamp = exe + ".key"
    if os.path.exists(exe) and os.path.exists(stamp) and open(stamp).read() == key:
        return exe
    vcheck.coq_makefile()
    rc, out = vcheck.sh(["make", "-j%d" % vcheck.NCPU, "Base/Lin.vo", "Spec/Specs.vo"], cwd=vcheck.COQ, timeout=900)
    if rc != 0:
        raise vcheck.BuildError("Lin/Specs do not build:\n" + out[-3000:])
    tmp = os.path.join(d, "b%d" % os.getpid())
    os.makedirs(tmp, exist_ok=True)
    rc, out = vcheck.extract("Extract_Lin.v", tmp)
    if rc != 0:
        raise vcheck.BuildError("extraction of lincheck failed:\n" + out[-3000:])
    rc, out = vcheck.ocaml_build(tmp, ["lin.mli", "lin.ml", os.path.join(vcheck.VERIF, "ocaml", "lincheck_main.ml")], os.path.join(tmp, "lincheck"))
    if rc != 0:
        raise vcheck.BuildError("ocaml build of lincheck failed:\n" + out[-3000:])
    os.replace(os.path.join(tmp, "lincheck"), exe)
    open(stamp, "w").write(key)
    return exe


def list_variants(exe):
    rc, out = vcheck.sh([exe, "--list"], timeout=60)
    vs = []
    for l in out.strip().split("\n"):
        t = l.split(" ")
        if len(t) >= 5:
            vs.append({"idx": int(t[0]), "name": t[1], "kind": t[2], "family": t[3], "opmask": int(t[4])})
    return vs


# ------------------------------------------------------------------------------------------------------------
# generation

def gen_sched(rng, nthreads, kind):
    if kind == 0:      # uniform
        return [rng.below(nthreads) for _ in range(20 + rng.below(120))]
    if kind == 1:      # bursty
        s = []
        for _ in range(2 + rng.below(10)):
            s += [rng.below(nthreads)] * (1 + rng.below(25))
        return s
    if kind == 2:      # run one thread to a point, then another one for a long time, then mix
        a = rng.below(nthreads)
        b = (a + 1 + rng.below(nthreads - 1)) % nthreads
        return [a] * (2 + rng.below(40)) + [b] * (5 + rng.below(80)) + [rng.below(nthreads) for _ in range(rng.below(40))]
    return []          # strict round robin from the first step


def gen_cfg(rng, v):
    fam = v["family"]
    if fam == "feldman":
        hk = rng.below(8)
        if rng.chance(3, 4):
            return [v["idx"], hk, 1, 1]                 # head/array bits raised to the minimums 4 / 2
        return [v["idx"], hk, rng.choice([4, 5, 6]), rng.choice([2, 3, 4])]
    hk = rng.below(8)
    if fam == "split" or fam == "split_static":
        # (2,2) with a static table asked for capacity 1 although SplitListSet starts with 2 buckets (fixed in /repo 74287cb;
        # regression: corpus/C14/split_static_capacity1.json)
        return [v["idx"], hk, rng.choice([2, 4, 8, 8, 16]), 1 if rng.chance(4, 5) else 2]
    return [v["idx"], hk, rng.choice([1, 2, 4, 8]), rng.choice([1, 1, 2])]


def gen_program(rng, v, nthreads, unlink_mode=False):
    mask = v["opmask"]
    avail = [o for o in OPS if mask & (1 << o)]
    ins = [o for o in avail if o in INS_OPS]
    dels = [o for o in avail if o in DEL_OPS and o != 9]
    rds = [o for o in avail if o in RD_OPS]
    others = [o for o in avail if o in (4, 14)]
    shape = rng.below(4)
    nkeys = 2 + rng.below(5)                            # 2..6 distinct keys in play
    keys = []
    while len(keys) < nkeys:
        k = rng.below(6)
        if k not in keys:
            keys.append(k)
    threads = []
    for t in range(nthreads):
        ops = []
        n = 2 + rng.below(3) if shape != 1 else 3 + rng.below(3)
        for _ in range(n):
            k = rng.choice(keys)
            r = rng.below(100)
            if shape == 1:          # insert-heavy: forces growth / expansion
                code = rng.choice(ins) if r < 70 or not dels else (rng.choice(dels) if r < 85 else rng.choice(rds))
            elif shape == 2 and dels:   # erase/insert ping-pong on few keys
                k = keys[rng.below(min(2, len(keys)))]
                code = rng.choice(ins) if r < 45 else (rng.choice(dels) if r < 85 else rng.choice(rds + others))
            else:
                if r < 40 or not dels:
                    code = rng.choice(ins)
                elif r < 65:
                    code = rng.choice(dels)
                elif r < 75 and others:
                    code = rng.choice(others)
                else:
                    code = rng.choice(rds)
            if unlink_mode:
                # unlink(k) is "erase k" only if the caller is the single inserter of k: keys are owned by k mod nthreads
                if code in INS_OPS and k % nthreads != t:
                    own = [x for x in keys if x % nthreads == t]
                    if own:
                        k = rng.choice(own)
                    else:
                        code = rng.choice(rds)
                if code in DEL_OPS and k % nthreads == t and rng.chance(1, 2):
                    code = 9
            ops.append([code, k, 1 + rng.below(9)])
        threads.append(ops)
    return threads


def gen_case(rng, v, cid):
    nthreads = 2 if rng.chance(3, 5) else 3
    unlink_mode = bool(v["opmask"] & (1 << 9)) and rng.chance(1, 2)
    return {"id": cid, "cfg": gen_cfg(rng, v), "threads": gen_program(rng, v, nthreads, unlink_mode),
            "sched": gen_sched(rng, nthreads, rng.below(4))}


FHASH = [
    [0, 1, 2, 3, 4, 5],                                             # different head slots
    [k << 28 | 0x0ABCDEF for k in range(6)],                        # 28 shared low bits: deepest expansion (head 4 + 12 x 2 bits)
    [k << 6 | 0x15 for k in range(6)],                              # same head slot, split one level down
    [(k & 1) << 30 | (k >> 1) << 10 | 0x3FF for k in range(6)],
    [k << 4 for k in range(6)],
    [(k * 0x9E3779B1) & 0xFFFFFFFF for k in range(6)],
    [(k << 29 | k) & 0xFFFFFFFF for k in range(6)],
]


def gen_step_feldman(rng, n):
    """step-correspondence cases for LV.Model.Feldman: cfg = [loop fuel, head bits, array bits, hashes of keys 0..5]"""
    cases = []
    for i in range(n):
        nthreads = 2 if rng.chance(2, 3) else 3
        hb, ab = (4, 2) if rng.chance(3, 4) else rng.choice([(4, 4), (6, 2), (8, 4), (5, 3)])
        hs = rng.choice(FHASH)
        nkeys = 2 + rng.below(4)
        keys = []
        while len(keys) < nkeys:
            k = rng.below(6)
            if k not in keys:
                keys.append(k)
        threads = []
        for t in range(nthreads):
            ops = []
            for _ in range(1 + rng.below(4)):
                r = rng.below(100)
                code = 1 if r < 40 else (3 if r < 55 else (4 if r < 62 else (7 if r < 85 else 13)))
                ops.append([code, rng.choice(keys)])
            threads.append(ops)
        cases.append({"id": "f%d" % i, "cfg": [60, hb, ab] + hs, "threads": threads, "sched": gen_sched(rng, nthreads, rng.below(4))})
    return cases


SHASH = [
    [0, 1, 2, 3, 4, 5],                 # identity: one key per bucket once the table has grown
    [0, 0, 0, 0, 0, 0],                 # constant: everything in bucket 0
    [1, 1, 3, 3, 3, 1],                 # two odd hashes: bucket 1, then 1 / 3
    [5, 13, 21, 29, 37, 45],            # same low 3 bits: same bucket up to 8 buckets
    [2, 6, 4, 0, 7, 3],
    [7, 7, 6, 6, 5, 5],
]


def gen_step_splitlist(rng, n):
    """step-correspondence cases for LV.Model.SplitList: cfg = [loop fuel, table capacity (= constructor item count), hashes]"""
    cases = []
    for i in range(n):
        nthreads = 2 if rng.chance(2, 3) else 3
        hs = rng.choice(SHASH)
        nkeys = 2 + rng.below(5)
        keys = []
        while len(keys) < nkeys:
            k = rng.below(6)
            if k not in keys:
                keys.append(k)
        threads = []
        for t in range(nthreads):
            ops = []
            for _ in range(1 + rng.below(4)):
                r = rng.below(100)
                code = 1 if r < 55 else (7 if r < 80 else 13)
                ops.append([code, rng.choice(keys)])
            threads.append(ops)
        cases.append({"id": "s%d" % i, "cfg": [80, rng.choice([32, 32, 64])] + hs, "threads": threads, "sched": gen_sched(rng, nthreads, rng.below(4))})
    return cases


# ------------------------------------------------------------------------------------------------------------
# model-guided window schedules for the two step models (lib/conc_windows2.py): thread 0 fills the set, then 2-3 participants
# collide on the same slot / bucket / list position; the victim is stalled before each of its CAS (and before every other
# access), the actor runs exactly through one of its writes (or its whole program), also from the states in which a third
# participant is parked right after one of ITS writes (slot being expanded, node marked but not unlinked, bucket being
# initialised).
#   (name, index into FHASH / SHASH, (head bits, array bits) | table capacity, set-up operations, programs of the participants)
WINDOW_FELDMAN = [
    ("same_slot_ins_ins", 2, (4, 2), [], [[[1, 0]], [[1, 1]], [[1, 0]]]),
    ("expand_vs_erase", 2, (4, 2), [[1, 0]], [[[1, 1]], [[7, 0]], [[13, 0]]]),
    ("erase_erase_update", 2, (4, 2), [[1, 0], [1, 1]], [[[7, 0]], [[7, 0]], [[3, 0]]]),
    ("update_update_erase", 0, (4, 2), [[1, 0]], [[[3, 0]], [[4, 0]], [[7, 0]]]),
    ("expand_three", 2, (4, 2), [[1, 0]], [[[1, 1]], [[1, 2]], [[7, 0]]]),
    ("erase_then_ins", 0, (4, 2), [[1, 0]], [[[7, 0], [1, 0]], [[1, 0]], [[13, 0]]]),
    ("deep_expand", 1, (4, 2), [[1, 0]], [[[1, 1]], [[7, 0]], [[3, 1]]]),
    ("ins_erase_pairs", 2, (4, 2), [], [[[1, 0], [7, 0]], [[1, 1], [7, 1]]]),
    ("wide_arrays", 3, (4, 4), [[1, 0], [1, 2]], [[[1, 4]], [[7, 0]], [[3, 2]]]),
]
WINDOW_SPLITLIST = [
    ("same_key_same_bucket", 0, 32, [], [[[1, 1]], [[1, 1]], [[13, 1]]]),
    ("growth", 0, 32, [[1, 0], [1, 1]], [[[1, 2]], [[1, 3]], [[7, 1]]]),
    ("one_bucket", 1, 32, [[1, 0]], [[[1, 1]], [[7, 0]], [[1, 2]]]),
    ("same_low_bits", 3, 32, [[1, 0]], [[[1, 1]], [[1, 2]], [[7, 0]]]),
    ("colliding_hashes", 2, 32, [[1, 0]], [[[7, 0], [1, 0]], [[13, 0], [1, 3]], [[1, 2]]]),
    ("erase_erase_ins", 0, 32, [[1, 0], [1, 1], [1, 2]], [[[7, 1]], [[7, 1]], [[1, 1]]]),
    ("bucket_chain", 0, 64, [], [[[1, 3]], [[1, 1]], [[1, 5]]]),
    ("erase_neighbours", 4, 32, [[1, 0], [1, 1], [1, 2]], [[[7, 0]], [[7, 1]], [[1, 3]]]),
]
WINDOW_QUICK_PER_MODEL = 420
WINDOW_QUICK_CANDIDATES = 3000
WINDOW_THOROUGH_PER_MODEL = 12000        # beyond that: stratified subsample of the enumeration


def gen_window_cases(ctx, tag, model, rng):
    """-> (cases, generator info); quick: model-guided selection of WINDOW_QUICK_PER_MODEL schedules, thorough: the enumeration"""
    templates = []
    if tag == "feldman":
        for name, hi, (hb, ab), setup, parts in WINDOW_FELDMAN:
            templates.append({"name": name, "cfg": [60, hb, ab] + FHASH[hi], "threads": [setup] + parts, "setup": 1})
    else:
        for name, hi, cap, setup, parts in WINDOW_SPLITLIST:
            templates.append({"name": name, "cfg": [80, cap] + SHASH[hi], "threads": [setup] + parts, "setup": 1})
    th = ctx.thorough()
    wdir = os.path.join(ctx.work, "wprobe_" + tag)
    cases, info = conc_windows2.expand(model, wdir, templates, "w%s_" % tag[:2], fuel=60000,
                                       r_values=tuple(range(0, 13)) if th else (0, 1, 2, 3, 5, 8, 12), read_points=True,
                                       staged=True, max_ws=4 if th else 2, staged_max_wa=4 if th else 3,
                                       staged_r_values=(0, 1, 2, 3, 5, 8) if th else (0, 1, 3, 6), lazy=True)
    info["enumerated"] = len(cases)
    if th:
        cases = conc_windows2.stratified(rng, cases, WINDOW_THOROUGH_PER_MODEL)
    else:
        cases = conc_windows2.stratified(rng, cases, WINDOW_QUICK_CANDIDATES)
        paths = conc_windows2.model_paths(model, wdir, cases, "w" + tag[:2], fuel=60000)
        cases, info["selection"] = conc_windows2.select_by_cover(rng, cases, paths, WINDOW_QUICK_PER_MODEL)
    cases = conc_windows2.finalize(cases)
    info["run"] = len(cases)
    info.pop("per_template", None)
    return cases, info


def step_history(lines, keys):
    """lincheck (SetSpec) text of one step-harness log + the quiescent contents as reads of an observer thread"""
    h = []
    cur = {}
    for l in lines:
        t = l.split(" ")
        if len(t) < 3 or t[1] != "ev":
            continue
        tid = t[0]
        if t[2] == "inv":
            code, k = int(t[3]), int(t[4])
            op = {1: "insert %d" % k, 3: "update %d true" % k, 4: "update %d false" % k, 7: "erase %d" % k}.get(code, "contains %d" % k)
            cur[tid] = code
            h.append("inv %s %s" % (tid, op))
        elif t[2] == "ret" and tid in cur:
            code = cur.pop(tid)
            a, b = int(t[3]), int(t[4])
            h.append("res %s %s" % (tid, ("pair %s %s" % ("true" if a else "false", "true" if b else "false")) if code in (3, 4) else ("true" if a else "false")))
    if keys is not None:
        for k in range(6):
            h += ["inv 90 contains %d" % k, "res 90 %s" % ("true" if k in keys else "false")]
    return h


# ------------------------------------------------------------------------------------------------------------
# running and deciding

def parse_output(text):
    res = {}
    cur = None
    for line in text.split("\n"):
        line = line.rstrip()
        if line.startswith("case "):
            cur = {"variant": None, "kind": None, "hist": [], "final": [], "monitor": [], "info": [], "end": None}
            res[line[5:].strip()] = cur
        elif cur is None:
            continue
        elif line.startswith("variant "):
            cur["variant"] = line[8:]
        elif line.startswith("kind "):
            cur["kind"] = line[5:]
        elif line.startswith("h "):
            cur["hist"].append(line[2:])
        elif line.startswith("final "):
            t = line.split()
            cur["final"].append((int(t[1]), int(t[2])))
        elif line.startswith("monitor "):
            cur["monitor"].append(line[8:])
        elif line.startswith("info "):
            cur["info"].append(line[5:])
        elif line.startswith("endcase"):
            cur["end"] = line[8:].strip()
    return res


def final_ops(kind, final, keys=range(6)):
    """quiescent observation of the real container as operations of thread 0 appended to the history"""
    m = {}
    for k, v in final:
        m[k] = v
    out = []
    for k in keys:
        if kind == "map":
            out.append("inv 0 find %d" % k)
            out.append("res 0 " + ("some %d" % m[k] if k in m else "none"))
        else:
            out.append("inv 0 contains %d" % k)
            out.append("res 0 " + ("true" if k in m else "false"))
    return out


def decide(lincheck, kind, histories):
    """histories: list of list of lines -> verdicts"""
    if not histories:
        return []
    txt = "\n---\n".join("\n".join(h) if h else "# empty" for h in histories) + "\n---\n"
    p = subprocess.run([lincheck, kind], input=txt, stdout=subprocess.PIPE, stderr=subprocess.STDOUT, text=True, timeout=1200)
    v = [l for l in p.stdout.split("\n") if l]
    return v[:len(histories)] if len(v) >= len(histories) else v + ["ERROR short output"] * (len(histories) - len(v))


def overlaps(hist):
    """non-trivial = two operations on the same key overlap in time and one of them is an update operation"""
    open_ops = {}
    nontrivial = False
    for l in hist:
        t = l.split()
        if t[0] == "inv":
            tid, op, key = t[1], t[2], t[3] if len(t) > 3 else None
            for (o2, k2) in open_ops.values():
                if k2 == key and (op not in ("contains", "find") or o2 not in ("contains", "find")):
                    nontrivial = True
            open_ops[tid] = (op, key)
        elif t[0] == "res":
            open_ops.pop(t[1], None)
    return nontrivial


def run_shard(ctx, name, exe, cases, lincheck, tag="cases"):
    """-> dict with per-case results"""
    d = os.path.join(ctx.work, "run")
    os.makedirs(d, exist_ok=True)
    cf = os.path.join(d, "%s_%s.txt" % (tag, name))
    conc_check.write_cases(cf, cases)
    rc, out = vcheck.sh([exe, cf], timeout=1500)
    logs = parse_output(out)
    results = {"rc": rc, "logs": logs, "verdicts": {}, "raw_tail": out[-1500:]}
    by_kind = {"set": [], "map": []}
    for c in cases:
        lg = logs.get(c["id"])
        if lg is None or lg["end"] != "finished":
            continue
        by_kind[lg["kind"]].append((c["id"], lg))
    for kind, lst in by_kind.items():
        hs = []
        for cid, lg in lst:
            hs.append(lg["hist"])
            hs.append(lg["hist"] + final_ops(kind, lg["final"]))
        vs = decide(lincheck, kind, hs)
        for i, (cid, lg) in enumerate(lst):
            results["verdicts"][cid] = (vs[2 * i], vs[2 * i + 1])
    return results


def judge(ctx, shard, cases, results, stats, report=True):
    """turn the results of one shard into violations + statistics; returns number of bad cases"""
    bad = 0
    logs = results["logs"]
    for c in cases:
        lg = logs.get(c["id"])
        if lg is None:
            continue
        vname = lg["variant"] or "?"
        st = stats.setdefault(vname, {"cases": 0, "finished": 0, "lin_ok": 0, "nontrivial": 0, "ops": {}, "fuel": 0, "info": {}})
        st["cases"] += 1
        for th in c["threads"]:
            for op in th:
                st["ops"][OPS.get(op[0], "?")] = st["ops"].get(OPS.get(op[0], "?"), 0) + 1
        for inf in lg["info"]:
            t = inf.split()
            for i in range(0, len(t) - 1, 2):
                try:
                    if int(t[i + 1]) > 0:
                        st["info"][t[i]] = st["info"].get(t[i], 0) + 1
                except ValueError:
                    pass
        rep = {"shard": shard, "variant": vname, "case": c, "history": lg["hist"], "final": lg["final"], "monitor": lg["monitor"], "info": lg["info"]}
        if lg["end"] == "hang" or any(m.startswith("hang") for m in lg["monitor"]):
            bad += 1
            if report:
                ctx.violation("real container does not terminate (corrupted structure?) in %s" % vname, rep)
            continue
        if lg["end"] != "finished":
            st["fuel"] += 1
            continue
        st["finished"] += 1
        if lg["monitor"]:
            bad += 1
            if report:
                ctx.violation("harness monitor on the real %s: %s" % (vname, lg["monitor"][0]), rep)
        keys = [k for k, _ in lg["final"]]
        dups = sorted(set(k for k in keys if keys.count(k) > 1))
        if dups:
            bad += 1
            if report:
                ctx.violation("key present twice in the real %s (iteration after the run)" % vname, dict(rep, duplicate_keys=dups))
        v = results["verdicts"].get(c["id"])
        if v is None:
            continue
        if v[0] != "OK":
            bad += 1
            if report:
                ctx.violation("history of the real %s is not linearizable to the sequential %s (verified lincheck: %s)" % (vname, lg["kind"], v[0]), rep)
        elif v[1] != "OK":
            bad += 1
            if report:
                ctx.violation("contents of the real %s after the run disagree with every linearization of the history (lost or invented key/value; lincheck on history + quiescent reads: %s)" % (vname, v[1]), rep)
        else:
            st["lin_ok"] += 1
            if overlaps(lg["hist"]):
                st["nontrivial"] += 1
    if results["rc"] not in (0,) and report:
        # crash or hang: the case being run is the last one that printed "case"
        last = None
        for c in cases:
            if c["id"] in logs:
                last = c
        bad += 1
        ctx.violation("harness shard %s exits with status %s (crash/hang of the real container)" % (shard, results["rc"]),
                      {"shard": shard, "case": last, "output_tail": results["raw_tail"]})
    return bad


def breadth(ctx, lincheck, per_variant):
    exes = build_shards(ctx, shard_sources())
    stats = {}
    breadth.samples = []
    jobs = []
    allcases = {}
    corpus = []
    cdir = os.path.join(vcheck.VERIF, "corpus", "C14")
    for f in sorted(glob.glob(os.path.join(cdir, "*.json"))):
        try:
            corpus.append(json.load(open(f)))
        except Exception:
            pass
    for name in sorted(exes):
        vs = list_variants(exes[name])
        cases = [dict(c["case"], id="corpus%d" % i) for i, c in enumerate(corpus) if c.get("shard") == name and c.get("case")]
        for v in vs:
            rng = vcheck.SplitMix64(ctx.seed * 1000003 + int(hashlib.sha256(v["name"].encode()).hexdigest()[:12], 16))
            for i in range(per_variant):
                cases.append(gen_case(rng, v, "v%d_%d" % (v["idx"], i)))
        allcases[name] = cases
        jobs.append(name)
        if cases and len(breadth.samples) < 3:
            breadth.samples.append({"shard": name, "case": cases[-1]})
    with ThreadPoolExecutor(max_workers=max(2, vcheck.NCPU)) as ex:
        res = list(ex.map(lambda n: (n, run_shard(ctx, n, exes[n], allcases[n], lincheck)), jobs))
    bad = 0
    for name, r in res:
        bad += judge(ctx, name, allcases[name], r, stats)
    return stats, sum(len(c) for c in allcases.values()), bad, len(corpus)



# ------------------------------------------------------------------------------------------------------------
# step correspondence (DESIGN 3.2): extracted step-grain models against the real code, event by event

STEP_MODELS = [
    # (tag, extraction file, harness source, generator, what is modelled)
    ("feldman", "Extract_Feldman.v", "step_feldman.cpp", "gen_step_feldman",
     "LV.Model.Feldman vs cds::intrusive::FeldmanHashSet<HP> (traverse, expand_slot, insert, do_update, do_erase, find; cds/intrusive/impl/feldman_hashset.h, details/feldman_hashset_base.h)"),
    ("splitlist", "Extract_SplitList.v", "step_splitlist.cpp", "gen_step_splitlist",
     "LV.Model.SplitList vs cds::intrusive::SplitListSet<HP, MichaelList> (get_bucket, init_bucket, inc_item_count, list operations; cds/intrusive/split_list.h, details/split_list_base.h)"),
]


def step_stage(ctx, n):
    """-> (statistics, list of (tag, case, first divergence))"""
    stats = {}
    divs = []
    for tag, extract_v, hsrc, gen, what in STEP_MODELS:
        if not os.path.exists(os.path.join(vcheck.COQ, "Extract", extract_v)) or not os.path.exists(os.path.join(HDIR, hsrc)):
            continue
        model = conc_check.build_model(ctx, extract_v, tag="model_" + tag)
        impl = None
        for attempt in range(3):
            try:
                impl = vcheck.cxx_build(os.path.join(HDIR, hsrc), os.path.join(ctx.work, "step", hsrc[:-4]), hook=True,
                                        extra=("-I" + HDIR, "-DC14_HDR=" + hdr_hash()) + EXTRA_LINK)
                break
            except vcheck.BuildError as e:
                if "libcds.a" not in str(e) or attempt == 2:
                    raise
        rng = vcheck.SplitMix64(ctx.seed * 31 + len(tag))
        cases = globals()[gen](rng, n)
        wcases, winfo = gen_window_cases(ctx, tag, model, vcheck.SplitMix64(ctx.seed * 131 + len(tag)))
        cases = cases + wcases
        # split into chunks: all cores
        chunks = [cases[j::8] for j in range(8)]
        def one(j):
            if not chunks[j]:
                return None
            return conc_check.run_both(ctx, model, impl, chunks[j], tag="step_%s_%d" % (tag, j), fuel=60000)
        with ThreadPoolExecutor(max_workers=8) as ex:
            outs = list(ex.map(one, range(8)))
        st = {"cases": len(cases), "agree": 0, "diverged": 0, "diverged_window_schedules": 0, "model_out_of_fuel": 0, "impl_steps_compared": 0, "contended": 0,
              "monitor_bad": 0, "modelled": what}
        allimpl = {}
        hist_cases = []
        for j, o in enumerate(outs):
            if o is None:
                continue
            rc1, ml, rc2, il, raw = o
            for c in chunks[j]:
                m = ml.get(c["id"]); i = il.get(c["id"])
                if m is None or i is None:
                    st["diverged"] += 1
                    divs.append((tag, c, {"index": -1, "model": "<no output>" if m is None else "ok", "impl": "<no output>" if i is None else "ok", "prefix": []}))
                    continue
                st["impl_steps_compared"] += len(i["lines"])
                allimpl[c["id"]] = i
                fkeys = None
                for x in i["extra"]:
                    if x.startswith("monitor keys"):
                        fkeys = [int(z) for z in x.split()[2:]]
                if i["end"] == "finished":
                    hist_cases.append((c, step_history(i["lines"], fkeys)))
                for x in i["extra"]:
                    if x.startswith("monitor keys"):
                        ks = x.split()[2:]
                        if len(set(ks)) != len(ks):
                            st["monitor_bad"] += 1
                            ctx.violation("key present twice in the real container (step harness %s, iteration after the run)" % tag, {"case": c, "keys": ks, "impl_log": i["lines"]})
                d = conc_check.compare(m, i)
                if d is not None and "outoffuel" in d["model"]:
                    st["model_out_of_fuel"] += 1      # the model's loop fuel ran out while spinning: prefix agreement only
                    continue
                if d is not None:
                    st["diverged"] += 1
                    st["diverged_window_schedules"] += 1 if c.get("kind") == "window" else 0
                    divs.append((tag, c, d))
                else:
                    st["agree"] += 1
                    if any(l.split(" ")[1] == "cas" and l.endswith(" 0") for l in m["lines"]):
                        st["contended"] += 1          # at least one failed CAS: threads really interfered
        # implementation-side monitor of the step harness: the history of every window schedule (and, once the correspondence
        # has broken, of every step case) + the quiescent contents is decided by the verified lincheck
        todo = [(c, h) for c, h in hist_cases if c.get("kind") == "window" or st["diverged"]]
        lin = getattr(ctx, "c14_lincheck", None)
        st["step_histories_decided_by_lincheck"] = 0
        if lin and todo:
            for (c, h), v in zip(todo, decide(lin, "set", [h for _, h in todo])):
                st["step_histories_decided_by_lincheck"] += 1
                if v != "OK":
                    st["monitor_bad"] += 1
                    ctx.violation("history of the real container in the %s step harness is not linearizable to the sequential set, or its contents after the run disagree with every linearization (verified lincheck: %s)" % (tag, v),
                                  {"step": tag, "case": c, "history": h, "impl_log": allimpl[c["id"]]["lines"][:600]})
        ws = conc_windows2.event_stats(cases, allimpl)
        ws["generator"] = winfo
        ws["rule"] = ("victim stalled before each CAS and before every other access, actor runs exactly through one of its writes (measured on the model in "
                      "that state) or its whole program, victim gets r more steps, third thread before / after / in between; also from states with a participant "
                      "parked right after one of its writes; with_retry_path = a thread executed more CAS than in its solo run")
        st["window_schedules"] = ws
        ctx.log("step[%s] windows: %d schedules, %d with a failed CAS, %d with a retry/helping path, %d diverged" % (tag, ws["window_cases"], ws["with_failed_cas"], ws["with_retry_path"], st["diverged_window_schedules"]))
        stats[tag] = st
    return stats, divs


def step_replay(ctx, lincheck, tag, case):
    """re-run one step case on model and real code: first divergence + verdict of the verified lincheck on the real history"""
    spec = [m for m in STEP_MODELS if m[0] == tag][0]
    model = conc_check.build_model(ctx, spec[1], tag="model_" + tag)
    impl = vcheck.cxx_build(os.path.join(HDIR, spec[2]), os.path.join(ctx.work, "step", spec[2][:-4]), hook=True,
                            extra=("-I" + HDIR, "-DC14_HDR=" + hdr_hash()) + EXTRA_LINK)
    c = {k: case[k] for k in ("id", "cfg", "threads", "sched")}
    rc1, ml, rc2, il, raw = conc_check.run_both(ctx, model, impl, [c], tag="step_replay", fuel=60000)
    m = ml.get(c["id"]); i = il.get(c["id"])
    if m is None or i is None:
        ctx.violation("step harness %s: no output on the replayed case" % tag, {"step": tag, "case": case})
        return 1
    d = conc_check.compare(m, i)
    fkeys = None
    for x in i["extra"]:
        if x.startswith("monitor keys"):
            fkeys = [int(z) for z in x.split()[2:]]
    h = step_history(i["lines"], fkeys)
    v = decide(lincheck, "set", [h])[0] if i["end"] == "finished" else "not finished"
    ctx.log("step replay %s: first divergence %s, lincheck %s" % (tag, d, v))
    if v not in ("OK", "not finished"):
        ctx.violation("history of the real container in the %s step harness is not linearizable to the sequential set, or its contents after the run disagree with every linearization (verified lincheck: %s)" % (tag, v),
                      {"step": tag, "case": case, "history": h})
        return 1
    if d is not None and "outoffuel" not in d["model"]:
        ctx.violation("step correspondence between the %s model and the real code no longer holds" % tag, {"step": tag, "case": case, "first_divergence": d}, no_input=True)
        return 1
    return 0


def replay(ctx, lincheck):
    rp = json.load(open(ctx.replay))
    shard = rp.get("shard")
    case = rp.get("case")
    if rp.get("step") and case:
        return step_replay(ctx, lincheck, rp["step"], case)
    if not shard or not case:
        ctx.log("replay file has no shard/case: nothing to re-run")
        return 0
    src = os.path.join(HDIR, shard + ".cpp")
    exes = build_shards(ctx, [src])
    r = run_shard(ctx, shard, exes[shard], [case], lincheck, tag="replay")
    stats = {}
    bad = judge(ctx, shard, [case], r, stats)
    ctx.log("replay of %s on %s: %s" % (case.get("id"), shard, "VIOLATION reproduced" if bad else "no violation"))
    lg = r["logs"].get(case["id"])
    if lg:
        print("\n".join(lg["hist"] + ["final %d %d" % f for f in lg["final"]] + ["monitor " + m for m in lg["monitor"]]))
    return bad


def run(ctx):
    lincheck = build_lincheck(ctx)
    if ctx.replay:
        replay(ctx, lincheck)
        ctx.coverage.update({"obligations": 0, "discharged": 0, "checker_cmd": "replay only"})
        return ctx.finish(vcheck.STD_TRUSTED)
    props = ["Properties/Properties_C14.v"] if os.path.exists(os.path.join(vcheck.COQ, "Properties", "Properties_C14.v")) else []
    res = None
    if props:
        res = vcheck.coq_build(props)
        ctx.coq_evidence(res)
    per_variant = 400 if ctx.thorough() else 60
    ctx.c14_lincheck = lincheck
    t0 = time.time()
    if os.environ.get("VERIF_ONLY") == "step":
        # mutation experiments on the step-modelled code: the breadth stage (19 harness shards) is skipped
        stats, ncases, bad, ncorpus = {}, 0, 0, 0
        ctx.coverage["restricted_run"] = "VERIF_ONLY=step"
    else:
        stats, ncases, bad, ncorpus = breadth(ctx, lincheck, per_variant)
    ctx.log("breadth: %d cases over %d variants, %d bad, %.1fs" % (ncases, len(stats), bad, time.time() - t0))
    t1 = time.time()
    sstats, divs = step_stage(ctx, 6000 if ctx.thorough() else 1000)
    ctx.log("step correspondence: %s, %.1fs" % ({k: (v["agree"], v["diverged"]) for k, v in sstats.items()}, time.time() - t1))
    if divs and bad == 0 and not any(v["monitor_bad"] for v in sstats.values()):
        # the correspondence broke and neither lincheck on the breadth run nor the monitors found a failing input
        seen = set()
        for tag, c, d in divs:          # the first divergence of every step model
            if tag in seen:
                continue
            seen.add(tag)
            ctx.violation("step correspondence between the %s model and the real code no longer holds" % tag,
                          {"step": tag, "correspondence": [m[4] for m in STEP_MODELS if m[0] == tag][0], "case": c, "first_divergence": d,
                           "diverged_cases": sum(1 for x in divs if x[0] == tag)}, no_input=True)
    if res is not None and not res.ok:
        ctx.violation("Coq obligations of C14 do not check: %s" % (res.failed[:2],), {"theorem": [f[2] for f in res.failed], "errors": res.failed[:3]}, no_input=True)
    fam = {}
    for vn, st in stats.items():
        fam[vn] = {k: st[k] for k in ("cases", "finished", "lin_ok", "nontrivial", "fuel")}
        if st["info"]:
            fam[vn]["cases_with"] = st["info"]
    ops = {}
    for st in stats.values():
        for o, n in st["ops"].items():
            ops[o] = ops.get(o, 0) + n
    ctx.coverage.update({
        "evaluations": ncases,
        "distinct_nontrivial": sum(st["nontrivial"] for st in stats.values()),
        "rule": "one evaluation = one (variant, configuration, 2-3 thread program over keys 0..5, schedule) run on the real container under the deterministic scheduler, its history decided by the verified lincheck (twice: history alone, history + quiescent contents); non-trivial = linearizable history in which two operations on the same key overlap in time and at least one of them is an update",
        "variants": len(stats), "per_variant": fam, "operation_histogram": ops, "corpus_cases": ncorpus,
        "histories_decided_by_verified_lincheck": sum(st["finished"] for st in stats.values()),
        "traces_validated_against_impl": sum(st["lin_ok"] for st in stats.values()) + sum(v["agree"] for v in sstats.values()),
        "step_correspondence": sstats,
        "samples": getattr(breadth, "samples", []),
        "modelled": "step grain: FeldmanHashSet<HP> (LV.Model.Feldman), SplitListSet<HP,MichaelList> (LV.Model.SplitList); all other variants: observable correspondence only",
    })
    if "obligations" not in ctx.coverage:
        ctx.coverage.update({"obligations": 0, "discharged": 0, "checker_cmd": "n/a (stage A only)"})
    return ctx.finish(vcheck.STD_TRUSTED + ["hook layer: khizmax_libcds_verif::atomic<T>, baton scheduler (hooks/include)", "ocaml/lincheck_main.ml (text parser of the verified checker)",
                                            "harness/C14 adapters (mapping of container calls to SetSpec/MapSpec operations)"],
                      ["sequential consistency: memory_order arguments are not exercised", "compare_exchange_weak never fails spuriously under the hook",
                       "RCU flavours general_instant / general_buffered instantiated with cds::sync::spin as lock (a std::mutex held across a scheduling point would block the baton scheduler); signal-handling RCU not run",
                       "map values: functors that run after the node is linked (insert_with, update on a new node) do not write the value (documented non-atomicity)"])
