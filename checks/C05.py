"""C05 — RCU disposes every retired object exactly once (DESIGN 7, C05); also the buffered / threaded / signal
flavours of C04 (same monitors).

Parts:
  A  step correspondence LV.Model.RcuBuf <-> cds::urcu::gc<general_buffered<AtomicBuf<Vyukov queue>, spin_lock, empty>>
     (the buffer type executes every queue operation atomically: the abstract FIFO of the model), capacities 1, 2, 3, 4,
     counting and non-counting buffer; monitors of C04 and C05 on the real code.
  B  the same programs and schedules on general_buffered with the DEFAULT buffer type (queue internals scheduled):
     monitors only ("observable").
  C  exploration of the real code with real threads (hook off): general_threaded<>, signal_buffered<> (cannot run
     under the baton scheduler) and the default general_instant<> / general_buffered<> (std::mutex): monitors only.
  D  general_threaded< Buffer, spin lock, wrapped dispose_thread, empty back-off > under the baton scheduler with the
     reclamation thread unscheduled, aimed run-to-a-point schedules (checks/C04_gpt.py, harness/C04/gpt_sched.cpp):
     monitors only.
"""
import os, json, subprocess, time
import vcheck, conc_check
import C04

CAPS = [1, 2, 3, 4]


def cfg_gen(cnt):
    def f(rng):
        return [2, 3000, rng.choice(CAPS), cnt, 60]
    return f


def buf_histogram(ilines, extra):
    """branches of push_buffer / clear_buffer, from the (implementation) log of an atomic-buffer run"""
    h = {}
    def inc(k): h[k] = h.get(k, 0) + 1
    objs = None
    for x in extra:
        if x.startswith("monitor bufobjs"):
            objs = x.split()[2:5]
    if not objs:
        return h
    push, pop, size = objs
    per = {}
    for l in ilines:
        t = l.split(" ")
        if len(t) >= 4 and t[1] not in ("ev", "begin"):
            per.setdefault(t[0], []).append((t[1], t[2], t[3]))
    for th, acc in per.items():
        for i, (k, o, ok) in enumerate(acc):
            if o == push:
                inc("push_ok" if ok == "1" else "push_full")
                if i > 0 and acc[i - 1][1] == pop and acc[i - 1][2] == "1":
                    inc("clear_buffer_repush")
                    if ok != "1":
                        inc("repush_overflow_recursion")
            elif o == pop:
                inc("pop_item" if ok == "1" else "pop_empty")
            elif o == size:
                # size() >= capacity() -> synchronize: the next access is the epoch load of synchronize(), not a return
                nxt = acc[i + 1] if i + 1 < len(acc) else None
                if nxt is not None and nxt[0] == "ld" and nxt[1] not in (push, pop, size) and i + 2 < len(acc) and acc[i + 2][0] == "xchg":
                    inc("size_reached_capacity_sync")
                else:
                    inc("size_below_capacity")
    for l in ilines:
        t = l.split(" ")
        if len(t) >= 3 and t[1] == "ev" and t[2] == "dispose":
            pass
    return h


def gen_epoch_cases(ctx, n, cnt, prefix="e"):
    """aimed at the epoch test of clear_buffer and at the window between the flips: a writer is stopped somewhere in
    synchronize (often between the unlock and the first pop), a reader enters a section, a third thread unpublishes and
    retires an object (tagged with the new epoch), then the writer goes on."""
    rng = ctx.rng
    cases = []
    for i in range(n):
        w = [[1], [5], [5]] if rng.chance(1, 2) else [[1], [6, 50], [5]]
        r = [[1], [3], [9], [9], [3], [9], [4], [4]]
        a = [[1], [7, 1], [8], [6, 1], [7, 2], [8], [6, 2]]
        if rng.chance(1, 3):
            a = [[1], [7, 1], [8], [10, 1, 3], [6, 4]]
        sched = [1] * (7 + rng.below(4))            # the retirer attaches and publishes
        sched += [0] * (8 + rng.below(40))          # the writer: attach, part of synchronize
        sched += [2] * (7 + rng.below(6))           # the reader enters (and may read the published object)
        sched += [1] * (3 + rng.below(25))          # unpublish, retire
        sched += [0] * (5 + rng.below(40))
        sched += [rng.below(3) for _ in range(30)]
        cases.append({"id": "%s%d" % (prefix, i), "cfg": [2, 3000, rng.choice(CAPS), cnt, 60], "threads": [w, a, r], "sched": sched})
    return cases


def run_explore(ctx, exe, cases, flavour, reps, tag, timeout=120, nproc=8):
    """real threads; chunks in parallel processes under a watchdog.  -> (monitor dict per case id, first case without output, rc)"""
    nproc = max(1, min(nproc, vcheck.NCPU, (len(cases) + 4) // 5))
    procs = []
    for k in range(nproc):
        f = os.path.join(ctx.work, "%s_%s_%d.txt" % (tag, flavour, k))
        conc_check.write_cases(f, cases[k::nproc])
        o = open(f + ".out", "w")
        procs.append((subprocess.Popen([exe, f, flavour, str(reps), str(ctx.seed * 1000 + k)], stdout=o, stderr=subprocess.STDOUT), o, f + ".out"))
    deadline = time.time() + timeout
    res = {}; rc2 = 0
    for p, o, path in procs:
        try:
            rc = p.wait(timeout=max(1.0, deadline - time.time()))
        except subprocess.TimeoutExpired:
            p.kill(); p.wait(); rc = 124
        o.close()
        rc2 = rc2 or rc
        for cid, lg in conc_check.parse_logs(open(path, errors="replace").read()).items():
            if any(x.startswith("monitor retired") for x in lg["extra"]):
                res[cid] = C04.impl_monitor(lg["extra"])
    missing = None
    for c in cases:
        if c["id"] not in res:
            missing = c
            break
    return res, missing, rc2


def run(ctx):
    res = vcheck.coq_build(["Properties/Properties_C05.v"])
    ctx.coq_evidence(res)
    model = conc_check.build_model(ctx, "Extract_RcuBuf.v")
    impl = vcheck.cxx_build(os.path.join(vcheck.VERIF, "harness/C05/main.cpp"), os.path.join(ctx.work, "harness"), hook=True)
    expl = vcheck.cxx_build(os.path.join(vcheck.VERIF, "harness/C05/explore.cpp"), os.path.join(ctx.work, "explore"), hook=False)
    thorough = ctx.thorough()
    nviol = 0
    cov = {}
    samples = []

    if ctx.replay:
        rep = json.load(open(ctx.replay))
        variants = [] if rep.get("harness") in ("gpt_sched", "shb_sched") else [(rep.get("variant", "a0"), [rep["case"]])]    # gpt_sched: part D only
    else:
        corpus = C04.load_corpus("C05")
        n = 3000 if thorough else 1000
        ne = 600 if thorough else 150
        variants = [("a0", [c for c in corpus if c.get("variant", "a0") == "a0"] + C04.gen_cases(ctx, n, prefix="p", cfg=cfg_gen(0), allow_batch=True) + gen_epoch_cases(ctx, ne, 0, "ep")),
                    ("a1", [c for c in corpus if c.get("variant") == "a1"] + C04.gen_cases(ctx, n, prefix="c", cfg=cfg_gen(1), allow_batch=True) + gen_epoch_cases(ctx, ne, 1, "ec"))]

    # ---- A: step correspondence with the atomic buffer
    tot = C04.new_stats(); bh = {}; caps = {}
    ncases = 0
    first_div = None
    for var, cases in variants:
        if var not in ("a0", "a1"):
            continue
        what = "cds::urcu::gc<general_buffered> (real code, %s buffer executed atomically)" % ("counting" if var == "a1" else "default non-counting")
        wrapper = os.path.join(ctx.work, "impl_%s.sh" % var)
        with open(wrapper, "w") as f:
            f.write("#!/bin/sh\nexec %s \"$1\" %s\n" % (impl, var))
        os.chmod(wrapper, 0o755)
        mlog, ilog, rc2, missing = C04.run_split(ctx, model, wrapper, cases, "A" + var, fuel=60000)
        fd, nv = C04.examine(ctx, cases, mlog, ilog, what, tot)
        nviol += nv
        ncases += len(cases)
        if missing is not None and nv == 0:
            ctx.violation("%s: the harness hung or crashed (rc=%s) on a case: retired objects are lost or a loop no longer terminates" % (what, rc2),
                          {"case": missing, "variant": var, "impl_log": (ilog.get(missing["id"]) or {"lines": []})["lines"][-60:]})
            nviol += 1
        if fd is not None and first_div is None:
            first_div = (var, fd)
        for c in cases:
            i = ilog.get(c["id"])
            if i is None or i["end"] is None:
                continue
            for k, v in buf_histogram(i["lines"], i["extra"]).items():
                bh[k] = bh.get(k, 0) + v
            im = C04.impl_monitor(i["extra"])
            if im.get("disposed_at_destruct", 0) > 0:
                bh["cases_with_disposal_at_destruct"] = bh.get("cases_with_disposal_at_destruct", 0) + 1
            caps[str(c["cfg"][2])] = caps.get(str(c["cfg"][2]), 0) + 1
        samples += cases[:1]
    if first_div is not None and nviol == 0 and not ctx.replay:
        # the correspondence broke without a monitor firing: search with the monitors over more, and aimed, cases
        var = first_div[0]
        cntv = 1 if var == "a1" else 0
        more = gen_epoch_cases(ctx, 3000, cntv) + C04.gen_cases(ctx, 3000, prefix="s", cfg=cfg_gen(cntv), allow_batch=True)
        wrapper = os.path.join(ctx.work, "impl_%s.sh" % var)
        what = "cds::urcu::gc<general_buffered> (real code, %s buffer executed atomically)" % ("counting" if var == "a1" else "default non-counting")
        ml2, il2, rc3, miss2 = C04.run_split(ctx, model, wrapper, more, "S" + var, fuel=60000)
        _, nv2 = C04.examine(ctx, more, ml2, il2, what, C04.new_stats())
        nviol += nv2
    if first_div is not None and nviol == 0:
        var, (c, d) = first_div
        ctx.violation("step correspondence between LV.Model.RcuBuf and cds/urcu/details/gpb.h no longer holds",
                      {"correspondence": "Model/RcuBuf.v vs cds::urcu::gc<general_buffered<AtomicBuf<VyukovMPMCCycleQueue>,spin_lock,backoff::empty>>",
                       "variant": var, "case": c, "first_divergence": d}, no_input=True)
        nviol += 1

    # ---- B: default buffer type under the scheduler: monitors only
    obs = {"cases": 0, "overruns": 0}
    hung = any("hung or crashed" in w for w, _ in ctx.violations)
    if not ctx.replay and not hung:
        for var, cnt in (("d0", 0), ("d1", 1)):
            cases = C04.gen_cases(ctx, 1200 if thorough else 300, prefix="o" + var, cfg=cfg_gen(cnt), allow_batch=True)
            what = "cds::urcu::gc<general_buffered<VyukovMPMCCycleQueue%s>> (real code under the scheduler, monitors only)" % (" with item counter" if cnt else "")
            wrapper = os.path.join(ctx.work, "impl_%s.sh" % var)
            with open(wrapper, "w") as f:
                f.write("#!/bin/sh\nexec %s \"$1\" %s\n" % (impl, var))
            os.chmod(wrapper, 0o755)
            # the model is not run for these (different step structure); reuse run_split with the harness on both sides is pointless:
            mlog, ilog, rc2, missing = C04.run_split(ctx, "true", wrapper, cases, "B" + var)
            for c in cases:
                i = ilog.get(c["id"])
                if i is None or i["end"] is None:
                    continue
                obs["cases"] += 1
                if i["end"] == "fuel":
                    obs["overruns"] += 1
                    continue
                im = C04.impl_monitor(i["extra"])
                for key in ("dispose_inside_old_reader", "sync_end_inside_old_reader", "touch_disposed", "dispose_unretired", "not_disposed_exactly_once"):
                    if im.get(key, 0) > 0:
                        nviol += 1
                        ctx.violation("%s: %s" % (what, C04.PROPERTY_TEXT[key]), {"case": c, "variant": var, "monitor": key, "harness_monitor": im, "impl_log": i["lines"][-200:]})
            if missing is not None:
                nviol += 1
                ctx.violation("%s: the harness hung or crashed (rc=%s) on a case: retired objects are lost or a loop no longer terminates" % (what, rc2),
                              {"case": missing, "variant": var})

    # ---- C: real threads
    expl_cov = {}
    hung = any("hung or crashed" in w for w, _ in ctx.violations)
    if not ctx.replay and not hung:
        reps = 40 if thorough else 12
        for fl, name in (("gpt", "general_threaded<>"), ("shb", "signal_buffered<>"), ("gpb", "general_buffered<> (std::mutex)"), ("gpi", "general_instant<> (std::mutex)")):
            cases = C04.gen_cases(ctx, 160 if thorough else 60, prefix="x" + fl, cfg=cfg_gen(0), allow_batch=True)
            r, missing, rc2 = run_explore(ctx, expl, cases, fl, reps, "C")
            what = "cds::urcu::gc<%s> (real code, real threads, exploration)" % name
            agg = {"runs": 0, "retired": 0}
            for c in cases:
                im = r.get(c["id"])
                if im is None:
                    continue
                agg["runs"] += reps; agg["retired"] += im.get("retired", 0)
                for key in ("dispose_inside_old_reader", "sync_end_inside_old_reader", "touch_disposed", "dispose_unretired", "not_disposed_exactly_once"):
                    if im.get(key, 0) > 0:
                        nviol += 1
                        ctx.violation("%s: %s" % (what, C04.PROPERTY_TEXT[key]), {"case": c, "flavour": fl, "reps": reps, "monitor": key, "harness_monitor": im})
            if missing is not None:
                nviol += 1
                ctx.violation("%s: the program hung or crashed (rc=%s) while running a case" % (what, rc2), {"case": missing, "flavour": fl, "reps": reps})
            expl_cov[fl] = agg

    # ---- D: general_threaded, the real code under the scheduler (reclamation thread free), monitors only (checks/C04_gpt.py)
    import C04_gpt
    hung = any("hung or crashed" in w for w, _ in ctx.violations)
    gpt_cov = C04_gpt.run_gpt_sched(ctx) if not hung else {"skipped": "a harness hung or crashed before"}
    import C04_shb
    try:
        shb_cov = C04_shb.run_shb_sched(ctx) if not hung else {"skipped": "a harness hung or crashed before"}
    except vcheck.BuildError as e:
        shb_cov = {"build_failure": str(e)[-1500:]}
        ctx.violation("harness/C04/shb_sched.cpp does not build against the working tree: the signal_buffered part cannot be checked",
                      {"kind": "build-failure", "harness": "shb_sched", "error": str(e)[-2000:]}, no_input=True)

    if ctx.thorough() and res.ok and not ctx.replay:
        rcq, outq = vcheck.coqchk("LV.Properties.Properties_C05")
        ctx.coverage["coqchk"] = "ok" if rcq == 0 else outq[-400:]
        if rcq != 0:
            ctx.violation("coqchk rejects LV.Properties.Properties_C05", {"coqchk": outq[-1500:]}, no_input=True)
    if not res.ok:
        ctx.violation("Coq obligations of C05 do not check: %s" % (res.failed[:2],), {"theorem": [f[2] for f in res.failed], "errors": res.failed[:3]}, no_input=True)
    ctx.coverage.update({
        "evaluations": ncases + obs["cases"] + sum(v["runs"] for v in expl_cov.values()) + gpt_cov.get("finished", 0) + shb_cov.get("finished", 0),
        "distinct_nontrivial": len(tot["nontrivial"]),
        "rule": "D: the real general_threaded under the scheduler, monitors only (see general_threaded_scheduled). A: program x schedule pairs on general_buffered with the atomic buffer (capacities 1-4, counting / non-counting), step by step against the model; distinct = distinct model event logs, non-trivial = a flip_and_wait wait loop went round at least once. B: same generator on the default buffer type, monitors only. C: real-thread runs (cases x repetitions), monitors only.",
        "step_correspondence_cases": ncases, "distinct_event_logs": len(tot["shapes"]), "impl_steps_compared": tot["steps"], "diverged": tot["diverged"], "overruns": tot["overruns"],
        "traces_validated_against_impl": ncases - tot["diverged"],
        "capacity_histogram": caps, "buffer_branch_histogram": bh, "op_histogram": tot["ops"], "branch_histogram": tot["branches"],
        "observable_default_buffer": obs,
        "exploration_real_threads": {"note": "exploration of the real code (OS scheduling, random yields), not a proof and not a step correspondence", "per_flavour": expl_cov},
        "general_threaded_scheduled": gpt_cov,
        "signal_buffered_scheduled": shb_cov,
        "samples": samples[:2],
        "modelled": "general_buffered::retire_ptr/batch_retire/push_buffer/synchronize/clear_buffer/Destruct over an abstract bounded FIFO; gp core as in C04",
    })
    return ctx.finish(vcheck.STD_TRUSTED + ["hook layer: khizmax_libcds_verif::atomic<T>, baton scheduler, event log (hooks/include)", "ocaml/conc_main.ml event printer",
                                            "harness/C04/rcu_harness.h, harness/C05/main.cpp (AtomicBuf wrapper: one scheduling point per buffer operation), harness/C05/explore.cpp"] + C04_gpt.TRUSTED + C04_shb.TRUSTED,
                      ["sequential consistency: memory_order arguments and fences are not modelled",
                       "the buffer is an abstract bounded FIFO with atomic push/pop/size (its linearizability is property C07); the step correspondence runs the real Vyukov queue atomically inside each buffer operation",
                       "general_threaded, signal_buffered: Coq models (LV.Model.RcuThreaded, LV.Model.RcuSignal) with atomic hand-offs / atomic signal delivery as stated modelling assumptions; no step correspondence for general_threaded; general_threaded's tie to the code is the real code under the deterministic scheduler with the monitors (part D, reclamation thread unscheduled) plus the real-thread exploration; signal_buffered runs with real signals under the deterministic scheduler (checks/C04_shb.py: monitors + step correspondence with LV.Model.RcuSignal for the atomic-buffer variants) plus the real-thread exploration",
                       "Destruct disposes without a grace period: the grace-period theorem does not cover disposals at Destruct (they are counted, C05), the client must have no reader inside",
                       "m_nCurEpoch (uint64_t) is an unbounded integer in the model",
                       "client contract as in C04"] + C04_gpt.ASSUMPTIONS + C04_shb.ASSUMPTIONS)
