"""C07_wrap — the Vyukov queue ACROSS the wrap of its position counters (companion of checks/C07.py).

1. Coq: Properties/Properties_C07_Wrap.v (the theorems of C07 for LV.Model.VyukovWrap: any start position, runs of any
   length, hypothesis `fresh` instead of a bound on the number of operations; finding: the strict reading of the
   signed difference overflows at 2^63).
2. Step correspondence LV.Model.VyukovWrap.run_case <-> the real cds::container::VyukovMPMCCycleQueue started a few
   positions before 2^63 / 2^64 / 2^62 (harness/C07/wrap_main.cpp: a derived class sets the protected counters; /repo
   is not edited), values read and written by every atomic access included (modulo 2^63: ocaml/conc_main.ml prints
   through OCaml's 63-bit int, the implementation log is reduced the same way).
3. Implementation-side monitor: the stored positions at quiescence are start + (#successful enqueues) resp.
   start + (#successful dequeues) modulo 2^64, and the drained items are exactly the enqueued-and-not-dequeued ones
   in FIFO order per producer.

run_wrap(ctx) -> dict   (does not call ctx.finish; reports violations through ctx.violation)
run(ctx)                so that `bin/check C07_wrap` works stand-alone."""
import os
import vcheck, conc_check

CAPS = [2, 4, 8]
M64 = 1 << 64


def ocaml_int(v):
    v %= 1 << 63
    return v - (1 << 63) if v >= (1 << 62) else v


def expand_impl(lines):
    out = []
    for l in lines:
        t = l.split(" ")
        if len(t) >= 2 and t[1] in ("ev", "begin"):
            out.append(l)
            continue
        out.append(" ".join(t[:4]))
        if len(t) >= 6 and t[4].startswith("i") and t[5].startswith("i"):
            out.append("%s ev val %d %d" % (t[0], ocaml_int(int(t[4][1:])), ocaml_int(int(t[5][1:]))))
    return out


def compare(mlog, ilog):
    m = mlog["lines"]
    i = expand_impl(ilog["lines"])
    n = min(len(m), len(i))
    for k in range(n):
        if m[k] != i[k]:
            return {"index": k, "model": m[k], "impl": i[k], "prefix": m[max(0, k - 14):k]}
    if len(m) != len(i):
        if mlog["end"] == "fuel" or ilog["end"] == "fuel":
            return None
        return {"index": n, "model": m[n] if n < len(m) else "<end>", "impl": i[n] if n < len(i) else "<end>", "prefix": m[max(0, n - 14):n]}
    return None


def rand_sched(rng, nthreads, kind, length):
    if kind == 0:
        return [rng.below(nthreads) for _ in range(length)]
    if kind == 1:
        s = []
        while len(s) < length:
            s += [rng.below(nthreads)] * (1 + rng.below(9))
        return s[:length]
    first = rng.below(nthreads)
    s = [first] * (3 + rng.below(6))
    others = [t for t in range(nthreads) if t != first] or [first]
    while len(s) < length:
        s += [rng.choice(others)] * (1 + rng.below(12))
        if rng.chance(1, 4):
            s += [first] * (1 + rng.below(3))
    return s[:length]


def gen_case(rng, i):
    cap = rng.choice(CAPS)
    variant = rng.choice([0, 0, 1])
    if variant == 1:
        cap = 4
    counter = 1 if rng.chance(1, 4) else 0
    boundary = rng.choice([1 << 63, 1 << 64, 1 << 64, 1 << 62])
    start = (boundary - rng.below(cap + 4)) % M64          # the run crosses the boundary within its first items
    shape = rng.below(5)
    threads = []
    vals = [0]

    def nv():
        vals[0] += 1
        return vals[0]
    if shape == 0:        # >= 2 laps of the ring
        total = 2 * cap + 1 + rng.below(cap)
        np_ = 1 + rng.below(2)
        nc = 1 + rng.below(2)
        for p in range(np_):
            threads.append([[1, nv()] for _ in range((total + np_ - 1) // np_)])
        for c in range(nc):
            threads.append([[2] for _ in range((total + nc - 1) // nc + rng.below(2))])
    elif shape == 1:      # full boundary
        nt = 2 + rng.below(2)
        for t in range(nt):
            ops = [[1, nv()] for _ in range(1 + rng.below(cap + 1))]
            if rng.chance(1, 2):
                ops.insert(rng.below(len(ops) + 1), [2])
            threads.append(ops)
    elif shape == 2:      # empty boundary
        nt = 2 + rng.below(2)
        for t in range(nt):
            ops = [[2] for _ in range(1 + rng.below(3))]
            if rng.chance(2, 3):
                ops.insert(rng.below(len(ops) + 1), [1, nv()])
            threads.append(ops)
    elif shape == 3:      # single consumer with front / pop_front
        nprod = 1 + rng.below(2)
        for p in range(nprod):
            threads.append([[1, nv()] for _ in range(1 + rng.below(cap + 2))])
        threads.append([rng.choice([[3], [4], [3], [4], [2]]) for _ in range(2 + rng.below(2 * cap + 2))])
    else:                 # mixed
        nt = 2 + rng.below(3)
        for t in range(nt):
            ops = []
            for _ in range(1 + rng.below(5)):
                r = rng.below(10)
                ops.append([1, nv()] if r < 5 else [2] if r < 9 else [6] if counter else [5])
            threads.append(ops)
    nops = sum(len(t) for t in threads)
    sched = rand_sched(rng, len(threads), rng.below(3), 6 * nops + rng.below(40))
    return {"id": "w%d" % i, "cfg": [cap, variant, counter, 4000, start >> 32, start & 0xFFFFFFFF],
            "threads": threads, "sched": sched, "shape": shape, "start": start, "boundary": boundary}


def monitor(case, ilog):
    """implementation-side facts at quiescence; -> None or a description of what is wrong"""
    if ilog["end"] != "finished":
        return None
    enq_ok, deq_ok, enq_vals, deq_vals = 0, 0, [], []
    pending = {}
    for l in ilog["lines"]:
        t = l.split(" ")
        if len(t) < 3 or t[1] != "ev":
            continue
        if t[2] == "inv_enq":
            pending[t[0]] = int(t[3])
        elif t[2] == "ret_enq" and t[3] == "1":
            enq_ok += 1
            enq_vals.append(pending.get(t[0]))
        elif t[2] in ("ret_deq",) and t[3] == "1":
            deq_ok += 1
            deq_vals.append(int(t[4]))
        elif t[2] == "ret_pop" and t[3] == "1":
            deq_ok += 1
            deq_vals.append(None)
    pos = drain = None
    for x in ilog["extra"]:
        if x.startswith("monitor pos"):
            pos = [int(v) for v in x.split()[2:]]
        elif x.startswith("monitor drain"):
            drain = [int(v) for v in x.split()[2:]]
    if pos is None or drain is None:
        return "monitor lines missing"
    s = case["start"]
    if pos[0] != (s + enq_ok) % M64:
        return "m_posEnqueue = %d, expected start + %d successful enqueues = %d" % (pos[0], enq_ok, (s + enq_ok) % M64)
    if pos[1] != (s + deq_ok) % M64:
        return "m_posDequeue = %d, expected start + %d successful dequeues = %d" % (pos[1], deq_ok, (s + deq_ok) % M64)
    if len(drain) != enq_ok - deq_ok:
        return "%d items drained at quiescence, %d enqueued - %d dequeued" % (len(drain), enq_ok, deq_ok)
    known = [v for v in deq_vals if v is not None]
    if None not in deq_vals and sorted(known + drain) != sorted(enq_vals):
        return "dequeued + drained items %r are not the enqueued items %r" % (sorted(known + drain), sorted(enq_vals))
    return None


def crossed(case, ilog):
    """did a stored position actually pass the boundary during the run?"""
    n = sum(1 for l in ilog["lines"] if " ev ret_enq 1" in l)
    return case["start"] != 0 and (case["boundary"] - case["start"]) % M64 <= n and n > 0


class _Ok:
    ok = True


def run_wrap(ctx, build_coq=True):
    if build_coq:
        res = vcheck.coq_build(["Properties/Properties_C07_Wrap.v"])
        ctx.coq_evidence(res)
    else:
        res = _Ok()          # Properties_C07_Wrap.v is a companion file: checks/C07.py has built it with its own obligations
    model = conc_check.build_model(ctx, "Extract_VyukovWrap.v", tag="model_wrap")
    impl = vcheck.cxx_build(os.path.join(vcheck.VERIF, "harness/C07/wrap_main.cpp"), os.path.join(ctx.work, "harness_wrap"),
                            hook=True, link_cds=False)
    rng = ctx.rng.fork()
    ncases = 600 if ctx.thorough() else 160
    cases = [gen_case(rng, i) for i in range(ncases)]
    cf = os.path.join(ctx.work, "wrap_cases.txt")
    conc_check.write_cases(cf, cases)
    rc1, out1 = vcheck.sh("%s %d < %s" % (model, 20000, cf), timeout=900)
    mlogs = conc_check.parse_logs(out1)
    # the harness exits at the first case that spins for ever (watchdog): report it, re-run the remaining cases
    ilogs, rest, hangs = {}, list(cases), 0
    while rest and hangs <= 4:
        conc_check.write_cases(cf, rest)
        rc2, out2 = vcheck.sh([impl, cf], timeout=900)
        il = conc_check.parse_logs(out2)
        ilogs.update(il)
        hung = [c for c in rest if c["id"] in il and il[c["id"]]["end"] == "hang"]
        if not hung:
            break
        hangs += 1
        h = hung[0]
        ctx.violation("C07 wrap: the real queue started at %d spins for ever (model: %s)" % (h["start"], (mlogs.get(h["id"]) or {}).get("end")),
                      {"case": {k: h[k] for k in ("id", "cfg", "threads", "sched")}, "start": h["start"],
                       "impl_log_tail": il[h["id"]]["lines"][-12:]},
                      signature="C07-wrap-hang")
        rest = rest[[c["id"] for c in rest].index(h["id"]) + 1:]
    out = {"cases": ncases, "compared": 0, "crossed_boundary": 0, "divergences": 0, "monitor_failures": 0,
           "by_boundary": {}, "by_shape": {}, "coq_ok": bool(res.ok), "samples": []}
    for c in cases:
        m, i = mlogs.get(c["id"]), ilogs.get(c["id"])
        if i is not None and i["end"] == "hang":
            continue
        if m is None or i is None:
            if hangs > 4:
                continue
            ctx.violation("C07 wrap: case produced no log on one side", {"case": c, "model": m is not None, "impl": i is not None},
                          no_input=(i is not None))
            continue
        out["compared"] += 1
        kb = {1 << 62: "2^62", 1 << 63: "2^63", 1 << 64: "2^64"}[c["boundary"]]
        if crossed(c, i):
            out["crossed_boundary"] += 1
            out["by_boundary"][kb] = out["by_boundary"].get(kb, 0) + 1
        out["by_shape"][str(c["shape"])] = out["by_shape"].get(str(c["shape"]), 0) + 1
        d = compare(m, i)
        bad = monitor(c, i)
        if bad is not None:
            out["monitor_failures"] += 1
            ctx.violation("C07 wrap: the real queue misbehaves across the counter boundary: " + bad,
                          {"case": {k: c[k] for k in ("id", "cfg", "threads", "sched")}, "start": c["start"], "what": bad},
                          signature="C07-wrap-monitor-" + kb)
        elif d is not None:
            out["divergences"] += 1
            ctx.violation("C07 wrap: step correspondence LV.Model.VyukovWrap <-> VyukovMPMCCycleQueue started at %d breaks" % c["start"],
                          {"case": {k: c[k] for k in ("id", "cfg", "threads", "sched")}, "start": c["start"], "divergence": d},
                          signature="C07-wrap-diverge-" + kb)
        if len(out["samples"]) < 3 and crossed(c, i):
            out["samples"].append({"cfg": c["cfg"], "start": c["start"], "threads": c["threads"], "steps": len(i["lines"])})
    ctx.log("C07 wrap: %d cases compared, %d crossed their boundary %r, %d divergences, %d monitor failures"
            % (out["compared"], out["crossed_boundary"], out["by_boundary"], out["divergences"], out["monitor_failures"]))
    return out


def run(ctx):
    out = run_wrap(ctx)
    ctx.coverage.update({"evaluations": out["compared"], "distinct_nontrivial": out["crossed_boundary"],
                         "rule": "a stored position passes 2^62 / 2^63 / 2^64 during the run",
                         "traces_validated_against_impl": out["compared"] - out["divergences"],
                         "by_boundary": out["by_boundary"], "by_shape": out["by_shape"], "samples": out["samples"]})
    return ctx.finish(vcheck.STD_TRUSTED + ["hook layer (hooks/include)", "ocaml/conc_main.ml event printer (values modulo 2^63)",
                                            "harness/C07/wrap_main.cpp sets the protected counters of the real queue"],
                      ["fresh: no thread sleeps through 2^62 enqueue claims between two of its own steps",
                       "two's complement evaluation of (intptr_t)seq - (intptr_t)pos"])
