"""Differential tie between the sequential Coq models (Model/AvlSeq.v, Model/EllenSeq.v, Model/SkipSeq.v — the subjects
of the theorems of Properties_C18.v) and the real containers: the same long sequential operation sequence is run on
both; after EVERY operation the real structure is dumped by the harness probes (tree shape with keys, value presence and
stored heights / leaf-oriented tree with internal keys / skip-list keys with tower heights) and must be identical to
the shape of the extracted model's state.  The OCaml driver below only parses operations and prints shapes."""
import os, hashlib
import vcheck

DRIVER = r'''
open Seqmodels
let rec z_of_int n = if n = 0 then Z0 else if n > 0 then Zpos (p_of_int n) else Zneg (p_of_int (-n))
and p_of_int n = if n = 1 then XH else if n land 1 = 0 then XO (p_of_int (n lsr 1)) else XI (p_of_int (n lsr 1))
let rec int_of_p = function XH -> 1 | XO p -> 2 * int_of_p p | XI p -> 2 * int_of_p p + 1
let int_of_z = function Z0 -> 0 | Zpos p -> int_of_p p | Zneg p -> - (int_of_p p)
let rec int_of_nat = function O -> 0 | S n -> 1 + int_of_nat n
let rec avl_shape b = function
  | E -> Buffer.add_char b '.'
  | N (l, k, v, h, r) ->
      Buffer.add_char b '('; avl_shape b l;
      Buffer.add_string b (Printf.sprintf " %d%s%d " (int_of_z k) (match v with Some _ -> "v" | None -> "r") (int_of_z h));
      avl_shape b r; Buffer.add_char b ')'
let ekey_s = function Fin k -> string_of_int (int_of_z k) | Inf1 -> "inf1" | Inf2 -> "inf2"
let rec ellen_shape b = function
  | ELeaf (k, _) -> Buffer.add_string b ("L" ^ ekey_s k)
  | ENode (k, l, r) -> Buffer.add_string b ("I" ^ ekey_s k ^ "("); ellen_shape b l; Buffer.add_char b ','; ellen_shape b r; Buffer.add_char b ')'
let skip_shape b ls =
  match ls with
  | [] -> ()
  | l0 :: _ -> List.iter (fun ((k, _), h) -> Buffer.add_string b (Printf.sprintf "%dh%d," (int_of_z k) (int_of_nat h))) l0
let () =
  let fam = Sys.argv.(1) in
  let avl = ref E and ell = ref e_init and skp = ref sk_init in
  let dead = ref false in
  (try while true do
    let line = input_line stdin in
    let toks = List.filter (fun s -> s <> "") (String.split_on_char ' ' (String.trim line)) in
    match toks with
    | "case" :: id :: _ -> avl := E; ell := e_init; skp := sk_init; dead := false; Printf.printf "case %s\n" id
    | "op" :: r ->
        let o = List.map (fun s -> z_of_int (int_of_string s)) r in
        let b = Buffer.create 256 in
        if !dead then Buffer.add_string b "FUEL"
        else if fam = "bronson" then begin
          (match a_decode o with
           | Some op -> (match a_step !avl op with Some t -> avl := t | None -> dead := true)
           | None -> ());
          if !dead then Buffer.add_string b "FUEL" else begin
            avl_shape b !avl;
            Buffer.add_string b (Printf.sprintf " |%b %b %b" (heights_exact !avl) (balanced !avl) (no_removable_routing !avl)) end
        end else if fam = "ellen" then begin
          (match e_decode o with Some op -> ell := e_step !ell op | None -> ());
          ellen_shape b !ell
        end else begin
          (match decode o with Some op -> skp := sk_step !skp op | None -> ());
          skip_shape b !skp
        end;
        print_endline ("S " ^ Buffer.contents b)
    | _ -> ()
  done with End_of_file -> ())
'''


def build(ctx):
    import C15
    d = os.path.join(C15.SHARED, "seqmodels")
    os.makedirs(d, exist_ok=True)
    srcs = [os.path.join(vcheck.COQ, "Extract", "Extract_AvlSeq.v")] + [os.path.join(vcheck.COQ, "Model", m + ".v") for m in ("SkipSeq", "EllenSeq", "AvlSeq")]
    key = vcheck.file_hash(srcs) + hashlib.sha256(DRIVER.encode()).hexdigest()[:12]
    exe = os.path.join(d, "seqmodels_exe")
    stamp = exe + ".key"
    if os.path.exists(exe) and os.path.exists(stamp) and open(stamp).read() == key:
        return exe
    vcheck.coq_makefile()
    rc, out = vcheck.sh(["make", "-j4", "Model/SkipSeq.vo", "Model/EllenSeq.vo", "Model/AvlSeq.vo"], cwd=vcheck.COQ, timeout=900)
    if rc != 0:
        raise vcheck.BuildError("sequential models do not build:\n" + out[-2000:])
    rc, out = vcheck.extract("Extract_AvlSeq.v", d)
    if rc != 0:
        raise vcheck.BuildError("extraction of the sequential models failed:\n" + out[-2000:])
    open(os.path.join(d, "seqdriver.ml"), "w").write(DRIVER)
    rc, out = vcheck.ocaml_build(d, ["seqmodels.mli", "seqmodels.ml", "seqdriver.ml"], exe)
    if rc != 0:
        raise vcheck.BuildError("ocaml build of the sequential models failed:\n" + out[-2000:])
    open(stamp, "w").write(key)
    return exe


def model_shapes(exe, fam, cases, workdir, tag):
    """-> {case id: [shape after op 0, ...]}"""
    inp = os.path.join(workdir, "shapes_%s.txt" % tag)
    with open(inp, "w") as f:
        for c in cases:
            f.write("case %s\n" % c["id"])
            for op in c["threads"][0]:
                f.write("op %s\n" % " ".join(map(str, op)))
    rc, out = vcheck.sh("%s %s < %s" % (exe, fam, inp), timeout=900)
    res, cur = {}, None
    for line in out.split("\n"):
        if line.startswith("case "):
            cur = []
            res[line[5:].strip()] = cur
        elif line.startswith("S ") and cur is not None:
            cur.append(line[2:])
        elif line == "S" and cur is not None:
            cur.append("")
    return res


def make(ctx):
    """returns shape_model(v, fam, cases, outs, st, workdir) -> list of violations"""
    exe = build(ctx)

    def shape_model(v, name, fam, cases, outs, st, workdir):
        if fam not in ("bronson", "ellen", "skip"):
            return []
        viol = []
        ms = model_shapes(exe, fam, cases, workdir, "v%d" % v)
        for c in cases:
            o = outs.get(c["id"])
            m = ms.get(c["id"])
            if o is None or m is None or o.get("end") != "finished":
                continue
            for i, (s, mm) in enumerate(zip(o["steps"], m)):
                real = s.get("shape", "")
                if fam == "bronson":
                    mshape, _, flags = mm.partition(" |")
                    if mm == "FUEL":
                        viol.append(("%s: the Coq model AvlSeq ran out of fuel" % name, {"case": dict(c, threads=[c["threads"][0][:i + 1]])}, None))
                        break
                    st["model_flags"] = st.get("model_flags", {})
                    st["model_flags"][flags] = st["model_flags"].get(flags, 0) + 1
                else:
                    mshape = mm
                st["shape_compared"] += 1
                if real != mshape:
                    viol.append(("%s: the real structure and the sequential Coq model (%s) differ in shape (sequential history, after operation %d)"
                                 % (name, {"bronson": "Model/AvlSeq.v", "ellen": "Model/EllenSeq.v", "skip": "Model/SkipSeq.v"}[fam], i),
                                 {"case": dict(c, threads=[c["threads"][0][:i + 1]]), "variant": name, "detail": {"real": real, "model": mshape, "op": c["threads"][0][i]}}, None))
                    break
        return viol
    return shape_model
