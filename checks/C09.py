"""C09 — stacks are linearizable LIFO, with or without elimination (DESIGN 7, C09).

Step correspondence (same program, same schedule, event logs compared line by line):
  family 0, elimination off : LV.Model.Treiber  vs cds::container::TreiberStack<cds::gc::HP,int>
  family 0, elimination on  : LV.Model.Elim     vs the same with enable_elimination = true (array sizes 1..4,
                              static and dynamic buffers, random engine fed from the case)
Observable correspondence (history of the real run decided by the verified, extracted lincheck for Stack):
  every family: 0 as above, 1 container/DHP, 2 intrusive/HP, 3 intrusive/DHP (each with elimination on or off),
  4 cds::container::FCStack<int, std::stack<int>> with elimination on or off.
Implementation-side monitors: lincheck verdict, conservation (pushed = popped + drained, nothing twice),
intrusive items read after their disposer ran."""
import os, json
import vcheck, conc_check, conc_windows

HARNESS = os.path.join(vcheck.VERIF, "harness/C09/main.cpp")
BOOST = ["-lboost_thread", "-lboost_system"]     # cds::algo::flat_combining::kernel uses boost::thread_specific_ptr
FAM_NAME = {0: "container::TreiberStack<HP>", 1: "container::TreiberStack<DHP>", 2: "intrusive::TreiberStack<HP>",
            3: "intrusive::TreiberStack<DHP>", 4: "container::FCStack<std::stack>"}
LFUEL = 400


# ------------------------------------------------------------------------------------------------------
# generators

def gen_program(rng, nthreads, maxops, pop_bias):
    threads = []
    for t in range(nthreads):
        ops = []
        for k in range(1 + rng.below(maxops)):
            if rng.chance(pop_bias, 10):
                ops.append([2])
            else:
                ops.append([1, 100 * (t + 1) + k])      # values distinct per push
        threads.append(ops)
    return threads


def gen_sched(rng, nthreads, kind):
    if kind == 0:       # uniform
        return [rng.below(nthreads) for _ in range(20 + rng.below(120))]
    if kind == 1:       # bursty: long runs, few switches
        s = []
        for _ in range(2 + rng.below(8)):
            s += [rng.below(nthreads)] * (1 + rng.below(14))
        return s
    if kind == 2:
        # run one thread to a point inside an operation, let the others run whole operations, come back:
        # aimed at the window between pop's `next` load and its top CAS (steps 5..7 of a pop: ld top, st hp, faa,
        # ld top, ld next, cas) and at the protect validation (between st hp / faa and the re-load)
        a = rng.below(nthreads)
        s = [a] * (2 + rng.below(9))
        for _ in range(1 + rng.below(3)):
            b = rng.below(nthreads)
            s += [b] * (6 + rng.below(30))
        s += [a] * (1 + rng.below(10))
        s += [rng.below(nthreads) for _ in range(rng.below(40))]
        return s
    if kind == 3:
        # two threads in lock step (maximal CAS contention), then the rest
        a = rng.below(nthreads); b = (a + 1 + rng.below(nthreads - 1)) % nthreads
        s = []
        for _ in range(10 + rng.below(40)):
            s += [a, b]
        return s + [rng.below(nthreads) for _ in range(rng.below(30))]
    # all threads round-robin with a random phase shift now and then: every CAS is contended, the losers go to the
    # elimination array together (a waiting record meets an operation of the opposite kind within its 3 polls)
    s = []
    for _ in range(4 + rng.below(10)):
        s += list(range(nthreads)) * (1 + rng.below(6)) + [rng.below(nthreads)] * rng.below(3)
    return s


def gen_cfg(rng, fam, elim, nthreads):
    n = 4; dyn = 0; L = 0; rnd = []
    if elim and fam != 4:
        dyn = rng.below(2)
        n = (2 + rng.below(3)) if dyn else (1 + rng.below(4))
        L = 1 + rng.below(3)
        # small slot numbers so that operations meet; occasionally large values (index computation & / %)
        rnd = [(rng.below(n) if rng.chance(4, 5) else rng.below(1 << 16)) for _ in range(L * nthreads)]
        if rng.chance(1, 2):
            rnd = [rnd[0]] * len(rnd)       # everybody aims at one slot
    return [fam, LFUEL, 1 if elim else 0, n, dyn, L] + rnd


def gen_cases(ctx, n, fam, elim, prefix):
    rng = ctx.rng
    cases = []
    for i in range(n):
        nthreads = 2 + rng.below(3)
        threads = gen_program(rng, nthreads, 4, 4 + rng.below(3))
        if rng.chance(1, 2):
            # a pre-filled stack makes pops meet pops: thread 0 starts with pushes
            threads[0] = [[1, 100 + 50 + j] for j in range(1 + rng.below(2))] + threads[0][:2]
        sched = gen_sched(rng, nthreads, (3 + rng.below(2)) if (elim and rng.chance(1, 2)) else rng.below(5))
        cases.append({"id": "%s%d" % (prefix, i), "cfg": gen_cfg(rng, fam, elim, nthreads), "threads": threads, "sched": sched})
    return cases


# ------------------------------------------------------------------------------------------------------
# model-guided window schedules (lib/conc_windows.py) for the two step-modelled configurations.
#   "w"  victim stalled right before its top CAS (elimination: also before the exchange that takes a slot lock), actor
#        through one of its CAS / exchange steps or to its end, r more victim steps;
#   "m"  a third thread runs through one of its writes between actor and victim (thorough);
#   "a"  victim stalled before ANY of its steps (between the two loads of Guard::protect, between the load of
#        m_pNext and the CAS, between the last poll of nStatus and the second slot lock), few r;
#   "d"  TWO victims stalled before their top CAS, the actor's CAS makes both fail: both go to the elimination array
#        (one collision slot, so they meet) - r steps of the first, r2 of the second, then the rest.
# (set-up operations of thread 0, threads): P = push of a fresh value, O = pop
WINDOW_TEMPLATES = [
    ("",   [["P"], ["P"], ["O"]]),
    ("P",  [["O"], ["O"], ["P"]]),            # two pops race for the only node: the loser re-protects (empty, or the new push)
    ("PP", [["O"], ["O"], ["P"]]),
    ("P",  [["O", "P"], ["O"], ["P"]]),       # pop then push again while another pop holds the old top
    ("P",  [["P", "O"], ["O", "P"]]),
    ("PP", [["O"], ["P"], ["O", "O"]]),
    ("",   [["P"], ["O"], ["P"], ["O"]]),     # four threads: two pairs for the elimination array
]


def window_ops(txt, nv):
    return [([1, nv()] if ch == "P" else [2]) for ch in txt]


def gen_window_cases(ctx, model, elim, rng, quick, prefix):
    wdir = os.path.join(ctx.work, "wprobe")
    os.makedirs(wdir, exist_ok=True)
    cases = []
    info = {"templates": len(WINDOW_TEMPLATES), "enumerated": 0, "model_probes": 0}
    kinds = ("cas", "xchg") if elim else ("cas",)
    for ti, (setup, tpl) in enumerate(WINDOW_TEMPLATES):
        nth = len(tpl)
        cfgs = [[0, LFUEL, 0, 4, 0, 0]]
        if elim:
            # one collision slot (everybody meets) static / dynamic, and two slots with the threads alternating
            cfgs = [[0, LFUEL, 1, 1, 0, 1] + [0] * nth, [0, LFUEL, 1, 2, 1, 1] + [t % 2 for t in range(nth)]]
            if quick:
                cfgs = [cfgs[(ctx.seed + ti) % 2]]
        for ci, cfg in enumerate(cfgs):
            vals = [10]
            def nv():
                vals[0] += 1
                return vals[0]
            su = window_ops(setup, nv)
            ths = [window_ops(th, nv) for th in tpl]
            tag = "%s%d_%d" % (prefix, ti, ci)
            threads, sw, inf = conc_windows.windows(model, wdir, cfg, ths, setup=su, kinds=kinds, max_r=(14 if elim else 8),
                                                    third=not quick and nth > 2, double=elim and nth > 2,
                                                    rs2=(0, 3, 6, 9, 12, 16) if not quick else (0, 4, 8, 12), tag=tag,
                                                    max_stalls=4)
            _, sa, inf2 = conc_windows.windows(model, wdir, cfg, ths, setup=su, kinds=kinds, stall="all",
                                               rs=(0, 2) if quick else (0, 1, 2, 4, 8), tag=tag + "a")
            sa = [("a" + n, s) for (n, s) in sa]
            info["enumerated"] += len(sw) + len(sa)
            info["model_probes"] += inf["model_probes"] + inf2["model_probes"]
            if quick:
                sd = [x for x in sw if x[0].startswith("d_")]
                sw = conc_windows.subsample(rng, [x for x in sw if not x[0].startswith("d_")], 16 if elim else 20) + conc_windows.subsample(rng, sd, 20)
                sa = conc_windows.subsample(rng, sa, 8)
            for name, sched in sw + sa:
                cases.append({"id": "%s_%s" % (tag, name), "cfg": cfg, "threads": threads, "sched": sched})
    if not quick and len(cases) > 5000:
        # thorough tier: the full enumeration, up to a budget (a seeded subsample beyond it; 'enumerated' says how many there are)
        cases = conc_windows.subsample(rng, cases, 5000)
        info["thorough_budget"] = 5000
    info["cases"] = len(cases)
    return cases, info


def run_windows(ctx, lin, impl, model, elim, quick, key):
    t0 = os.times()
    wcases, winfo = gen_window_cases(ctx, model, elim, ctx.rng.fork(), quick, "we" if elim else "wt")
    st = run_batch(ctx, lin, impl, wcases, key, model, keep_logs=True)
    t1 = os.times()
    winfo["cpu_s"] = round((t1.user + t1.system + t1.children_user + t1.children_system) - (t0.user + t0.system + t0.children_user + t0.children_system), 1)
    ws = conc_windows.RetryStats()
    for c in wcases:
        i = st["logs"].get(c["id"])
        if i is not None:
            ws.add(i["lines"], tuple(c["cfg"][2:5]))
    winfo.update(ws.summary())
    winfo.update({"eliminated_pairs": st["elim_hits"], "cases_with_elimination": st.get("elim_cases", 0), "backoff_rounds": st.get("elim_rounds", 0),
                  "diverged_from_model": st["diverged"], "monitor_hits": st["monitor_hits"]})
    ctx.log("window schedules %s: %d cases (%d enumerated), %d with a failed CAS, %d eliminated pairs, cpu %.1fs" % (
        key, len(wcases), winfo["enumerated"], winfo["cases_with_failed_cas"], st["elim_hits"], winfo["cpu_s"]))
    del st["logs"]
    return st, winfo


# ------------------------------------------------------------------------------------------------------
# history, monitors

def history_of(lines):
    """event log -> lincheck text, pushed values (returned), popped values"""
    out = []; pushed = []; popped = []; pend = {}
    for l in lines:
        t = l.split(" ")
        if len(t) < 3 or t[1] != "ev":
            continue
        tid, name, args = t[0], t[2], t[3:]
        if name == "inv_push":
            out.append("inv %s push %s" % (tid, args[0])); pend[tid] = int(args[0])
        elif name == "ret_push":
            out.append("res %s %s" % (tid, "true" if args[0] != "0" else "false"))
            if args[0] != "0":
                pushed.append(pend.get(tid))
            pend.pop(tid, None)
        elif name == "inv_pop":
            out.append("inv %s pop" % tid)
        elif name == "ret_pop":
            if args[0] != "0":
                out.append("res %s some %s" % (tid, args[1])); popped.append(int(args[1]))
            else:
                out.append("res %s none" % tid)
    return out, pushed, popped, list(pend.values())


def build_lincheck(ctx):
    d = os.path.join(ctx.work, "lin")
    os.makedirs(d, exist_ok=True)
    srcs = [os.path.join(vcheck.COQ, p) for p in ("Base/Lin.v", "Spec/Specs.v", "Extract/Extract_Lin.v")] + [os.path.join(vcheck.VERIF, "ocaml", "lincheck_main.ml")]
    key = vcheck.file_hash(srcs)
    exe = os.path.join(d, "lincheck"); stamp = exe + ".key"
    if os.path.exists(exe) and os.path.exists(stamp) and open(stamp).read() == key:
        return exe
    vcheck.coq_makefile()
    rc, out = vcheck.sh(["make", "-j%d" % vcheck.NCPU, "Base/Lin.vo", "Spec/Specs.vo"], cwd=vcheck.COQ, timeout=900)
    if rc != 0:
        raise vcheck.BuildError("Lin/Specs do not build:\n" + out[-3000:])
    rc, out = vcheck.extract("Extract_Lin.v", d)
    if rc != 0:
        raise vcheck.BuildError("extraction of lincheck failed:\n" + out[-3000:])
    rc, out = vcheck.ocaml_build(d, ["lin.mli", "lin.ml", os.path.join(vcheck.VERIF, "ocaml", "lincheck_main.ml")], exe)
    if rc != 0:
        raise vcheck.BuildError("lincheck ocaml build failed:\n" + out[-3000:])
    open(stamp, "w").write(key)
    return exe


def lincheck_batch(ctx, lin, hists, tag):
    """hists: list of list-of-lines; -> verdicts"""
    if not hists:
        return []
    f = os.path.join(ctx.work, tag + ".hist")
    with open(f, "w") as fh:
        for h in hists:
            fh.write("\n".join(h) + "\n---\n")
    rc, out = vcheck.sh("%s stack < %s" % (lin, f), timeout=900)
    v = [x for x in out.split("\n") if x.strip()]
    if len(v) < len(hists):
        v += ["ERROR missing verdict (rc=%d)" % rc] * (len(hists) - len(v))
    return v[:len(hists)]


def monitor_case(c, ilog, verdict):
    """-> list of (what, details) problems seen on the real code for this case"""
    bad = []
    h, pushed, popped, pend = history_of(ilog["lines"])
    fam = c["cfg"][0]
    name = FAM_NAME.get(fam, "?") + (" + elimination" if c["cfg"][2] else "")
    if verdict != "OK":
        bad.append(("notlin", "history of push/pop on %s is not linearizable to a LIFO stack (verified lincheck: %s)" % (name, verdict), {"history": h}))
    drained = None; disp = 0
    for x in ilog["extra"]:
        if x.startswith("monitor drained"):
            drained = [int(v) for v in x.split()[2:]]
        elif x.startswith("monitor disposed_read"):
            disp = int(x.split()[-1])
    if disp:
        bad.append(("disposed", "a popped intrusive item was read after its disposer ran (%s)" % name, {"history": h}))
    if len(set(popped)) != len(popped):
        bad.append(("dup", "a pushed item was delivered to more than one popper (%s)" % name, {"history": h, "popped": popped}))
    if ilog["end"] == "finished" and drained is not None:
        # pending pushes cannot exist in a finished run
        if sorted(pushed) != sorted(popped + drained):
            bad.append(("conservation", "items lost or invented: pushed != popped + left in the stack (%s)" % name,
                        {"history": h, "pushed": pushed, "popped": popped, "drained": drained}))
    return bad


def run_one(ctx, lin, impl, c):
    """one case on the real code -> (impl log or None, verdict)"""
    cf = os.path.join(ctx.work, "min.txt")
    conc_check.write_cases(cf, [c])
    rc, raw = vcheck.sh([impl, cf], timeout=120)
    i = conc_check.parse_logs(raw).get(c["id"])
    if i is None or rc != 0 or i["end"] is None:
        return None, "CRASH"
    return i, lincheck_batch(ctx, lin, [history_of(i["lines"])[0]], "min")[0]


def minimise(ctx, lin, impl, c, tag, budget=60):
    """greedy: shorten the schedule, drop trailing operations and whole threads while the same kind of failure remains"""
    def fails(x):
        i, v = run_one(ctx, lin, impl, x)
        if i is None:
            return None
        return (i, v) if any(t == tag for t, _, _ in monitor_case(x, i, v)) else None
    best = c; bi = None; bv = None; n = 0
    changed = True
    while changed and n < budget:
        changed = False
        cands = []
        L = len(best["sched"])
        for cut in (L // 2, (3 * L) // 4, L - 1):
            if 0 <= cut < L:
                cands.append(dict(best, sched=best["sched"][:cut]))
        for t in range(len(best["threads"])):
            if len(best["threads"][t]) > 1:
                th = [list(x) for x in best["threads"]]; th[t] = th[t][:-1]
                cands.append(dict(best, threads=th))
        if len(best["threads"]) > 2 and not best["cfg"][5]:
            th = best["threads"][:-1]
            cands.append(dict(best, threads=th, sched=[x for x in best["sched"] if x < len(th)]))
        for x in cands:
            n += 1
            r = fails(x)
            if r is not None:
                best = x; bi, bv = r; changed = True
                break
            if n >= budget:
                break
    if best is c:
        return c, None, None
    return best, bi, bv


def nontrivial(lines):
    """contention of some kind: a failed CAS, a protect loop that had to retry, or a lock found taken"""
    return any(l.split(" ")[1] == "cas" and l.split(" ")[3] == "0" for l in lines if len(l.split(" ")) > 3)


# ------------------------------------------------------------------------------------------------------

def run_batch(ctx, lin, impl, cases, tag, model=None, keep_logs=False):
    """runs the cases on the real code (and on the model when given); returns stats and reports monitor hits"""
    cf = os.path.join(ctx.work, tag + ".txt")
    conc_check.write_cases(cf, cases)
    mlog = {}
    if model is not None:
        rc1, out1 = vcheck.sh("%s %d < %s" % (model, 20000, cf), timeout=900)
        mlog = conc_check.parse_logs(out1)
    # the real code; after a crash (double free, ...) the remaining cases are run in a fresh process
    ilog = {}; crashes = []; todo = list(cases)
    for attempt in range(12):
        if not todo:
            break
        cfi = os.path.join(ctx.work, tag + ".impl.txt")
        conc_check.write_cases(cfi, todo)
        rc2, raw = vcheck.sh([impl, cfi], timeout=900)
        part = conc_check.parse_logs(raw)
        done = [c for c in todo if c["id"] in part and part[c["id"]]["end"] is not None]
        for c in done:
            ilog[c["id"]] = part[c["id"]]
        if rc2 == 0:
            break
        rest = [c for c in todo if c["id"] not in ilog]
        if not rest:
            break
        crashes.append((rc2, rest[0], raw[-400:]))
        todo = rest[1:]
    ctx.log("batch %s: %d cases%s" % (tag, len(cases), " (step-compared)" if model is not None else ""))
    st = {"n": len(cases), "diverged": 0, "first_div": None, "monitor_hits": 0, "steps": 0, "shapes": set(), "nontrivial": set(),
          "verdicts": {}, "overrun": 0, "elim_hits": 0, "ops": {"push": 0, "pop_some": 0, "pop_none": 0}}
    for rc, culprit, tail in crashes:
        # the real code crashed (double free, assertion, ...) or hung: the case being run is a concrete failing input
        st["monitor_hits"] += 1
        ctx.violation("the real stack crashed or hung under the scheduler (harness exit status %d) on %s%s" % (rc, FAM_NAME.get(culprit["cfg"][0], "?"), " + elimination" if culprit["cfg"][2] else ""),
                      {"case": culprit, "harness_tail": tail})
    crashed_ids = set(c["id"] for _, c, _ in crashes)
    hists = []; have = []
    for c in cases:
        i = ilog.get(c["id"])
        if c["id"] in crashed_ids:
            continue
        if i is None or i["end"] == "badcfg":
            st["diverged"] += 1
            st["first_div"] = st["first_div"] or (c, {"index": -1, "model": "?", "impl": "<no output from the harness>", "prefix": []})
            continue
        have.append(c); hists.append(history_of(i["lines"])[0])
    verdicts = lincheck_batch(ctx, lin, hists, tag)
    for c, v in zip(have, verdicts):
        i = ilog[c["id"]]
        st["verdicts"][v.split(" ")[0]] = st["verdicts"].get(v.split(" ")[0], 0) + 1
        st["steps"] += len(i["lines"])
        if i["end"] != "finished":
            st["overrun"] += 1
        sh = hash(tuple(conc_check.norm_impl_line(l) for l in i["lines"]))
        st["shapes"].add(sh)
        if nontrivial(i["lines"]):
            st["nontrivial"].add(sh)
        if c["cfg"][0] != 4 and c["cfg"][2]:
            # elimination: the store of op_collided (2) into the partner's descriptor = an eliminated push/pop pair;
            # the store of op_waiting (1) = one back-off round
            hits = sum(1 for l in i["lines"] if " st o" in l and l.endswith(" i2 i2"))
            st["elim_hits"] += hits
            st["elim_rounds"] = st.get("elim_rounds", 0) + sum(1 for l in i["lines"] if " st o" in l and l.endswith(" i1 i1"))
            if hits:
                st["elim_cases"] = st.get("elim_cases", 0) + 1
        for l in i["lines"]:
            if " ev ret_push" in l: st["ops"]["push"] += 1
            elif " ev ret_pop 1" in l: st["ops"]["pop_some"] += 1
            elif " ev ret_pop 0" in l: st["ops"]["pop_none"] += 1
        for tag, what, det in monitor_case(c, i, v):
            st["monitor_hits"] += 1
            cm, im = c, i
            if getattr(ctx, "what_count", {}).get(what, 0) == 0 and not getattr(ctx, "no_minimise", False):
                c2, i2, v2 = minimise(ctx, lin, impl, c, tag)
                if c2 is not c:
                    for tag2, what2, det2 in monitor_case(c2, i2, v2):
                        if tag2 == tag:
                            det = dict(det2); det["minimised_from"] = c; cm, im = c2, i2
                            break
            det = dict(det); det.update({"case": cm, "impl_log": im["lines"], "replay_cmd": "bin/check C09 --replay <this file>"})
            ctx.violation(what, det)
        if model is not None:
            m = mlog.get(c["id"])
            d = conc_check.compare(m, i) if m is not None else {"index": -1, "model": "<no output>", "impl": "ok", "prefix": []}
            if d is not None:
                st["diverged"] += 1
                if st["first_div"] is None:
                    st["first_div"] = (c, d)
    if keep_logs:
        st["logs"] = ilog
    return st


def run(ctx):
    res = vcheck.coq_build(["Properties/Properties_C09.v"])
    ctx.coq_evidence(res)
    model_t = conc_check.build_model(ctx, "Extract_Treiber.v", tag="model_treiber")
    have_elim = os.path.exists(os.path.join(vcheck.COQ, "Extract", "Extract_Elim.v"))
    model_e = conc_check.build_model(ctx, "Extract_Elim.v", tag="model_elim") if have_elim else None
    impl = vcheck.cxx_build(HARNESS, os.path.join(ctx.work, "harness"), hook=True, libs=BOOST)
    lin = build_lincheck(ctx)

    if ctx.replay:
        r = json.load(open(ctx.replay))
        c = r.get("case")
        if c is None:
            ctx.log("replay file carries no case (no-failing-input-found): running the full check instead")
        else:
            fam, elim = c["cfg"][0], c["cfg"][2]
            model = (model_e if elim else model_t) if fam == 0 else None
            st = run_batch(ctx, lin, impl, [c], "replay", model)
            if st["first_div"] is not None and st["monitor_hits"] == 0:
                ctx.violation("step correspondence broken on the replayed case", {"case": c, "first_divergence": st["first_div"][1]}, no_input=True)
            ctx.coverage.update({"evaluations": 1, "distinct_nontrivial": len(st["nontrivial"]), "rule": "replay of one case", "samples": [c]})
            return ctx.finish(vcheck.STD_TRUSTED, [])

    big = ctx.thorough()
    n_step = 2500 if big else 500
    n_obs = 600 if big else 120
    cdir = os.path.join(vcheck.VERIF, "corpus", "C09")
    corpus = []
    for f in sorted(os.listdir(cdir)) if os.path.isdir(cdir) else []:
        if f.endswith(".json"):
            corpus.append(json.load(open(os.path.join(cdir, f))))

    stats = {}
    # corpus first (each case names its family; step-compared when family 0)
    for k, c in enumerate(corpus):
        fam, elim = c["cfg"][0], c["cfg"][2]
        model = (model_e if elim else model_t) if fam == 0 else None
        stats["corpus%d" % k] = run_batch(ctx, lin, impl, [c], "corpus%d" % k, model)
    # step correspondence
    stats["step_treiber"] = run_batch(ctx, lin, impl, gen_cases(ctx, n_step, 0, False, "t"), "step_treiber", model_t)
    if model_e:
        stats["step_elim"] = run_batch(ctx, lin, impl, gen_cases(ctx, n_step, 0, True, "e"), "step_elim", model_e)
    # model-guided window schedules on both step-modelled configurations
    winfo = {}
    stats["step_win_treiber"], winfo["treiber"] = run_windows(ctx, lin, impl, model_t, False, not big, "step_win_treiber")
    if model_e:
        stats["step_win_elim"], winfo["elimination"] = run_windows(ctx, lin, impl, model_e, True, not big, "step_win_elim")
    # observable correspondence for the variants that are not modelled step by step
    for fam in (0, 1, 2, 3, 4):
        for elim in (False, True):
            if fam == 0 and (not elim or model_e):
                continue
            key = "obs_f%d_e%d" % (fam, 1 if elim else 0)
            stats[key] = run_batch(ctx, lin, impl, gen_cases(ctx, n_obs, fam, elim, "o%d%d_" % (fam, 1 if elim else 0)), key, None)

    mon_hits = sum(s["monitor_hits"] for s in stats.values())
    first_div = None
    for k in stats:
        if stats[k]["first_div"] is not None:
            first_div = first_div or (k, stats[k]["first_div"])
    if (first_div is not None or not res.ok) and mon_hits == 0:
        # the correspondence or a proof broke: enlarged failing-input search with the implementation-side monitors
        ctx.log("correspondence/proof broken: enlarged search on the real code")
        for fam, elim, cnt in ((0, False, 1200), (0, True, 1200), (2, False, 400), (2, True, 400)):
            s = run_batch(ctx, lin, impl, gen_cases(ctx, cnt, fam, elim, "s%d%d_" % (fam, 1 if elim else 0)), "search_f%d_e%d" % (fam, 1 if elim else 0), None)
            mon_hits += s["monitor_hits"]
            if mon_hits:
                break
    if first_div is not None and mon_hits == 0:
        k, (c, d) = first_div
        what = {"step_treiber": "LV.Model.Treiber vs cds::container::TreiberStack<HP,int> (cds/intrusive/treiber_stack.h push/pop, cds/gc/hp.h Guard::protect)",
                "step_elim": "LV.Model.Elim vs cds::container::TreiberStack<HP,int> with elimination back-off (cds/intrusive/treiber_stack.h elimination_backoff<true>::backoff)"}
        what["step_win_treiber"] = what["step_treiber"]; what["step_win_elim"] = what["step_elim"]
        what = what.get(k, k)
        ctx.violation("step correspondence no longer holds: " + what, {"correspondence": what, "case": c, "first_divergence": d}, no_input=True)
    if not res.ok and mon_hits == 0:
        ctx.violation("Coq obligations of C09 do not check: %s" % (res.failed[:2],), {"theorem": [f[2] for f in res.failed], "errors": res.failed[:3]}, no_input=True)

    if big and res.ok:
        rc, out = vcheck.coqchk("LV.Properties.Properties_C09")
        ctx.coverage["coqchk"] = "ok" if rc == 0 else ("rc=%d: %s" % (rc, out[-300:]))
        if rc != 0:
            ctx.violation("coqchk rejects LV.Properties.Properties_C09", {"theorem": "Properties_C09", "coqchk": out[-1500:]}, no_input=True)
    step_keys = [k for k in stats if k.startswith("step_")]
    evals = sum(s["n"] for s in stats.values())
    shapes = set(); nontriv = set()
    for s in stats.values():
        shapes |= s["shapes"]; nontriv |= s["nontrivial"]
    per = {}
    for k, s in stats.items():
        if k.startswith("corpus"):
            continue
        per[k] = {"cases": s["n"], "diverged": s["diverged"], "distinct_logs": len(s["shapes"]), "distinct_contended": len(s["nontrivial"]),
                  "lincheck_verdicts": s["verdicts"], "overrun": s["overrun"], "ops": s["ops"], "impl_events": s["steps"],
                  "eliminated_pairs": s["elim_hits"], "cases_with_elimination": s.get("elim_cases", 0), "backoff_rounds": s.get("elim_rounds", 0)}
    sample = gen_cases(ctx, 1, 0, False, "sample")[0]
    ctx.coverage.update({
        "evaluations": evals, "distinct_nontrivial": len(nontriv),
        "rule": "program x schedule x configuration triples (2-4 threads, 1-4 push/pop ops each, values distinct per push; uniform, bursty, run-to-a-point-then-switch and lock-step schedules from one splitmix64 stream) plus model-guided window schedules on templates with a pre-filled stack (one / two victims stalled before the top CAS or a slot lock; see window_schedules); distinct = distinct implementation event logs; non-trivial = at least one failed CAS (contended top / protect-validated pointer changed under the popper)",
        "distinct_event_logs": len(shapes), "corpus_cases": len(corpus),
        "traces_validated_against_impl": sum(stats[k]["n"] - stats[k]["diverged"] for k in step_keys),
        "histories_decided_by_verified_lincheck": sum(sum(s["verdicts"].values()) for s in stats.values()),
        "per_variant": per, "samples": [sample], "window_schedules": winfo,
        "modelled_step_by_step": ["cds::container::TreiberStack<cds::gc::HP,int> push/pop (Model/Treiber.v)"] + (["the same with elimination back-off, collision arrays 1..4 static/dynamic (Model/Elim.v)"] if model_e else []),
        "observable_only": ["container::TreiberStack<DHP>", "intrusive::TreiberStack<HP|DHP>", "each with elimination on/off", "container::FCStack<int,std::stack<int>> elimination on/off"],
    })
    # empty() / clear(): LV.Model.TreiberFull vs the real stack (checks/C09_full.py; theorems in the companion file
    # Properties_C09_Full.v, built with the other obligations)
    full_trusted = []
    try:
        import C09_full
        fr = C09_full.run_full(ctx, report=True)
        fcov = dict(fr["coverage"])
        for k in ("print_assumptions", "obligation_names", "obligations", "discharged"):
            fcov.pop(k, None)
        ctx.coverage["full_interface_empty_clear"] = fcov
        full_trusted = list(fr.get("trusted", []))
        ctx.assumptions += list(fr.get("assumptions", []))
    except vcheck.BuildError as e:
        ctx.coverage["full_interface_empty_clear"] = {"build_failure": str(e)[-1500:]}
        ctx.violation("harness/C09/full_main.cpp does not build against the working tree: the empty()/clear() part cannot be checked",
                      {"kind": "build-failure", "harness": "full_main", "error": str(e)[-2000:]}, no_input=True)
    return ctx.finish(vcheck.STD_TRUSTED + full_trusted + ["hook layer: khizmax_libcds_verif::atomic<T>, baton scheduler, event log (hooks/include)", "ocaml/conc_main.ml event printer", "ocaml/lincheck_main.ml (text parser around the verified lincheck)"],
                      ["sequential consistency: memory_order arguments are not modelled",
                       "compare_exchange_weak never fails spuriously under the hook",
                       "smr_safe (DESIGN 4): model nodes are never reused, i.e. no node is recycled while a validated hazard pointer can reach it; this is the conclusion of C01 for cds::gc::HP and is NOT re-proved here; the harness gives HP a retired capacity (4096) that no case reaches, so no node is freed during a case",
                       "theorems cover container::TreiberStack<HP,int> with and without elimination; the intrusive, DHP and FCStack variants are covered by lincheck on sampled real histories only (fcstack_linearizable is assembled with C23)",
                       "back_off = cds::backoff::empty, elimination wait = delay_of<5,ns> (3 polls), empty item counter / stat"])
