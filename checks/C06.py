"""C06 - unbounded MPMC queues are linearizable FIFO queues (DESIGN 7, C06).

Coq: Properties_C06.v (MSQueue / MoirQueue / OptimisticQueue / RWQueue linearizable for every schedule; corollaries in
     the property's words).
Tie: step correspondence LV.Model.MSQueue <-> cds::container::{MSQueue,MoirQueue} and cds::intrusive::{MSQueue,MoirQueue},
     LV.Model.OptQueue <-> container / intrusive OptimisticQueue, LV.Model.RWQueue <-> container::RWQueue
     (HP and DHP, item counter on/off, relaxed / seq_cst memory-model trait) under the deterministic scheduler.
Search / observable correspondence: every real history of every variant (also BasketQueue and FCQueue with and without
     elimination, which have no model here) is decided by the verified extracted `lincheck` for `Fifo`.
"""
import os, json, hashlib, time
from concurrent.futures import ThreadPoolExecutor
import vcheck, conc_check

# variant id -> (name, harness group, model configuration (moir, item counter, hp) or None = observable only
#                [, model: "ms" = LV.Model.MSQueue (default), "rw" = LV.Model.RWQueue, "opt" = LV.Model.OptQueue, "bq" = LV.Model.Basket])
VARIANTS = {
    0: ("container::MSQueue<HP>", 0, (0, 0, 1)),
    1: ("container::MoirQueue<HP>", 0, (1, 0, 1)),
    2: ("container::MSQueue<HP,item_counter>", 0, (0, 1, 1)),
    3: ("container::MoirQueue<HP,item_counter>", 0, (1, 1, 1)),
    4: ("container::MSQueue<DHP>", 0, (0, 0, 0)),
    5: ("container::MoirQueue<DHP>", 0, (1, 0, 0)),
    6: ("container::MSQueue<HP,seq_cst>", 0, (0, 0, 1)),
    7: ("container::MoirQueue<HP,seq_cst>", 0, (1, 0, 1)),
    8: ("container::MSQueue<DHP,item_counter>", 0, (0, 1, 0)),
    9: ("container::MoirQueue<DHP,item_counter>", 0, (1, 1, 0)),
    10: ("intrusive::MSQueue<HP,base_hook>", 1, (0, 0, 1)),
    11: ("intrusive::MoirQueue<HP,base_hook>", 1, (1, 0, 1)),
    12: ("intrusive::MSQueue<DHP,base_hook>", 1, (0, 0, 0)),
    13: ("intrusive::MoirQueue<DHP,base_hook>", 1, (1, 0, 0)),
    14: ("intrusive::MSQueue<HP,item_counter>", 1, (0, 1, 1)),
    15: ("intrusive::MoirQueue<HP,item_counter>", 1, (1, 1, 1)),
    16: ("intrusive::MSQueue<HP,member_hook>", 1, (0, 0, 1)),
    17: ("intrusive::MoirQueue<DHP,member_hook>", 1, (1, 0, 0)),
    20: ("container::BasketQueue<HP>", 2, (0, 0, 1), "bq"),
    21: ("container::BasketQueue<DHP>", 2, (0, 0, 0), "bq"),
    22: ("container::BasketQueue<HP,item_counter>", 2, (0, 1, 1), "bq"),
    23: ("container::BasketQueue<HP,seq_cst>", 2, (0, 0, 1), "bq"),
    24: ("intrusive::BasketQueue<HP>", 2, (0, 0, 1), "bq"),
    25: ("intrusive::BasketQueue<DHP>", 2, (0, 0, 0), "bq"),
    30: ("container::OptimisticQueue<HP>", 3, (0, 0, 1), "opt"),
    31: ("container::OptimisticQueue<DHP>", 3, (0, 0, 0), "opt"),
    32: ("container::OptimisticQueue<HP,item_counter>", 3, (0, 1, 1), "opt"),
    33: ("container::OptimisticQueue<HP,seq_cst>", 3, (0, 0, 1), "opt"),
    34: ("intrusive::OptimisticQueue<HP>", 3, (0, 0, 1), "opt"),
    35: ("intrusive::OptimisticQueue<DHP>", 3, (0, 0, 0), "opt"),
    40: ("container::RWQueue<non-reusing allocator>", 4, (0, 0, 0), "rw"),
    41: ("container::RWQueue<non-reusing allocator,item_counter>", 4, (0, 1, 0), "rw"),
    47: ("container::RWQueue", 4, None),
    48: ("container::RWQueue<item_counter>", 4, None),
    42: ("container::FCQueue<std::queue>", 4, None),
    43: ("container::FCQueue<std::queue,elimination>", 4, None),
    44: ("container::FCQueue<std::queue<list>,elimination>", 4, None),
    45: ("intrusive::FCQueue<boost::intrusive::list>", 4, None),
    46: ("intrusive::FCQueue<boost::intrusive::list,elimination>", 4, None),
}
GROUPS = [0, 1, 2, 3, 4]


def model_kind(var):
    v = VARIANTS[var]
    if v[2] is None:
        return None
    return v[3] if len(v) > 3 else "ms"

LOOP_FUEL = 400


def group_extra(g):
    return ("-DC06_GROUP=%d" % g,)


def group_libs(g):
    return ("-lboost_thread", "-lboost_system") if g == 4 else ()     # boost::thread_specific_ptr of the FC kernel


def group_variants(g):
    """variants of a harness group in generation order; the flat-combining queues spin (every spin is a scheduling
    point, ~10x the steps of the others), so the two-lock queue gets three slots for each of theirs"""
    vs = sorted(v for v in VARIANTS if VARIANTS[v][1] == g)
    if g == 4:
        return [40, 41] * 3 + [47, 48] + [v for v in vs if 42 <= v <= 46]
    return vs


def build_harnesses(ctx):
    vcheck.libcds(True)        # once, before the parallel harness builds
    src = os.path.join(vcheck.VERIF, "harness/C06/main.cpp")
    def one(g):
        return g, vcheck.cxx_build(src, os.path.join(ctx.work, "h%d" % g), hook=True, extra=group_extra(g), timeout=1200, libs=group_libs(g))
    exes = {}
    errs = []
    with ThreadPoolExecutor(max_workers=len(GROUPS)) as ex:
        futs = [ex.submit(one, g) for g in GROUPS]
        for f in futs:
            try:
                g, e = f.result()
                exes[g] = e
            except vcheck.BuildError as e:
                errs.append(e)
    if errs:
        raise errs[0]
    return exes


def build_lincheck(ctx):
    d = os.path.join(ctx.work, "lin")
    os.makedirs(d, exist_ok=True)
    srcs = [os.path.join(vcheck.COQ, "Base/Lin.v"), os.path.join(vcheck.COQ, "Spec/Specs.v"),
            os.path.join(vcheck.COQ, "Extract/Extract_Lin.v"), os.path.join(vcheck.VERIF, "ocaml/lincheck_main.ml")]
    key = vcheck.file_hash(srcs)
    exe = os.path.join(d, "lincheck")
    stamp = exe + ".key"
    if os.path.exists(exe) and os.path.exists(stamp) and open(stamp).read() == key:
        return exe
    vcheck.coq_makefile()
    rc, out = vcheck.sh(["make", "-j%d" % vcheck.NCPU, "Base/Lin.vo", "Spec/Specs.vo"], cwd=vcheck.COQ, timeout=900)
    if rc != 0:
        raise vcheck.BuildError("Lin.v / Specs.v do not build:\n" + out[-3000:])
    rc, out = vcheck.extract("Extract_Lin.v", d)
    if rc != 0:
        raise vcheck.BuildError("extraction of lincheck failed:\n" + out[-3000:])
    rc, out = vcheck.ocaml_build(d, ["lin.mli", "lin.ml", os.path.join(vcheck.VERIF, "ocaml", "lincheck_main.ml")], exe)
    if rc != 0:
        raise vcheck.BuildError("ocaml build of lincheck failed:\n" + out[-3000:])
    open(stamp, "w").write(key)
    return exe


# ---------------------------------------------------------------------------------------------------------
# generators (everything from the rng passed in)

def gen_program(rng, nthreads, maxops=4):
    threads = []
    v = 10
    for t in range(nthreads):
        ops = []
        for _ in range(1 + rng.below(maxops)):
            if rng.chance(1, 2):
                ops.append([1, v]); v += 1          # values distinct per enqueue
            else:
                ops.append([2])
        threads.append(ops)
    return threads


def gen_sched(rng, nthreads):
    kind = rng.below(5)
    if kind == 0:        # uniform
        return kind, [rng.below(nthreads) for _ in range(20 + rng.below(160))]
    if kind == 1:        # bursty
        s = []
        for _ in range(1 + rng.below(10)):
            s += [rng.below(nthreads)] * (1 + rng.below(30))
        return kind, s
    if kind == 2:        # run one thread to a point, then uniform
        return kind, [rng.below(nthreads)] * (3 + rng.below(24)) + [rng.below(nthreads) for _ in range(80)]
    if kind == 3:
        # aimed at the windows of the proof: a thread is stalled after k steps of an operation
        #   enqueue: begin, st next, ld tail, st hp, faa, ld tail, ld next, CAS next | CAS tail, st hp     (stall after 8: tail lags)
        #   dequeue: begin, ld head, st hp, faa, ld head, ld next, st hp, faa, ld next | ld head, ld tail, CAS head
        #            (stall after 9: between the next load and the validation / head CAS)
        a = rng.below(nthreads)
        s = [a] * rng.choice([7, 8, 8, 9, 9, 10, 11, 12])
        for _ in range(1 + rng.below(4)):
            b = rng.below(nthreads)
            s += [b] * rng.choice([5, 8, 9, 10, 12, 14, 20, 28])
        s += [a] * rng.choice([1, 2, 3, 4, 12])
        return kind, s + [rng.below(nthreads) for _ in range(40)]
    # two threads in lock step, the others later (dequeue on empty racing with enqueue)
    a = rng.below(nthreads); b = (a + 1 + rng.below(nthreads - 1)) % nthreads
    s = []
    for _ in range(6 + rng.below(30)):
        s += [a] * (1 + rng.below(2)) + [b] * (1 + rng.below(2))
    return kind, s


def gen_cases(rng, variants, n, prefix):
    cases = []
    for i in range(n):
        var = variants[i % len(variants)]
        nthreads = 2 + rng.below(3)
        kind, sched = gen_sched(rng, nthreads)
        mc = VARIANTS[var][2] or (0, 0, 1)
        cases.append({"id": "%s%d" % (prefix, i), "cfg": [mc[0], mc[1], mc[2], LOOP_FUEL, var],
                      "threads": gen_program(rng, nthreads), "sched": sched, "kind": kind})
    return cases


WINDOW_TEMPLATES = [
    [["E"], ["E"], ["D"]],
    [["E"], ["E"], ["D", "D"]],
    [["E"], ["D"], ["D"]],
    [["E"], ["E"], ["E"]],
    [["E", "D"], ["E"], ["D"]],
    [["E", "E"], ["D"], ["D"]],
]


def gen_window_cases(ctx, model, rng, variants, prefix, per_variant):
    """model-guided window schedules (conc_check.window_schedules) for the step-modelled variants given; the profile of
    each operation is measured on the extracted model itself, so it follows the model when the model changes"""
    cases = []
    wdir = os.path.join(ctx.work, "probe")
    os.makedirs(wdir, exist_ok=True)
    for var in variants:
        mk = model_kind(var)
        if mk is None or model is None:
            continue
        mc = VARIANTS[var][2]
        cfg = [mc[0], mc[1], mc[2], LOOP_FUEL, var]
        pe = conc_check.solo_profile(model[mk], wdir, cfg, [], [1, 7], tag="pe_%d" % var)
        pd = conc_check.solo_profile(model[mk], wdir, cfg, [[1, 7]], [2], tag="pd_%d" % var)
        if not pe[1] and not pd[1]:
            continue
        allc = []
        for ti, tpl in enumerate(WINDOW_TEMPLATES):
            v = 10
            threads = []
            prof = []
            for th in tpl:
                ops = []
                for o in th:
                    if o == "E":
                        ops.append([1, v]); v += 1
                    else:
                        ops.append([2])
                threads.append(ops)
                prof.append((sum((pe if o == "E" else pd)[0] for o in th), (pe if th[0] == "E" else pd)[1]))
            for name, sched in conc_check.window_schedules(len(threads), prof, max_r=14):
                allc.append({"id": "%sv%d_t%d_%s" % (prefix, var, ti, name), "cfg": cfg, "threads": threads, "sched": sched, "kind": "window"})
        # deterministic subsample from the seed when the budget is smaller than the enumeration
        if len(allc) > per_variant:
            idx = list(range(len(allc)))
            for i in range(len(idx) - 1, 0, -1):
                j = rng.below(i + 1); idx[i], idx[j] = idx[j], idx[i]
            allc = [allc[i] for i in sorted(idx[:per_variant])]
        cases += allc
    return cases


# ---------------------------------------------------------------------------------------------------------
def history_of(case, ilog):
    """history (lincheck text lines) of an implementation log + the sequential drain done by main"""
    h = []
    for l in ilog["lines"]:
        t = l.split(" ")
        if len(t) < 3 or t[1] != "ev":
            continue
        tid, name, args = t[0], t[2], t[3:]
        if name == "inv_enq":
            h.append("inv %s enq %s" % (tid, args[0]))
        elif name == "ret_enq":
            h.append("res %s %s" % (tid, "true" if args[0] != "0" else "false"))
        elif name == "inv_deq":
            h.append("inv %s deq" % tid)
        elif name == "ret_deq":
            h.append("res %s %s" % (tid, ("some " + args[1]) if args[0] != "0" else "none"))
    n = len(case["threads"])
    for x in ilog["extra"]:
        if x.startswith("monitor drain"):
            for v in x.split()[2:]:
                h += ["inv %d deq" % n, "res %d some %s" % (n, v)]
            h += ["inv %d deq" % n, "res %d none" % n]
    return h


def overlapping(h):
    """some operation is invoked while another thread's operation is pending"""
    open_ = set()
    for l in h:
        t = l.split(" ")
        if t[0] == "inv":
            if open_:
                return True
            open_.add(t[1])
        else:
            open_.discard(t[1])
    return False


def lincheck_batch(ctx, exe, hists, tag):
    """hists: list of list-of-lines -> list of verdicts"""
    if not hists:
        return []
    f = os.path.join(ctx.work, "hist_%s.txt" % tag)
    with open(f, "w") as o:
        for h in hists:
            o.write("\n".join(h) + "\n---\n")
    rc, out = vcheck.sh("%s fifo < %s" % (exe, f), timeout=900)
    v = [l.strip() for l in out.split("\n") if l.strip()]
    # a trailing empty history after the last '---' is not reported (something was reported already)
    return v[:len(hists)] + ["ERROR no verdict"] * max(0, len(hists) - len(v))


def run_group(ctx, g, exes, model, cases, tag):
    """returns (model logs or {}, impl logs)"""
    cf = os.path.join(ctx.work, "%s_g%d.txt" % (tag, g))
    conc_check.write_cases(cf, cases)
    mlog = {}
    t0 = time.time()
    for kind in sorted(set(model_kind(c["cfg"][4]) for c in cases) - {None}) if model is not None else []:
        rc1, out1 = vcheck.sh("%s %d < %s" % (model[kind], 20000, cf), timeout=900)
        mlog[kind] = conc_check.parse_logs(out1)
    t1 = time.time()
    rc2, out2 = vcheck.sh([exes[g], cf], timeout=400 if ctx.thorough() else 240)
    ctx.log("group %d (%s): %d cases, model %.1fs, implementation %.1fs" % (g, tag, len(cases), t1 - t0, time.time() - t1))
    return mlog, conc_check.parse_logs(out2), rc2


def analyse(ctx, cases, mlog, ilog, lin, stats, label):
    """compare logs, run lincheck; fills stats; returns (first divergence or None, list of lincheck failures)"""
    hists = []; hcases = []
    first_div = None
    for c in cases:
        var = c["cfg"][4]
        st = stats.setdefault(var, {"name": VARIANTS[var][0], "level": "step" if VARIANTS[var][2] else "observable", "cases": 0,
                                    "steps_compared": 0, "diverged": 0, "lincheck_ok": 0, "lincheck_bad": 0, "overrun": 0,
                                    "overlapping": 0, "cas_failed": 0, "empty_deq": 0, "shapes": set()})
        st["cases"] += 1
        i = ilog.get(c["id"])
        if i is None or i["end"] is None:
            st["diverged"] += 1
            first_div = first_div or (c, {"index": -1, "model": "?", "impl": "<no output from the harness>", "prefix": []})
            continue
        if i["end"] != "finished":
            st["overrun"] += 1
            continue
        if VARIANTS[var][2] is not None:
            m = mlog.get(model_kind(var), {}).get(c["id"])
            if m is None:
                st["diverged"] += 1
                first_div = first_div or (c, {"index": -1, "model": "<no output from the model>", "impl": "ok", "prefix": []})
            else:
                d = conc_check.compare(m, i)
                st["steps_compared"] += len(i["lines"])
                if d is not None:
                    st["diverged"] += 1
                    first_div = first_div or (c, d)
        h = history_of(c, i)
        hists.append(h); hcases.append(c)
        st["shapes"].add(hashlib.sha256("\n".join(conc_check.norm_impl_line(x) for x in i["lines"]).encode()).hexdigest()[:12])
        if overlapping(h):
            st["overlapping"] += 1
        st["cas_failed"] += sum(1 for x in i["lines"] if " cas " in x and x.split(" ")[3] == "0")
        st["empty_deq"] += sum(1 for x in i["lines"] if " ev ret_deq 0" in x)
    verdicts = lincheck_batch(ctx, lin, hists, label)
    bad = []
    for c, h, v in zip(hcases, hists, verdicts):
        st = stats[c["cfg"][4]]
        if v == "OK":
            st["lincheck_ok"] += 1
        else:
            st["lincheck_bad"] += 1
            bad.append((c, h, v))
    return first_div, bad


def report_crash(ctx, cases, ilog, rc):
    """the harness died (signal / abort inside the real queue): the first case without a complete log is the failing input"""
    if rc == 0:
        return False
    for c in cases:
        i = ilog.get(c["id"])
        if i is None or i["end"] is None:
            var = c["cfg"][4]
            how = "hung (no progress within the time limit: a loop of the real queue no longer terminates)" if rc == 124 else "crashed (exit status %d)" % rc
            ctx.violation("the harness %s while running %s under the scheduler" % (how, VARIANTS[var][0].split("<")[0]),
                          {"variant": VARIANTS[var][0], "exit_status": rc, "case": c, "partial_log": (i or {}).get("lines", [])[-60:]})
            return True
    return False


def report_bad(ctx, bad, ilogs):
    for c, h, v in bad:
        var = c["cfg"][4]
        ctx.violation("history of %s is not a linearizable FIFO history (verified lincheck: %s)" % (VARIANTS[var][0].split("<")[0], v),
                      {"variant": VARIANTS[var][0], "verdict": v, "case": c, "history": h,
                       "impl_log": (ilogs.get(c["id"]) or {}).get("lines", [])[:400]})


def run(ctx):
    res = vcheck.coq_build(["Properties/Properties_C06.v"])
    ctx.coq_evidence(res)
    lin = build_lincheck(ctx)
    model = {"ms": conc_check.build_model(ctx, "Extract_MSQueue.v"),
             "rw": conc_check.build_model(ctx, "Extract_RWQueue.v", tag="model_rw"),
             "opt": conc_check.build_model(ctx, "Extract_OptQueue.v", tag="model_opt"),
             "bq": conc_check.build_model(ctx, "Extract_Basket.v", tag="model_bq")}
    exes = build_harnesses(ctx)
    ctx.log("built: coq %s (%.0fs), lincheck, model, %d harness groups" % ("ok" if res.ok else "FAILED", res.wall_s, len(exes)))
    stats = {}

    # ---- replay of one case --------------------------------------------------------------------------
    if ctx.replay:
        rp = json.load(open(ctx.replay))
        c = rp.get("case")
        if c is None:
            ctx.log("replay file has no case (no failing input was found when it was written)")
            return ctx.finish(vcheck.STD_TRUSTED)
        g = VARIANTS[c["cfg"][4]][1]
        mlog, ilog, rc = run_group(ctx, g, exes, model, [c], "replay")
        div, bad = analyse(ctx, [c], mlog, ilog, lin, stats, "replay")
        report_bad(ctx, bad, ilog)
        if report_crash(ctx, [c], ilog, rc):
            bad = [None]
        if div is not None and not bad:
            ctx.violation("step correspondence between the Coq model and the real queue no longer holds on the replayed case",
                          {"case": c, "first_divergence": div[1]}, no_input=True)
        ctx.log("replay: lincheck %s, divergence %s" % ("NOT OK" if bad else "OK", div[1] if div else None))
        return ctx.finish(vcheck.STD_TRUSTED)

    # ---- corpus first, then generated cases -------------------------------------------------------------
    corpus = []
    cdir = os.path.join(vcheck.VERIF, "corpus", "C06")
    for f in sorted(os.listdir(cdir)) if os.path.isdir(cdir) else []:
        if f.endswith(".json"):
            c = json.load(open(os.path.join(cdir, f)))
            mc = VARIANTS.get(c["cfg"][4], (None, None, None))[2] or (0, 0, 1)      # model configuration of the variant as of today
            c["cfg"] = [mc[0], mc[1], mc[2], LOOP_FUEL, c["cfg"][4]]
            corpus.append(c)
    scale = 5 if ctx.thorough() else 1
    per_group = {0: 1000 * scale, 1: 640 * scale, 2: 600 * scale, 3: 600 * scale, 4: 330 * scale}
    all_cases = []
    first_div = None
    all_bad = []
    kinds = {}
    samples = []
    gcases = {}
    for g in GROUPS:
        vs = group_variants(g)
        gcases[g] = [c for c in corpus if VARIANTS.get(c["cfg"][4], (None, -1))[1] == g] + \
                    gen_cases(ctx.rng.fork(), vs, per_group[g], "g%d_" % g)
        # window schedules: every step-modelled variant in the thorough tier, a seed-chosen half of them in the quick tier
        wv = [v for v in sorted(set(vs)) if model_kind(v) is not None]
        if not ctx.thorough():
            r0 = ctx.rng.fork()
            wv = [v for i, v in enumerate(wv) if (i + ctx.seed) % 2 == 0] or wv[:1]
        gcases[g] += gen_window_cases(ctx, model, ctx.rng.fork(), wv, "w%d_" % g, 100000 if ctx.thorough() else 450)
    # the groups are independent processes: run them side by side, then decide the histories side by side
    with ThreadPoolExecutor(max_workers=len(GROUPS)) as ex:
        runs = dict(zip(GROUPS, ex.map(lambda g: run_group(ctx, g, exes, model, gcases[g], "cases"), GROUPS)))
    def ana(g):
        st = {}
        mlog, ilog, rc = runs[g]
        return (st,) + analyse(ctx, gcases[g], mlog, ilog, lin, st, "g%d" % g)
    with ThreadPoolExecutor(max_workers=len(GROUPS)) as ex:
        anas = dict(zip(GROUPS, ex.map(ana, GROUPS)))
    ctx.log("histories decided")
    for g in GROUPS:
        cases = gcases[g]
        st, div, bad = anas[g]
        stats.update(st)
        report_bad(ctx, bad, runs[g][1])
        all_bad += bad
        if report_crash(ctx, cases, runs[g][1], runs[g][2]):
            all_bad.append(None)
        if div is not None and first_div is None:
            first_div = div
        for c in cases:
            kinds[c.get("kind", "corpus")] = kinds.get(c.get("kind", "corpus"), 0) + 1
        all_cases += cases
        samples.append({k: cases[len(cases) // 2][k] for k in ("id", "cfg", "threads", "sched")})

    # ---- the correspondence broke: search for a concrete failing input with the monitor -------------------
    if first_div is not None and not all_bad:
        c, d = first_div
        var = c["cfg"][4]
        g = VARIANTS[var][1]
        vs = group_variants(g)
        found = False
        for rnd in range(3):
            more = gen_cases(ctx.rng.fork(), vs, 3000, "s%d_" % rnd)
            _, il2, rc2 = run_group(ctx, g, exes, None, more, "search")
            st2 = {}
            _, bad2 = analyse(ctx, more, {}, il2, lin, st2, "search")
            if bad2:
                report_bad(ctx, bad2, il2)
                found = True
                break
            if report_crash(ctx, more, il2, rc2):
                found = True
                break
        if not found:
            mk = model_kind(var)
            mname = {"rw": "RWQueue", "opt": "OptQueue", "ms": "MSQueue", "bq": "Basket"}[mk]
            corr = {"rw": "coq/Model/RWQueue.v vs cds/container/rwqueue.h, cds/sync/spinlock.h",
                    "opt": "coq/Model/OptQueue.v vs cds/intrusive/optimistic_queue.h, cds/container/optimistic_queue.h, cds/gc/hp.h (protect/retire)",
                    "bq": "coq/Model/Basket.v vs cds/intrusive/basket_queue.h, cds/container/basket_queue.h, cds/gc/hp.h (protect/assign/copy/retire)",
                    "ms": "coq/Model/MSQueue.v vs cds/intrusive/msqueue.h, moir_queue.h, cds/container/msqueue.h, cds/gc/hp.h (protect/retire)"}[mk]
            ctx.violation("step correspondence between LV.Model.%s and %s no longer holds" % (mname, VARIANTS[var][0]),
                          {"correspondence": corr,
                           "variant": VARIANTS[var][0], "case": c, "first_divergence": d,
                           "searched": "9000 further program x schedule pairs of this group, all histories linearizable"}, no_input=True)
    if not res.ok:
        ctx.violation("Coq obligations of C06 do not check: %s" % (res.failed[:2],),
                      {"theorem": [f[2] for f in res.failed], "errors": res.failed[:3]}, no_input=True)

    pv = {}
    for v, st in sorted(stats.items()):
        st = dict(st); st["distinct_event_logs"] = len(st.pop("shapes")); pv[str(v)] = st
    tot = lambda k: sum(st[k] for st in pv.values())
    ctx.coverage.update({
        "evaluations": len(all_cases),
        "distinct_nontrivial": sum(min(st["distinct_event_logs"], st["overlapping"]) for st in pv.values()),
        "rule": "program x schedule pairs: 2-4 threads x 1-4 operations (enq of pairwise distinct values / deq), schedules of 5 kinds "
                "(0 uniform, 1 bursty, 2 run-then-switch, 3 stall inside an operation at the CAS windows, 4 two threads in lock step) from one "
                "splitmix64 stream; distinct = distinct implementation event logs per variant; non-trivial = the history has overlapping operations",
        "per_variant": pv,
        "schedule_kinds": kinds,
        "step_level_cases": sum(st["cases"] for st in pv.values() if st["level"] == "step"),
        "observable_only_cases": sum(st["cases"] for st in pv.values() if st["level"] == "observable"),
        "impl_steps_compared": tot("steps_compared"),
        "diverged": tot("diverged"), "overrun": tot("overrun"),
        "histories_decided_by_lincheck": tot("lincheck_ok") + tot("lincheck_bad"), "histories_not_linearizable": tot("lincheck_bad"),
        "failed_cas_events": tot("cas_failed"), "empty_dequeues": tot("empty_deq"),
        "traces_validated_against_impl": sum(st["cases"] - st["diverged"] - st["overrun"] for st in pv.values() if st["level"] == "step"),
        "corpus_cases": len(corpus),
        "samples": samples,
        "modelled": "cds::container / cds::intrusive MSQueue and MoirQueue (enqueue, dequeue over intrusive enqueue / do_dequeue / dispose_node; HP and DHP guard traffic; item counter); cds::container::RWQueue (enqueue, dequeue, spin locks); cds::container / cds::intrusive OptimisticQueue (enqueue, do_dequeue, fix_list); cds::container / cds::intrusive BasketQueue (enqueue incl. basket insertion, do_dequeue incl. hop loop, free_chain)",
        "not_modelled_observable_only": "FCQueue (+elimination), RWQueue with the default allocator: histories decided by the verified lincheck only (BasketQueue: step-level model, FIFO order decided by lincheck only)",
    })
    return ctx.finish(vcheck.STD_TRUSTED + [
        "hook layer: khizmax_libcds_verif::atomic<T>, baton scheduler, event log (hooks/include)",
        "ocaml/conc_main.ml event printer, ocaml/lincheck_main.ml parser",
        "checks/C06.py: extraction of the invoke/response history from the event log"],
        ["smr_safe: the model's allocator never reuses a node (conclusion of C01/C02 for gc::HP / gc::DHP)",
         "sequential consistency: memory_order arguments are not modelled (relaxed and seq_cst trait variants are both run)",
         "compare_exchange_weak never fails spuriously under the hook",
         "BasketQueue: Coq theorems cover chain well-formedness and no loss / no duplication; its FIFO order is decided by lincheck on sampled schedules only",
         "FCQueue: theorem is partial (traces without the kernel model's lost event); lincheck on sampled schedules",
         "RWQueue step correspondence uses an allocator that frees nodes after the case (the default allocator variant is observable only)"])
