"""C01 — HP never gives a retired object to its disposer while a guard that protected it since before the
reclamation pass began still protects it; guarded pointers stay live (DESIGN 7, C01).  The same harness carries
the HP half of C03 (per-object dispose counter).

Obligations: coq/Properties/Properties_C01.v (model LV.Model.Hp, proofs LV.Proofs.Hp*).
Tie: step correspondence of LV.Model.Hp with src/hp.cpp + cds/gc/hp.h under the deterministic scheduler
(harness/C01/main.cpp); the model's ghost events (names g_*) are not produced by the implementation and are
removed before the comparison.  Search: the harness monitors (guarded dispose, double dispose, touch of a
disposed object, exactly-once after destruction)."""
import os, json
import vcheck, conc_check

PROP = "Properties/Properties_C01.v"
HARNESS = "harness/C01/main.cpp"
MON_KEYS = ["guarded_dispose", "double_dispose", "unretired_dispose", "touch_disposed", "not_exactly_once", "kept_unguarded"]
KNOWN_KEY = "copy_down_disposed"       # known finding hp-guard-copy-downward (see Properties_C01.C01_copy_down_unsafe)
KNOWN_SIG = "hp-guard-copy-downward"
KNOWN_WHAT = ("a guard obtained by Guard::copy of a protected pointer into a LOWER hazard slot does not protect: a scan already in progress "
              "reads the slots in ascending order, misses the pointer once the source slot is released, and the object is disposed while the copy holds it")
MON_WHAT = {
    "guarded_dispose": "HP gave an object to its disposer while a guard that held it since before the scan began still holds it (real code, guard monitor)",
    "double_dispose": "HP disposed a retired object more than once (real code, dispose counter)",
    "unretired_dispose": "HP disposed an object that was never retired (real code, dispose counter)",
    "touch_disposed": "a guard obtained by protect() refers to an object that has been disposed (real code, poisoning disposer)",
    "kept_unguarded": "a scan left a retired object in the array although no hazard slot held it at any moment of that scan (real code, slot history monitor; C03 third sentence)",
    "not_exactly_once": "after destruction of the HP singleton a retired object was not disposed exactly once (real code, dispose counter)",
}


# ------------------------------------------------------------------------------------------------ generator
def gen_case(rng, idx):
    H = 1 + rng.below(3)
    P = 2 + rng.below(2)
    n = 2 if rng.chance(2, 3) else P            # never more threads than P: the retired array cannot overflow
    n = min(n, P)
    R = H * P + 1 + rng.below(3)
    if rng.chance(1, 8):
        R = H * P + 1 + rng.below(8)
    scan = rng.below(2)
    nsrc = 1 + rng.below(2)
    oddmode = rng.below(4)                      # 0: all even, 1: all odd, 2,3: mixed
    disciplined = not rng.chance(1, 4)
    used = set()

    def fresh():
        while True:
            o = 2 + rng.below(120)
            if oddmode == 0:
                o &= ~1
            elif oddmode == 1:
                o |= 1
            if o >= 2 and o not in used:
                used.add(o)
                return o

    threads = []
    for t in range(n):
        ops = [[1]] if not rng.chance(1, 10) else []
        nops = 3 + rng.below(7)
        for _ in range(nops):
            k = rng.below(100)
            j = rng.below(H)
            if k < 22:
                ops.append([3, j, rng.below(nsrc)])
            elif k < 30:
                ops.append([9, j])
            elif k < 38:
                ops.append([5, j])
            elif k < 43:
                ops.append([10, j, rng.below(H)])
            elif k < 63:
                ops.append([6, rng.below(nsrc), fresh() if rng.chance(4, 5) else 0])
            elif k < 78:
                ops.append([7, fresh()])
            elif k < 86:
                ops.append([8])
            elif k < 91:
                ops.append([2])
            elif k < 95:
                ops.append([1])
            else:
                if disciplined:
                    ops.append([9, j])
                else:
                    ops.append([4, j, (list(used)[rng.below(len(used))] if used and rng.chance(3, 4) else 0)])
        if rng.chance(1, 3):
            ops.append([2])
        threads.append(ops)
    kind = rng.below(4)
    if kind == 0:
        sched = [rng.below(n) for _ in range(40 + rng.below(200))]
    elif kind == 1:
        sched = []
        for _ in range(2 + rng.below(10)):
            sched += [rng.below(n)] * (1 + rng.below(25))
    elif kind == 2:
        first = rng.below(n)
        sched = [first] * (4 + rng.below(30)) + [(first + 1 + rng.below(n - 1)) % n if n > 1 else 0] * (10 + rng.below(60)) + [rng.below(n) for _ in range(40)]
    else:
        # PCT-like: priorities with a few change points
        sched = []
        prio = list(range(n))
        for _ in range(1 + rng.below(3)):
            a = rng.below(n); b = rng.below(n); prio[a], prio[b] = prio[b], prio[a]
        cur = prio[0]
        for _ in range(3):
            sched += [cur] * (5 + rng.below(60))
            cur = prio[rng.below(n)]
    return {"id": "g%d" % idx, "cfg": [H, P, R, scan, nsrc, 400], "threads": threads, "sched": sched,
            "meta": {"oddmode": oddmode, "disciplined": disciplined}}


def gen_aimed(rng, idx):
    """the windows the proofs split on: a scan of thread 1 placed between two chosen steps of thread 0's
    protect / copy / clear sequence on an object that thread 1 unlinks, retires and scans for"""
    H = 1 + rng.below(3)
    P = 2 + rng.below(2)
    R = H * P + 1 + rng.below(3)
    scan = rng.below(2)
    odd = rng.below(2) if rng.chance(1, 3) else 0
    o1 = (2 + 2 * rng.below(50)) | odd
    o2 = (2 + 2 * rng.below(50)) | odd
    while o2 == o1:
        o2 = (2 + 2 * rng.below(50)) | odd
    o3 = 110 + 2 * rng.below(5)
    j = rng.below(H)
    t0 = [[1], [6, 0, o1], [3, j, 0]]
    if H > 1 and rng.chance(1, 2):
        j2 = rng.below(H)
        if j2 != j:
            t0 += [[10, j2, j]]
            if j2 > j and rng.chance(1, 2):     # only an upward copy keeps the object protected once the source is cleared
                t0 += [[5, j]]
                j = j2
    t0 += [[9, j], [3, (j + 1) % H, 0], [9, j], [5, j]]
    t1 = [[1]]
    if rng.chance(1, 2):
        t1 += [[7, o3]]
    t1 += [[6, 0, o2 if rng.chance(1, 2) else 0], [8]]
    if rng.chance(1, 2):
        t1 += [[8]]
    if rng.chance(1, 3):
        t1 += [[2]]
    x = 5 + rng.below(12)
    y = 8 + rng.below(40)
    sched = [0] * x + [1] * y + [0] * (2 + rng.below(8)) + [1] * 60 + [0] * 20
    return {"id": "a%d" % idx, "cfg": [H, P, R, scan, 1, 400], "threads": [t0, t1], "sched": sched,
            "meta": {"aimed": True, "oddmode": odd, "disciplined": True}}


def gen_helpscan_fill(rng, idx):
    """help_scan of a detaching thread adopts an orphaned record whose retired pointers do not fit into the adopter's
    array any more (dest.push returns 'full' -> intermediate scan): four threads, P = 4, R = 4H+1+d.
    A, D hold guards; B retires 3H objects guarded by A, D, C and detaches (they stay in its record); A and D move their
    guards to 2H other objects which C retires; C detaches: its scan keeps 2H, help_scan moves B's 3H entries in.
    Returns (case without schedule, phases) for conc_check.phased_schedules."""
    H = 1 + rng.below(2)
    d = rng.below(2) if H >= 2 else 0
    P = 4
    R = 4 * H + 1 + d
    scan = rng.below(2)
    odd = 1 if rng.chance(1, 4) else 0
    base = 2 + 2 * rng.below(20)
    p = [(base + 2 * i) | odd for i in range(3 * H)]
    q = [(base + 2 * (3 * H + i)) | odd for i in range(2 * H)]
    A = [[1]] + [[4, j, p[j]] for j in range(H)]
    D = [[1]] + [[4, j, p[H + j]] for j in range(H)]
    C = [[1]] + [[4, j, p[2 * H + j]] for j in range(H)]
    B = [[1]] + [[7, x] for x in p] + [[2]]
    a1, d1, c1 = len(A), len(D), len(C)
    A += [[4, j, q[j]] for j in range(H)]
    D += [[4, j, q[H + j]] for j in range(H)]
    if rng.chance(1, 2):
        C += [[5, j] for j in range(H)]
    C += [[7, x] for x in q] + [[2]]
    tail = rng.below(4)
    if tail == 1:
        A += [[2]]; D += [[2]]
    elif tail == 2:
        A += [[5, j] for j in range(H)] + [[8]]
    elif tail == 3:
        D += [[7, (base + 2 * (5 * H + 1)) | odd], [8], [2]]
    order = [0, 1, 2]
    if rng.chance(1, 2):
        order = [1, 0, 2]
    first = {0: a1, 1: d1, 2: c1}
    phases = [(t, first[t]) for t in order] + [(3, len(B))]
    hold2 = [(0, a1 + H), (1, d1 + H)]
    if rng.chance(1, 2):
        hold2.reverse()
    phases += hold2 + [(2, len(C))]
    c = {"id": "hs%d" % idx, "cfg": [H, P, R, scan, 1, 400], "threads": [A, D, C, B], "sched": [],
         "meta": {"aimed": "helpscan_fill", "oddmode": odd, "disciplined": False}}
    return c, phases


def gen_helpscan_attach(rng, idx, r):
    """help_scan of a detaching thread Y claims the orphaned record of X (owner null, retired array not empty) while
    Z attaches and takes the same record: Y is stalled r steps into its detach, Z attaches, Y finishes, Z guards an
    object that W then retires and scans for."""
    H = 1 + rng.below(2)
    P = 4
    R = H * P + 1 + rng.below(2)
    scan = rng.below(2)
    base = 2 + 2 * rng.below(30)
    g, o, o2 = base, base + 2, base + 4
    W = [[1], [4, 0, g]]
    X = [[1], [7, g], [2]]
    Y = [[1], [2]]
    Z = [[1], [4, H - 1, o], [9, H - 1]]        # Z keeps its guard to the end (cleared by the detach of the harness)
    w1 = len(W)
    W += [[7, o], [8]]
    if rng.chance(1, 2):
        W += [[7, o2], [8]]
    # Y attaches BEFORE X detaches (an attach would otherwise simply take over X's unowned record)
    phases = [(0, w1), (2, 1), (1, len(X)), (2, ("raw", r)), (3, 1), (2, len(Y)), (2, ("raw", 4)),
              (3, len(Z)), (0, len(W))]        # the 4 slack entries let Y finish even when its step count differs from the model's
    c = {"id": "ha%d_r%d" % (idx, r), "cfg": [H, P, R, scan, 1, 400], "threads": [W, X, Y, Z], "sched": [],
         "meta": {"aimed": "helpscan_attach", "oddmode": 0, "disciplined": False}}
    return c, phases


def gen_phased_cases(ctx, model_exe, rng, n, start=0):
    """the aimed multi-phase scenarios, their schedules measured on the extracted model; each scenario is emitted as
    the exact phase order plus perturbed variants (the last r steps of a phase delayed behind the next phase)"""
    raw = [gen_helpscan_fill(rng, start + i) for i in range(n)]
    for k in range(max(1, n // 15)):
        sub = rng.fork()
        st = sub.s
        for r in range(1, 46):
            sub.s = st                              # the same scenario for every stall point r
            raw.append(gen_helpscan_attach(sub, start + n + k, r))
    wdir = os.path.join(ctx.work, "phased")
    os.makedirs(wdir, exist_ok=True)
    scheds = conc_check.phased_schedules(model_exe, wdir, raw, fuel=40000, tag="hs")
    out = []
    for c, ph in raw:
        s = scheds.get(c["id"], [])
        c["sched"] = s + [3] * 50
        out.append(c)
        # perturbation: cut a random phase boundary and delay the last r steps of the earlier phase
        if len(s) > 20 and rng.chance(2, 3):
            c2 = dict(c); c2["id"] = c["id"] + "p"
            k = 5 + rng.below(len(s) - 10); r = 1 + rng.below(6)
            t_end = s[k - 1]
            j = k
            while j < len(s) and s[j] == s[k]:
                j += 1
            c2["sched"] = s[:max(0, k - r)] + s[k:j] + [t_end] * r + s[j:] + [3] * 50
            out.append(c2)
    return out


def gen_cases(rng, n, start=0):
    return [gen_aimed(rng, start + i) if i % 5 == 4 else gen_case(rng, start + i) for i in range(n)]


# ------------------------------------------------------------------------------------------------ running
def strip_ghost(mlog):
    for k in mlog:
        mlog[k]["ghost"] = list(mlog[k]["lines"])
        mlog[k]["lines"] = [l for l in mlog[k]["lines"] if " ev g_" not in l]
    return mlog


def monitor_of(ilog_case):
    res = {}
    first = None
    for x in ilog_case["extra"]:
        t = x.split()
        if x.startswith("monitor guarded_dispose"):
            for k in range(1, len(t) - 1, 2):
                res[t[k]] = int(t[k + 1])
        elif x.startswith("monitor first"):
            first = x[len("monitor first "):]
    return res, first


def run_impl(ctx, impl, cases, tag):
    cf = os.path.join(ctx.work, tag + ".txt")
    conc_check.write_cases(cf, cases)
    rc, out = vcheck.sh([impl, cf], timeout=900)
    return rc, conc_check.parse_logs(out)


def bad_keys(mon):
    return [k for k in MON_KEYS if mon.get(k, 0) > 0]


def minimise(ctx, impl, case, key):
    """greedy: drop operations / shorten the schedule while the same monitor still fires on the real code"""
    best = case
    budget = 60
    changed = True
    while changed and budget > 0:
        changed = False
        for t in range(len(best["threads"])):
            for k in range(len(best["threads"][t])):
                if budget <= 0:
                    break
                cand = json.loads(json.dumps(best))
                del cand["threads"][t][k]
                cand["id"] = "m"
                budget -= 1
                rc, il = run_impl(ctx, impl, [cand], "min")
                if "m" in il and monitor_of(il["m"])[0].get(key, 0) > 0:
                    best = cand
                    changed = True
                    break
            if changed:
                break
    best = dict(best)
    best["id"] = case["id"] + "-min"
    return best


def analyse(model_lines):
    """statistics from the model log (ghost events included)"""
    st = {"scans": 0, "disposes": 0, "survived": 0, "helped": 0, "fallback": 0, "reuse": 0, "retries": 0}
    retired_by = {}
    disposed = set()
    nproto = 0
    for l in model_lines:
        t = l.split(" ")
        if len(t) >= 3 and t[1] == "ev":
            tid = t[0]
            if t[2] == "retire":
                retired_by.setdefault(tid, set()).add(t[3])
            elif t[2] == "dispose":
                disposed.add(t[3]); st["disposes"] += 1
            elif t[2] == "g_scan_end":
                st["scans"] += 1
                if retired_by.get(tid, set()) - disposed:
                    st["survived"] += 1
        elif len(t) >= 2 and t[1] == "xchg":
            pass
    return st


def report_first_divergence(ctx, c, d):
    ctx.violation("step correspondence between LV.Model.Hp and src/hp.cpp + cds/gc/hp.h no longer holds",
                  {"correspondence": "coq/Model/Hp.v vs cds::gc::HP (harness/C01/main.cpp)", "case": c, "first_divergence": d}, no_input=True)


def run(ctx):
    res = vcheck.coq_build([PROP])
    if not res.ok and ("missing separator" in res.log or ".Makefile.d" in res.log or "No rule to make target" in res.log):
        # the generated dependency file of the shared coq/ directory was being rewritten by a concurrent run: once more
        try:
            os.remove(os.path.join(vcheck.COQ, ".Makefile.d"))
        except OSError:
            pass
        res = vcheck.coq_build([PROP])
    ctx.coq_evidence(res)
    try:
        model = conc_check.build_model(ctx, "Extract_Hp.v")
    except vcheck.BuildError as e:
        if "Makefile" not in str(e):
            raise
        try:
            os.remove(os.path.join(vcheck.COQ, ".Makefile.d"))
        except OSError:
            pass
        model = conc_check.build_model(ctx, "Extract_Hp.v")
    impl = vcheck.cxx_build(os.path.join(vcheck.VERIF, HARNESS), os.path.join(ctx.work, "harness"), hook=True)

    if ctx.replay:
        rp = json.load(open(ctx.replay))
        cases = [rp["case"]]
        ncorpus = 0
    else:
        cases = []
        cdir = os.path.join(vcheck.VERIF, "corpus", "C01")
        for f in sorted(os.listdir(cdir)) if os.path.isdir(cdir) else []:
            if f.endswith(".json"):
                cases.append(json.load(open(os.path.join(cdir, f))))
        ncorpus = len(cases)
        cases += gen_cases(ctx.rng, 6000 if ctx.thorough() else 1500)
        cases += gen_phased_cases(ctx, model, ctx.rng, 150 if ctx.thorough() else 30, start=200000)

    rc1, mlog, rc2, ilog, raw = conc_check.run_both(ctx, model, impl, cases, fuel=40000)
    strip_ghost(mlog)
    diverged = 0; first_div = None; steps = 0; mon_hits = {}; known_cases = 0
    shapes = set(); nontrivial = set()
    hist = {"scans": 0, "disposes": 0, "survived": 0}
    cfg_hist = {}; op_hist = {}
    for c in cases:
        m = mlog.get(c["id"]); i = ilog.get(c["id"])
        if m is None or i is None:
            diverged += 1
            first_div = first_div or (c, {"index": -1, "model": "<no output>" if m is None else "ok", "impl": "<no output>" if i is None else "ok", "prefix": []})
            continue
        steps += len(i["lines"])
        mon, first = monitor_of(i)
        for k in bad_keys(mon):
            if k not in mon_hits:
                mon_hits[k] = (c, first, i["lines"])
        if mon.get(KNOWN_KEY, 0) > 0:
            known_cases += 1
            ctx.violation(KNOWN_WHAT, {"case": c, "monitor": KNOWN_KEY, "impl_log": i["lines"]}, signature=KNOWN_SIG)
        d = conc_check.compare(m, i)
        if d is not None:
            diverged += 1
            if first_div is None:
                first_div = (c, d)
        st = analyse(m["ghost"])
        for k in hist:
            hist[k] += st[k]
        h = hash(tuple(m["lines"]))
        shapes.add(h)
        if st["survived"] > 0:
            nontrivial.add(h)
        key = "H%d P%d %s" % (c["cfg"][0], c["cfg"][1], "inplace" if c["cfg"][3] else "classic")
        cfg_hist[key] = cfg_hist.get(key, 0) + 1
        for th in c["threads"]:
            for op in th:
                op_hist[op[0]] = op_hist.get(op[0], 0) + 1

    # the correspondence broke but no monitor fired on the sampled cases: enlarge the search on the real code
    if first_div is not None and not mon_hits and not ctx.replay:
        more = gen_cases(ctx.rng, 6000, start=100000)
        rc, il2 = run_impl(ctx, impl, more, "search")
        for c2 in more:
            i2 = il2.get(c2["id"])
            if i2:
                mon, first = monitor_of(i2)
                for k in bad_keys(mon):
                    if k not in mon_hits:
                        mon_hits[k] = (c2, first, i2["lines"])
    for k, (c, first, lines) in sorted(mon_hits.items()):
        cmin = minimise(ctx, impl, c, k) if not ctx.replay else c
        rc, il = run_impl(ctx, impl, [cmin], "minrun")
        lines = il.get(cmin["id"], {"lines": lines})["lines"]
        mon2, first2 = monitor_of(il[cmin["id"]]) if cmin["id"] in il else ({}, first)
        ctx.violation(MON_WHAT[k], {"case": cmin, "monitor": k, "detail": first2 or first, "impl_log": lines}, signature=None)
    if first_div is not None and not mon_hits:
        report_first_divergence(ctx, first_div[0], first_div[1])
    if not res.ok:
        ctx.violation("Coq obligations of C01 do not check: %s" % ([f[2] for f in res.failed][:3],),
                      {"theorem": [f[2] for f in res.failed], "errors": res.failed[:3]}, no_input=True)

    ctx.coverage.update({
        "evaluations": len(cases), "distinct_nontrivial": len(nontrivial),
        "rule": "program x schedule pairs on cds::gc::HP(H in 1..3, P in 2..3, R = H*P+1.., classic / in-place, even / odd / mixed addresses); "
                "2..P threads of attach / protect / copy / clear / touch / publish(+retire of the unlinked object) / retire / scan / detach / re-attach; "
                "uniform, bursty, run-then-switch and PCT-like schedules from one splitmix64 stream; distinct = distinct model event logs; "
                "non-trivial = some scan ended while an object retired earlier by the scanning thread was still undisposed (a guard made it survive)",
        "distinct_event_logs": len(shapes), "impl_steps_compared": steps, "diverged": diverged, "corpus_cases": ncorpus,
        "traces_validated_against_impl": len(cases) - diverged,
        "scans": hist["scans"], "dispose_events": hist["disposes"], "scans_with_survivor": hist["survived"],
        "config_histogram": cfg_hist, "op_histogram": {str(k): v for k, v in sorted(op_hist.items())},
        "monitors": MON_KEYS + [KNOWN_KEY], "monitor_hits": sorted(mon_hits.keys()), "known_finding_cases": known_cases,
        "samples": [{k: v for k, v in c.items()} for c in cases[ncorpus:ncorpus + 2]] if len(cases) > ncorpus else cases[:1],
        "modelled": "cds::gc::hp::details::basic_smr (alloc_thread_data, free_thread_data, scan, classic_scan, inplace_scan, help_scan, detach_all_thread, ~basic_smr), "
                    "thread_data/retired_array (push, reset, interthread_clear), generic_HP::Guard (protect, assign, clear, copy), generic_HP::retire/scan",
    })
    return ctx.finish(vcheck.STD_TRUSTED + ["hook layer: khizmax_libcds_verif::atomic<T>, baton scheduler, event log (hooks/include)", "ocaml/conc_main.ml event printer",
                                            "ghost events g_slot / g_scan_begin / g_scan_end of LV.Model.Hp are emitted by the model only (same atomic step as the access they annotate)"],
                      ["sequential consistency: memory_order arguments and thread_data::sync are not modelled",
                       "compare_exchange_weak never fails spuriously under the hook",
                       "thread_list_ modelled as an immutable-tail list (next_ is written only before the publishing CAS)",
                       "guard slots are addressed as hazards_[j] of the thread record (the thread-local guard free list is bypassed in the harness)"])
