"""C11, flat-combining half — FCPriorityQueue is linearizable to a sequential max-priority queue.

run_fc(ctx, kinds=("pqueue",), n=None) is called by checks/C11.py (coordinator); it builds harness/C11fc/main.cpp
against /repo's working tree, runs generated programs x schedules on the real FCPriorityQueue (and, on request,
FCQueue / FCStack with elimination off/on: kinds "fifo", "stack") under the deterministic scheduler and decides every
history with the verified lincheck.  Violations are reported through ctx; the returned dict goes into the evidence."""
import os, json
import vcheck, conc_check, fc_util

VARIANTS = {"pqueue": [0], "fifo": [1, 2], "stack": [3, 4]}
SPEC_OF_VARIANT = {0: "pqueue", 1: "fifo", 2: "fifo", 3: "stack", 4: "stack"}
NAME = {"pqueue": "cds::container::FCPriorityQueue", "fifo": "cds::container::FCQueue", "stack": "cds::container::FCStack"}


def gen_cases(ctx, n, variants, prefix="f"):
    rng = ctx.rng
    cases = []
    for i in range(n):
        nthreads = 2 + rng.below(3)
        val = 1 + rng.below(5)
        threads = []
        for t in range(nthreads):
            ops = []
            for _ in range(1 + rng.below(3)):
                if rng.chance(1, 2):
                    ops.append([1 if rng.chance(1, 2) else 3, val]); val += 1 + rng.below(3)     # copy / move overload
                else:
                    ops.append([2])
            threads.append(ops)
        if rng.chance(1, 2):
            sched, kind = fc_util.park_sched(rng, nthreads), "park"
        else:
            sched, kind = fc_util.gen_sched(rng, nthreads)
        cfg = [rng.choice(variants), rng.choice([1, 2, 2, 8]), 1 + rng.below(4), rng.choice([0, 0, 1, 2])]
        cases.append({"id": "%s%d" % (prefix, i), "cfg": cfg, "threads": threads, "sched": sched, "kind": kind})
    return cases


def run_fc(ctx, kinds=("pqueue",), n=None):
    src = os.path.join(vcheck.VERIF, "harness/C11fc/main.cpp")
    impl = vcheck.cxx_build([src] + fc_util.BOOST_LIBS, os.path.join(ctx.work, "harness_fc"), hook=True, link_cds=False)
    variants = [v for k in kinds for v in VARIANTS[k]]
    if n is None:
        n = (6000 if ctx.thorough() else 1200) * len(kinds)
    cases = []
    cdir = os.path.join(vcheck.VERIF, "corpus", "C11fc")
    for f in sorted(os.listdir(cdir)) if os.path.isdir(cdir) else []:
        if f.endswith(".json"):
            c = json.load(open(os.path.join(cdir, f)))
            if c["cfg"][0] in variants:
                cases.append(c)
    ncorpus = len(cases)
    if getattr(ctx, "replay", None):
        rp = json.load(open(ctx.replay))
        if "case" in rp and rp["case"].get("cfg", [None])[0] in variants:
            cases = [rp["case"]]; n = 0
    cases += gen_cases(ctx, n, variants)
    names = "/".join(NAME[k] for k in kinds)
    st = fc_util.observable_lincheck(ctx, impl, cases, lambda c: SPEC_OF_VARIANT[c["cfg"][0]], "fc_cases",
                                     "a history of the real %s is not linearizable to its sequential specification (verified lincheck)" % names,
                                     "the real %s crashes or does not terminate under the scheduler" % names,
                                     timeout=(900 if ctx.thorough() else 240))
    st["corpus_cases"] = ncorpus
    st["kinds"] = list(kinds)
    st["rule"] = ("program x schedule pairs on the real flat-combining container (2-4 threads, 1-3 push/pop operations each, prefill 0-2, compact factor 1,2,8, "
                  "combine pass count 1-4, elimination off/on where the container has it; half of the schedules park a combiner while the others publish); "
                  "non-trivial = a pair was eliminated or one combiner session served several requests")
    return st


def run(ctx):
    """stand-alone entry (bin/check C11fc): the FC half only"""
    st = run_fc(ctx, kinds=("pqueue", "fifo", "stack") if ctx.thorough() else ("pqueue",))
    ctx.coverage.update({"obligations": 0, "discharged": 0, "checker_cmd": "n/a (the Coq theorems are cited by Properties_C11/C06/C09)",
                         "evaluations": st["finished"], "distinct_nontrivial": st["distinct_nontrivial"], "rule": st["rule"], "samples": st["samples"], "fc": st})
    return ctx.finish(vcheck.STD_TRUSTED + ["hook layer (hooks/include)", "ocaml/lincheck_main.ml", "harness/C11fc/main.cpp"],
                      ["observable correspondence only", "std::priority_queue / std::queue / std::stack are modelled by the sequential specifications"])
