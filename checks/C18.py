"""C18 — quiescent structure is well-formed and traversal is exact (DESIGN 7, C18).

At every quiescent point the REAL structure is traversed and probed (harness/C15/probe_*.h, harness/C18/main.cpp):
  * quiescent points after concurrent histories: the end of every scheduled case (2-3 threads under the deterministic
    scheduler) on the 28 skip-list / EllenBinTree / BronsonAVLTreeMap variants of C15 and on MichaelList, LazyList,
    IterableList (HP, DHP, RCU) and SplitListSet over the three lists (HP, DHP, RCU);
  * quiescent points after sequential histories: after EVERY operation of long random single-threaded histories.
Checked there: traversal visits exactly the present keys, each once, strictly increasing (split lists: in split order
= increasing bit-reversed hash); size()/empty() agree with the contents (item counter enabled in all variants); every
skip-list level is an ordered sub-list of the level below; EllenBinTree: check_consistency() plus a global
leaf-oriented search-tree walk (the library's check only compares a node with its two children), sentinels, no flagged
update descriptor; BronsonAVLTreeMap: check_consistency() plus an independent walk (strict key order, parent links,
stored heights exact, |hL-hR| <= 1 — the library's do_check_consistency never adds 1 for the node itself, so its balance
test cannot fire).  Expected contents: sequential histories — a reference map driven by the same operations (results of
every operation compared as well); concurrent histories — per key, successful inserts minus successful removals.
The sequential runs are also compared, shape by shape, with the extracted Coq models (AvlSeq / EllenSeq / SkipSeq) whose
invariants are the theorems of Properties_C18.v."""
import os, json
import concurrent.futures as cf
import vcheck
import C15

LISTS = {
    100: ("MichaelList<HP>", "set", "list"), 101: ("LazyList<HP>", "set", "list"), 102: ("IterableList<HP>", "set", "list"),
    103: ("MichaelList<DHP>", "set", "list"), 104: ("LazyList<DHP>", "set", "list"), 105: ("IterableList<DHP>", "set", "list"),
    110: ("MichaelList<RCU_gpi>", "set", "list_rcu"), 111: ("LazyList<RCU_gpi>", "set", "list_rcu"),
    112: ("MichaelList<RCU_gpb>", "set", "list_rcu"), 113: ("LazyList<RCU_gpb>", "set", "list_rcu"),
    120: ("SplitListSet<HP,michael_list>", "set", "split"), 121: ("SplitListSet<HP,lazy_list>", "set", "split"),
    122: ("SplitListSet<HP,iterable_list>", "set", "split"), 123: ("SplitListSet<RCU_gpi,michael_list>", "set", "split_rcu"),
    124: ("SplitListSet<DHP,michael_list>", "set", "split"), 125: ("SplitListSet<RCU_gpi,lazy_list>", "set", "split_rcu"),
}


RELAXED = ("bronson_avl_balance", "bronson_stored_heights_exact")
RELAXED_SIG = "bronson-avl-balance-not-restored-next-to-routing-node"


def vinfo(v):
    if v in C15.VARIANTS:
        n, kind, fam, _ = C15.VARIANTS[v]
        return n, kind, fam
    return LISTS[v]


def is_list(fam):
    return fam.startswith("list") or fam.startswith("split")


def rev64(x):
    r = 0
    for _ in range(64):
        r = (r << 1) | (x & 1)
        x >>= 1
    return r


def exe_for(exes15, exes18, v):
    return exes15[v // 10] if v < 100 else exes18[(v - 100) // 10]


# ---------------------------------------------------------------------------------------------------------
# concurrent cases: contents determined by counting

def expected_by_count(ops, fam):
    cnt = {}
    for o in ops:
        if o["t"] == 91 or o["r"] is None:
            continue
        c, r = o["code"], o["r"]
        if c in (1, 2, 5) and r[0]:
            cnt[o["k"]] = cnt.get(o["k"], 0) + 1
        elif c in (3, 4) and r[0] and r[1]:
            cnt[o["k"]] = cnt.get(o["k"], 0) + 1
        elif c in (6, 7, 8, 9) and r[0]:
            cnt[o["k"]] = cnt.get(o["k"], 0) - 1
        elif c in (13, 14) and r[0] and not is_list(fam):
            cnt[r[1]] = cnt.get(r[1], 0) - 1
    return cnt


def check_concurrent(exe, v, cases, workdir, stats, tag="q", outs_ret=None):
    name, kind, fam = vinfo(v)
    rc, outs, raw = C15.run_harness(exe, cases, workdir, "%s%d" % (tag, v))
    if outs_ret is not None:
        outs_ret.update(outs)
    st = stats.setdefault(v, {"name": name, "concurrent_cases": 0, "finished": 0, "hangs": 0, "fuel": 0, "quiescent_points": 0, "sequential_ops": 0,
                              "max_items": 0, "routing_leftover_after_concurrent": 0, "struct_checks": {}, "shape_compared": 0})
    viol = []
    for c in cases:
        st["concurrent_cases"] += 1
        o = outs.get(c["id"])
        if o is None or o["end"] is None:
            viol.append(("harness produced no output for a case (crash of the real container)", {"case": c, "variant": name, "tail": raw[-500:]}, None))
            break
        if o["end"] == "hang":
            st["hangs"] += 1
            stats.setdefault("_hangs", []).append(c)
            continue
        if o["end"] != "finished":
            st["fuel"] += 1
            continue
        st["finished"] += 1
        st["quiescent_points"] += 1
        ops, nev = C15.ops_of(c, o)
        for nm, (ok, _) in o["struct"].items():
            st["struct_checks"][nm] = st["struct_checks"].get(nm, 0) + 1
        if not o["struct"].get("bronson_no_removable_routing_node", (True, ""))[0]:
            st["routing_leftover_after_concurrent"] += 1
        cnt = expected_by_count(ops, fam)
        mon = o["mon"]
        it = [int(kv.split(":")[0]) for kv in mon.get("iter", [])]
        found = [int(kv.split(":")[0]) for kv in mon.get("final", []) if kv.split(":")[1] == "1"]
        st["max_items"] = max(st["max_items"], len(it))
        bad = []
        if any(x not in (0, 1) for x in cnt.values()):
            bad.append(("successful inserts minus successful removals of a key is not 0 or 1", {"counts": cnt}))
        else:
            want = sorted(k for k, x in cnt.items() if x == 1)
            order = (lambda l: sorted(l, key=rev64)) if fam.startswith("split") else sorted
            if len(set(it)) != len(it):
                bad.append(("traversal visits a key twice", {"iter": it}))
            elif it != order(it):
                bad.append(("traversal is not in %s order" % ("split" if fam.startswith("split") else "strictly increasing key"), {"iter": it}))
            if sorted(it) != want:
                bad.append(("traversal of the quiescent structure differs from the present keys (successful inserts minus successful removals)", {"iter": it, "present": want}))
            if sorted(found) != want:
                bad.append(("lookups at the quiescent point differ from the present keys", {"found": found, "present": want}))
            if "size" in mon:
                if int(mon["size"][0]) != len(want):
                    bad.append(("size() disagrees with the contents", {"size": mon["size"][0], "present": want}))
                if int(mon["size"][2]) != (0 if want else 1):
                    bad.append(("empty() disagrees with the contents", {"empty": mon["size"][2], "present": want}))
        for nm, (ok, detail) in o["struct"].items():
            if ok or nm == "skip_towers_complete" or nm == "bronson_no_removable_routing_node":
                continue
            bad.append(("structural check %s fails at a quiescent point" % nm, {"detail": detail, "shape": " ".join(mon.get("shape", []))}))
        if int((mon.get("functor_bad") or ["0"])[0]) != 0:
            bad.append(("functor contract violated", {"count": mon["functor_bad"][0]}))
        for what, detail in bad:
            viol.append(("%s: %s (after a concurrent history)" % (name, what), {"case": c, "variant": name, "detail": detail, "events": o["events"]}, None))
    return viol


def split_quiescent(o):
    """split lists: traversal is in split order (checked by the harness: increasing bit-reversed hash), not key order"""
    bad = []
    mon = o["mon"]
    it = [tuple(map(int, kv.split(":"))) for kv in mon.get("iter", [])]
    fin = [tuple(map(int, kv.split(":"))) for kv in mon.get("final", [])]
    keys = [k for k, _ in it]
    if len(set(keys)) != len(keys):
        bad.append(("a key is visited twice by the traversal", {"iter": it}))
    if keys != sorted(keys, key=rev64):
        bad.append(("traversal is not in split order", {"iter": it}))
    if fin and sorted(keys) != sorted(k for (k, f, v) in fin if f):
        bad.append(("traversal differs from the set of keys found by lookups", {"iter": it, "found": fin}))
    if "size" in mon:
        if int(mon["size"][0]) != len(it):
            bad.append(("size() disagrees with the contents", {"size": mon["size"][0], "iter": it}))
        if int(mon["size"][2]) != (1 if not it else 0):
            bad.append(("empty() disagrees with the contents", {"empty": mon["size"][2], "iter": it}))
    for nm, (ok, detail) in o["struct"].items():
        if not ok:
            bad.append(("structural check %s fails at a quiescent point" % nm, {"detail": detail}))
    return bad


# ---------------------------------------------------------------------------------------------------------
# systematic single-preemption sweep around node re-use (lists first)

SWEEP_VARIANTS_QUICK = {102: 40, 105: 14, 122: 10, 100: 8, 101: 8, 110: 6, 111: 6}
SWEEP_VARIANTS_THOROUGH = {102: 300, 105: 120, 122: 80, 100: 60, 101: 60, 103: 30, 104: 30, 110: 40, 111: 40, 112: 20, 113: 20,
                           120: 30, 121: 30, 123: 30, 60: 30, 0: 30, 2: 30}


def gen_sweep_program(rng, v, idx):
    """prefill with present keys and with keys inserted and erased again (re-usable empty nodes / leftovers);
    thread A: one update; thread B: 2-4 updates on neighbouring keys (insert re-using, insert in front, erase)"""
    if idx == 0:      # the shape of seeded/C18a: 1, E(5), 7 ; A insert 3 ; B insert 5, insert 4, erase 5
        present, erased = [1, 7], [5]
        a_ops = [[1, 3, 33, 0]]
        b_ops = [[1, 5, 55, 0], [1, 4, 44, 0], [6, 5, 0, 0]]
    else:
        keys = list(range(8))
        erased = sorted(set(rng.choice(keys) for _ in range(1 + rng.below(2))))
        rest = [k for k in keys if k not in erased]
        present = sorted(set(rng.choice(rest) for _ in range(1 + rng.below(3))))
        ka = rng.below(8)
        a_ops = [[rng.choice([1, 1, 4, 6, 3]), ka, 10 + rng.below(80), 0]]
        near = [k for k in keys if abs(k - ka) <= 3] + erased + erased
        b_ops = [[rng.choice([1, 1, 4, 6, 6]), rng.choice(near), 10 + rng.below(80), 0] for _ in range(2 + rng.below(3))]
    mask = sum(1 << k for k in present + erased)
    emask = sum(1 << k for k in erased)
    return {"cfg": [v, mask] + [0] * 8 + [0, emask], "threads": [a_ops, b_ops], "variant": v}


def preemption_sweep(exe, v, nprog, rng, workdir, stats):
    """for every program and EVERY switch point i: A runs i scheduled steps, B runs to completion, A completes; and the
    symmetric schedule.  Quiescent probes after each run."""
    name, kind, fam = vinfo(v)
    progs = [gen_sweep_program(rng, v, i) for i in range(nprog)]
    # phase 1: solo runs give the number of scheduled steps of each thread
    solo = []
    for i, pr in enumerate(progs):
        solo.append(dict(pr, id="w%d_%d_a" % (v, i), sched=[0] * 6000))
        solo.append(dict(pr, id="w%d_%d_b" % (v, i), sched=[1] * 6000))
    outs = {}
    viol = check_concurrent(exe, v, solo, workdir, stats, tag="w1_", outs_ret=outs)
    cases = []
    for i, pr in enumerate(progs):
        oa, ob = outs.get("w%d_%d_a" % (v, i)), outs.get("w%d_%d_b" % (v, i))
        if not oa or not ob or "tsteps" not in oa["mon"] or "tsteps" not in ob["mon"]:
            continue
        na, nb = int(oa["mon"]["tsteps"][0]), int(ob["mon"]["tsteps"][1])
        for j in range(1, na):
            cases.append(dict(pr, id="w%d_%d_A%d" % (v, i, j), sched=[0] * j + [1] * 6000))
        for j in range(1, nb):
            cases.append(dict(pr, id="w%d_%d_B%d" % (v, i, j), sched=[1] * j + [0] * 6000))
    viol += check_concurrent(exe, v, cases, workdir, stats, tag="w2_")
    st = stats[v]
    st["sweep_programs"] = st.get("sweep_programs", 0) + len(progs)
    st["sweep_switch_points"] = st.get("sweep_switch_points", 0) + len(cases)
    return [(w.replace("(after a concurrent history)", "(after a concurrent history, single-preemption sweep)"), o, sg) for (w, o, sg) in viol]


# ---------------------------------------------------------------------------------------------------------
# sequential histories: quiescent after every operation

def gen_sequential(rng, v, cid, nops):
    name, kind, fam = vinfo(v)
    nk = rng.choice([4, 8, 16, 40])
    if is_list(fam):
        codes = [1, 1, 2, 4, 4, 3, 6, 6, 7, 8, 10, 11]
    elif kind == "iset":
        codes = [1, 1, 2, 4, 3, 5, 6, 7, 8, 10, 11, 12, 13, 14]
    else:
        codes = [1, 1, 2, 4, 4, 3, 5, 6, 6, 7, 8, 9, 10, 11, 12, 13, 14]
    phase_bias = rng.below(3)
    ops = []
    for i in range(nops):
        c = rng.choice(codes)
        # phases: grow, shrink, mixed — so that trees get deep and then are torn down
        ph = (i * 4 // max(1, nops) + phase_bias) % 3
        if ph == 0 and rng.chance(1, 2):
            c = rng.choice([1, 4, 5])
        elif ph == 1 and rng.chance(1, 2):
            c = rng.choice([6, 8, 13, 14] if not is_list(fam) else [6, 8])
        hm = rng.below(3)
        h = 0 if hm == 0 else (rng.below(8) if hm == 1 else rng.choice([0, 0, 0, 1, 1, 2, 7]))
        ops.append([c, rng.below(nk), 1 + rng.below(90), h])
    return {"id": cid, "cfg": [v, 0] + [0] * 8 + [1], "threads": [ops], "sched": [], "variant": v}


def parse_sequential(raw):
    res, cur = {}, None
    for line in raw.split("\n"):
        if line.startswith("case "):
            cur = {"steps": [], "end": None, "fbad": 0}
            res[line[5:].strip()] = cur
        elif cur is None:
            continue
        elif line.startswith("q "):
            cur["steps"].append({"q": list(map(int, line.split(" ")[1:]))})
        elif line.startswith("Q "):
            try:
                d = {}
                rest = line[2:]
                i_it, i_sh = rest.index(" iter="), rest.index(" shape=")
                for kv in rest[:i_it].split(" "):
                    a, b = kv.split("=")
                    d[a] = b
                d["iter"] = [tuple(map(int, x.split(":"))) for x in rest[i_it + 6:i_sh].split(" ") if x]
                d["shape"] = rest[i_sh + 7:]
                cur["steps"][-1].update(d)
            except (ValueError, IndexError):
                cur["end"] = "truncated"      # the harness died in the middle of a line
        elif line.startswith("endcase"):
            cur["end"] = line[8:].strip()
        elif line.startswith("monitor functor_bad"):
            cur["fbad"] = int(line.split(" ")[2])
    return res


def reference_step(state, code, k, v, kind, fam):
    """sequential reference: returns the expected (a, b, c) of the harness adapter and updates `state` (dict k -> v)"""
    lst = is_list(fam)
    if code in (1, 2, 5):
        if k in state:
            return (0, 0, 0)
        state[k] = v
        return (1, 0, 0)
    if code in (3, 4):
        if k in state:
            state[k] = v
            return (1, 0, 0)
        if code == 4:
            state[k] = v
            return (1, 1, 0)
        return (0, 0, 0)
    if code in (6, 7, 9):
        return (1, 0, 0) if state.pop(k, None) is not None else (0, 0, 0)
    if code == 8:
        if k in state:
            val = state.pop(k)
            return (1, k, 0 if fam in ("list_rcu", "split_rcu") else val)
        return (0, k, 0) if fam in ("list_rcu", "split_rcu") else (0, 0, 0)
    if code == 10 or (lst and code >= 10):
        return (1 if k in state else 0, 0, 0)
    if code in (11, 12):
        return (1, state[k], 0) if k in state else (0, 0, 0)
    if code in (13, 14):
        if not state:
            return (0, 0, 0)
        m = min(state) if code == 13 else max(state)
        return (1, m, state.pop(m))
    return (-1, 0, 0)


def check_sequential(exe, v, cases, workdir, stats, shape_model=None):
    name, kind, fam = vinfo(v)
    cfile = os.path.join(workdir, "seq_%d.txt" % v)
    C15.write_cases(cfile, cases)
    rc, raw = vcheck.sh([exe, cfile], timeout=1500)
    outs = parse_sequential(raw)
    st = stats.setdefault(v, {"name": name, "concurrent_cases": 0, "finished": 0, "hangs": 0, "fuel": 0, "quiescent_points": 0, "sequential_ops": 0,
                              "max_items": 0, "routing_leftover_after_concurrent": 0, "struct_checks": {}, "shape_compared": 0})
    viol = []
    for c in cases:
        o = outs.get(c["id"])
        if o is None or o["end"] != "finished":
            viol.append(("%s: sequential history did not run to completion (crash / hang of the real container)" % name,
                         {"case": c, "variant": name, "rc": rc, "tail": raw[-400:]}, None))
            break
        state = {}
        relaxed_seen = False
        ops = c["threads"][0]
        if len(o["steps"]) != len(ops):
            viol.append(("%s: harness output truncated" % name, {"case": c}, None))
            continue
        for i, (op, s) in enumerate(zip(ops, o["steps"])):
            if "iter" not in s:
                viol.append(("%s: harness output truncated (crash of the real container)" % name, {"case": dict(c, threads=[ops[:i + 1]])}, None))
                break
            st["sequential_ops"] += 1
            st["quiescent_points"] += 1
            exp = reference_step(state, op[0], op[1], op[2], kind, fam)
            got = tuple(s["q"][3:6])
            what = None
            if exp != got:
                what, det = "operation result differs from the sequential specification", {"op": op, "expected": exp, "got": got}
            else:
                if fam.startswith("split"):
                    want = sorted(state.items(), key=lambda kv: rev64(kv[0]))
                else:
                    want = sorted(state.items())
                if s["iter"] != want:
                    what, det = "traversal of the quiescent structure differs from the specification contents", {"iter": s["iter"], "expected": want}
                elif int(s["size"]) != len(state) or int(s["empty"]) != (0 if state else 1):
                    what, det = "size()/empty() disagree with the contents", {"size": s["size"], "empty": s["empty"], "expected": len(state)}
                elif s["bad"] != "-":
                    fails = [x for x in s["bad"].split(",") if x and x != "skip_towers_complete"]
                    relaxed = [x for x in fails if x in RELAXED]
                    fails = [x for x in fails if x not in RELAXED]
                    if relaxed and not relaxed_seen:
                        # relaxed balance of BronsonAVLTreeMap (open known finding): reported once per case, the run goes on;
                        # the exact-shape comparison with the Coq model (C18_shapes) is the oracle for these states
                        relaxed_seen = True
                        st["relaxed_balance_states"] = st.get("relaxed_balance_states", 0) + 1
                        viol.append(("%s: structural check %s fails at a quiescent point (sequential history, after operation %d)" % (name, relaxed[0], i),
                                     {"case": dict(c, threads=[ops[:i + 1]]), "variant": name, "detail": {"failed": relaxed, "shape": s["shape"]}}, RELAXED_SIG))
                    if fails:
                        what, det = "structural check %s fails at a quiescent point" % fails[0], {"failed": fails, "shape": s["shape"]}
            st["max_items"] = max(st["max_items"], len(state))
            if what:
                viol.append(("%s: %s (sequential history, after operation %d)" % (name, what, i),
                             {"case": dict(c, threads=[ops[:i + 1]]), "variant": name, "detail": det}, None))
                break
        if o["fbad"]:
            viol.append(("%s: functor contract violated in a sequential history" % name, {"case": c, "variant": name}, None))
    if shape_model is not None:
        viol += shape_model(v, name, fam, cases, outs, st, workdir)
    return viol


def parse_bronson_shape(sh):
    """'(L 5v2 R)' / '.'  ->  nested dict {k, valued, h (stored), l, r, rh (real height)} or None"""
    pos = [0]

    def node():
        if sh[pos[0]] == ".":
            pos[0] += 1
            return None
        assert sh[pos[0]] == "("
        pos[0] += 1
        l = node()
        assert sh[pos[0]] == " "
        pos[0] += 1
        j = pos[0]
        while sh[j] not in "vr":
            j += 1
        k = int(sh[pos[0]:j])
        valued = sh[j] == "v"
        j2 = j + 1
        while sh[j2] != " ":
            j2 += 1
        h = int(sh[j + 1:j2])
        pos[0] = j2 + 1
        r = node()
        assert sh[pos[0]] == ")"
        pos[0] += 1
        n = {"k": k, "valued": valued, "h": h, "l": l, "r": r}
        n["rh"] = 1 + max(l["rh"] if l else 0, r["rh"] if r else 0)
        return n
    return node() if sh else None


def bronson_imbalance_explained(sh):
    """Judged on the STORED heights, as the algorithm sees them: every node is either locally fine (children's stored
    heights differ by at most 1 and its own stored height is 1 + max of them) or it is one the algorithm leaves alone
    BY DESIGN (as in snaptree): its heavy child is a routing node and the double rotation would create a routing node
    with a missing child, i.e. the guard !((hXX == 0 || hXYX == 0) && !heavy->is_valued()) of
    rebalance_to_{right,left}_locked blocked it (such a node also keeps a stale stored height, and so may its
    ancestors' REAL heights differ from their stored ones although they are locally fine)."""
    H = lambda n: n["h"] if n else 0
    ok = [True]
    found = [0]

    def walk(n):
        if n is None:
            return
        hl, hr = H(n["l"]), H(n["r"])
        if abs(hl - hr) > 1:
            found[0] += 1
            if hl > hr:
                c = n["l"]
                near, far = H(c["l"]), H(c["r"])                 # hLL, hLR
                inner = H(c["r"]["l"]) if c["r"] else 0          # hLRL
            else:
                c = n["r"]
                near, far = H(c["r"]), H(c["l"])                 # hRR, hRL
                inner = H(c["l"]["r"]) if c["l"] else 0          # hRLR
            if not (not c["valued"] and near < far and (near == 0 or inner == 0) and abs(near - inner) <= 1):
                ok[0] = False
        elif n["h"] != 1 + max(hl, hr):
            ok[0] = False
        walk(n["l"])
        walk(n["r"])
    try:
        walk(parse_bronson_shape(sh))
    except Exception:
        return False
    return ok[0] and found[0] > 0


def within_envelope(sh, max_imbalance=3, max_stale=1):
    """real |hL-hR| <= 3 and |stored - real height| <= 1 at every node (the envelope observed for the relaxed balance)"""
    ok = [True]

    def walk(n):
        if n is None:
            return 0
        a, b = walk(n["l"]), walk(n["r"])
        rh = 1 + max(a, b)
        if abs(a - b) > max_imbalance or abs(rh - n["h"]) > max_stale:
            ok[0] = False
        return rh
    try:
        walk(parse_bronson_shape(sh))
    except Exception:
        return False
    return ok[0]


def signature_of(what, obj=None):
    """stable signatures of the defects found so far (matched against known_findings.json)"""
    if "Bronson" in what and ("bronson_avl_balance" in what or "bronson_stored_heights_exact" in what):
        if "concurrent history" in what:
            # no model for concurrent histories: the known finding covers the observed envelope only
            sh = ((obj or {}).get("detail") or {}).get("shape")
            return RELAXED_SIG if (sh and within_envelope(sh)) else None
        return RELAXED_SIG
    if ("MichaelList" in what or "SplitListSet" in what and "michael" in what) and "concurrent history" in what and \
       "traversal of the quiescent structure differs" in what:
        return "michael_list-iterator-visits-logically-deleted"
    return None


def report(ctx, viol):
    ctx.max_per_what = 1
    viol = [(w, o, s or signature_of(w, o)) for (w, o, s) in viol]
    for what, obj, sig in viol:
        ctx.violation(what, obj, signature=sig)


def run(ctx):
    res = vcheck.coq_build(["Properties/Properties_C18.v"])
    ctx.coq_evidence(res)
    exes15 = C15.build_groups(ctx, list(range(8)))
    exes18 = C15.build_groups(ctx, [0, 1, 2], src="harness/C18/main.cpp", flag="C18_GROUP", tag="l")
    variants = sorted(C15.VARIANTS) + sorted(LISTS)
    stats = {}
    shape_model = None
    try:
        import C18_shapes
        shape_model = C18_shapes.make(ctx)
    except ImportError:
        pass
    if ctx.replay:
        rp = json.load(open(ctx.replay))
        c = rp["case"]
        v = c["cfg"][0]
        c["variant"] = v
        if len(c["cfg"]) > 10 and c["cfg"][10] == 1:
            viol = check_sequential(exe_for(exes15, exes18, v), v, [c], ctx.work, stats, shape_model)
        else:
            viol = check_concurrent(exe_for(exes15, exes18, v), v, [c], ctx.work, stats)
        report(ctx, viol)
        ctx.coverage.update({"evaluations": 1, "distinct_nontrivial": 0, "rule": "replay", "samples": [c]})
        return ctx.finish(vcheck.STD_TRUSTED)
    nconc = 600 if ctx.thorough() else 60
    nseq, lseq = (12, 1500) if ctx.thorough() else (3, 300)
    corpus = C15.load_corpus("C18")
    jobs = []
    for v in variants:
        rng = ctx.rng.fork()
        name, kind, fam = vinfo(v)
        conc = [c for c in corpus if c["variant"] == v and not (len(c["cfg"]) > 10 and c["cfg"][10] == 1)]
        seqc = [c for c in corpus if c["variant"] == v and (len(c["cfg"]) > 10 and c["cfg"][10] == 1)]
        for i in range(nconc):
            if v in C15.VARIANTS:
                conc.append(C15.gen_case(rng, v, "q%d_%d" % (v, i)))
            else:
                c = C15.gen_case(rng, 0, "q%d_%d" % (v, i))
                c["cfg"][0] = v
                c["variant"] = v
                conc.append(c)
        for i in range(nseq):
            seqc.append(gen_sequential(rng, v, "s%d_%d" % (v, i), lseq if i else 60))
        jobs.append((v, conc, seqc))
    viol = []
    with cf.ThreadPoolExecutor(max_workers=min(12, vcheck.NCPU)) as ex:
        futs = []
        for v, conc, seqc in jobs:
            exe = exe_for(exes15, exes18, v)
            futs.append(ex.submit(check_concurrent, exe, v, conc, ctx.work, stats))
            futs.append(ex.submit(check_sequential, exe, v, seqc, ctx.work, stats, shape_model))
        for f in futs:
            viol += f.result()
        futs = []
        for v, nprog in sorted((SWEEP_VARIANTS_THOROUGH if ctx.thorough() else SWEEP_VARIANTS_QUICK).items()):
            futs.append(ex.submit(preemption_sweep, exe_for(exes15, exes18, v), v, nprog, ctx.rng.fork(), ctx.work, stats))
        for f in futs:
            viol += f.result()
    report(ctx, viol)
    C15.report_hangs(ctx, stats)
    if not res.ok:
        ctx.violation("Coq obligations of C18 do not check: %s" % (res.failed[:2],), {"theorem": [f[2] for f in res.failed], "errors": res.failed[:3]}, no_input=True)
    per = {str(v): st for v, st in sorted((k, x) for k, x in stats.items() if isinstance(k, int))}
    tot = lambda k: sum(d[k] for d in per.values())
    ctx.coverage.update({
        "evaluations": tot("quiescent_points"), "distinct_nontrivial": tot("quiescent_points"),
        "rule": "quiescent points of the real structures: the end of every scheduled concurrent case and the state after EVERY operation of long random "
                "sequential histories; all are non-trivial in the sense that the full set of checks (exact traversal, size/empty, structural walk) is evaluated",
        "quiescent_points_after_concurrent_histories": tot("finished"), "quiescent_points_after_sequential_operations": tot("sequential_ops"),
        "shape_comparisons_with_coq_models": tot("shape_compared"),
        "single_preemption_sweep": {"programs": sum(d.get("sweep_programs", 0) for d in per.values()),
                                    "switch_points_run": sum(d.get("sweep_switch_points", 0) for d in per.values()),
                                    "rule": "2-thread programs around node re-use (prefill incl. keys inserted and erased again; A = one update, B = 2-4 updates on "
                                            "neighbouring keys); for every program EVERY switch point: A runs i steps, B to completion, A completes, and the symmetric schedule"},
        "per_variant": per, "corpus_cases": len(corpus),
        "samples": [{k: x for k, x in jobs[0][2][0].items()}],
        "variants": {str(v): vinfo(v)[0] for v in variants},
    })
    return ctx.finish(vcheck.STD_TRUSTED + [
        "hook layer: khizmax_libcds_verif::atomic<T>, baton scheduler (hooks/include)",
        "harness/C15/*.h (adapters, structural probes), harness/C18/main.cpp, the reference map and the comparison in checks/C18.py"],
        ["sequential consistency: memory_order arguments are not modelled",
         "RCU global lock instantiated with cds::sync::spin instead of std::mutex",
         "after concurrent histories a BronsonAVLTreeMap may keep a routing node with fewer than two children (counted, not a violation: the property asks for order and balance)"])
