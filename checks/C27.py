"""C27 -- split-order key encoding keeps each bucket contiguous (DESIGN.md section 7, C27).

1. regenerate coq/Gen/Gen_splitlist.v from $VERIF_REPO with tools/cxx2v (unit list tools/cxx2v/units_C27.json:
   split_list::regular_hash / dummy_hash for the swar, lookup and muldiv bit-reversal functors,
   SplitListSet::bucket_no / parent_bucket of the HP, RCU and nogc flavours, and the functions they call); the
   C25 units Gen_bit_reversal / Gen_bitop, whose correctness theorems C27 imports, only when they are missing,
2. build Properties/Properties_C27.v (theorems about the generated definitions: every 64-bit hash, every table size
   2^0..2^63, each reversal functor),
3. implementation-side monitor (harness/C27/sweep.cpp `ref`): the property itself, re-stated with naive loops, evaluated
   on the REAL functions reached through classes derived from SplitListSet (the real bucket_no member on a real object
   whose m_nBucketCountLog2 is set, the real static parent_bucket, the real regular_hash/dummy_hash of the trait) --
   this is what produces the concrete failing input when a proof obligation or the translation breaks,
4. differential sweep (cross-check of the translator): the same real functions vs the OCaml extraction of the generated
   Gallina on a structured grid hash x k (boundaries, single bits, walking ones, k in 0..63, buckets >= 2^31 and >= 2^32,
   random from the seed), compared line by line.
"""
import collections, glob, hashlib, json, os, shutil, subprocess, sys, threading, time
import vcheck

UNIT = "splitlist"
UNITS_FILE = os.path.join(vcheck.VERIF, "tools", "cxx2v", "units_C27.json")
C25_UNITS = ["bit_reversal", "bitop"]
NPARTS = min(16, vcheck.NCPU)
GEN = os.path.join(vcheck.COQ, "Gen")

CHECK_TEXT = {
    "regular_is_odd": "regular_hash returns an even split-order key",
    "dummy_is_even": "dummy_hash returns an odd split-order key",
    "regular_hash_value": "regular_hash is not (64-bit bit reversal of the hash) | 1",
    "dummy_hash_value": "dummy_hash is not (64-bit bit reversal of the bucket) & ~1",
    "bucket_no_value": "bucket_no is not the low k bits of the hash",
    "bucket_keys_contiguous": "a regular key of bucket b does not sort between b's dummy and the later dummies",
    "bucket_segment_exact": "the segment after a bucket's dummy contains a key of another bucket (or misses one of its own)",
    "parent_lt_bucket": "parent_bucket is not the bucket number with its top bit cleared",
    "parent_dummy_before_bucket_dummy": "the parent's dummy does not sort before the bucket's dummy",
    "bucket_dummy_in_parent_segment": "a new bucket's dummy does not fall inside its parent's segment",
}


def _run_parallel(cmds, timeout):
    procs = [subprocess.Popen(c, stdout=subprocess.PIPE, stderr=subprocess.STDOUT, text=True) for c in cmds]
    res = []
    t_end = time.time() + timeout
    for p in procs:
        try:
            o, _ = p.communicate(timeout=max(1, t_end - time.time()))
            res.append((p.returncode, o))
        except subprocess.TimeoutExpired:
            p.kill()
            res.append((124, "timeout"))
    return res


class Translation:
    """One background run of tools/cxx2v/gen_all.py.  The run is skipped when nothing it reads has changed since a run whose
    outputs are still in place: the stamp is keyed by the content of every file under $VERIF_REPO/cds, the translator
    sources and the unit list, and records the sha256 of each generated file (verified before reuse)."""

    def __init__(self, ctx, tag, units_file, units):
        self.tag, self.units, self.cached, self.proc = tag, units, False, None
        tdir = os.path.join(vcheck.VERIF, "tools", "cxx2v")
        ufile = units_file or os.path.join(tdir, "units.json")
        key = vcheck.repo_tree_hash(("cds",)) + vcheck.file_hash([ufile] + glob.glob(os.path.join(tdir, "*.py"))) + vcheck.REPO + ",".join(units)
        key = hashlib.sha256(key.encode()).hexdigest()[:20]
        self.outputs = [os.path.join(GEN, "Gen_%s%s" % (u, e)) for u in units for e in (".v", ".meta.json")]
        self.stamp = os.path.join(ctx.work, "gen_%s_%s.json" % (tag, key))
        try:
            rec = json.load(open(self.stamp))
            if all(os.path.exists(o) and vcheck.file_hash([o]) == rec["outputs"].get(o) for o in self.outputs):
                self.cached, self.result = True, (0, rec["log"])
                return
        except (OSError, ValueError, KeyError):
            pass
        env = dict(os.environ)
        if units_file:
            env["CXX2V_UNITS"] = units_file
        self.proc = subprocess.Popen([sys.executable, os.path.join(tdir, "gen_all.py")] + (units if not units_file else []),
                                     stdout=subprocess.PIPE, stderr=subprocess.STDOUT, text=True, env=env)

    def wait(self, timeout=900):
        if self.proc is None:
            return self.result
        try:
            out, _ = self.proc.communicate(timeout=timeout)
            rc = self.proc.returncode
        except subprocess.TimeoutExpired:
            self.proc.kill()
            rc, out = 124, "cxx2v timeout"
        self.proc, self.result = None, (rc, out)
        if rc == 0:
            for old in glob.glob(os.path.join(os.path.dirname(self.stamp), "gen_%s_*.json" % self.tag)):
                os.remove(old)
            with open(self.stamp, "w") as f:
                json.dump({"log": out, "outputs": {o: vcheck.file_hash([o]) for o in self.outputs}}, f)
        return self.result


def build_model(ctx):
    """Extract Gen_splitlist and build the OCaml driver; cached by the content of everything it is made of."""
    srcs = [os.path.join(GEN, "Gen_%s.v" % UNIT), os.path.join(GEN, "Gen_%s.meta.json" % UNIT),
            os.path.join(vcheck.COQ, "Base", "CInt.v"), os.path.join(vcheck.COQ, "Extract", "Extract_C27.v"),
            os.path.join(vcheck.VERIF, "ocaml", "cxx2v_rt.ml"), os.path.join(vcheck.VERIF, "ocaml", "c27_driver.ml"),
            os.path.join(vcheck.VERIF, "tools", "cxx2v", "gen_ocaml_dispatch.py")]
    key = vcheck.file_hash(srcs)
    d = os.path.join(ctx.work, "model")
    exe = os.path.join(d, "c27_driver")
    if os.path.exists(exe) and os.path.exists(exe + ".key") and open(exe + ".key").read() == key:
        return exe, None
    shutil.rmtree(d, ignore_errors=True)
    os.makedirs(d)
    if not os.path.exists(os.path.join(GEN, "Gen_%s.vo" % UNIT)):
        rc, out = vcheck.sh(["coqc", "-Q", ".", "LV", "-w", "none", "Gen/Gen_%s.v" % UNIT], cwd=vcheck.COQ, timeout=300)
        if rc != 0:
            return None, "Gen_%s.v does not compile:\n%s" % (UNIT, out[-2000:])
    rc, out = vcheck.extract("Extract_C27.v", d)
    if rc != 0:
        return None, "extraction failed:\n" + out[-2000:]
    rc, out = vcheck.sh([sys.executable, os.path.join(vcheck.VERIF, "tools", "cxx2v", "gen_ocaml_dispatch.py"),
                         os.path.join(d, "c27_dispatch.ml"), UNIT])
    if rc != 0:
        return None, "dispatch generation failed:\n" + out[-2000:]
    for f in ("cxx2v_rt.ml", "c27_driver.ml"):
        shutil.copy(os.path.join(vcheck.VERIF, "ocaml", f), d)
    rc, order = vcheck.sh("ocamlfind ocamldep -sort *.ml *.mli", cwd=d)
    if rc != 0:
        return None, "ocamldep failed:\n" + order[-2000:]
    rc, out = vcheck.ocaml_build(d, order.split(), "c27_driver")
    if rc != 0:
        return None, "ocaml build failed:\n" + out[-3000:]
    with open(exe + ".key", "w") as f:
        f.write(key)
    return exe, None


def parse_line(l):
    name, _, rest = l.partition(" ")
    args, _, res = rest.partition(" -> ")
    return name, args.strip(), res.strip()


def nontrivial_class(name, args):
    """Case-split class of an input.  bucket_no: (k, relation of the hash's highest bit to k, is the bucket >= 2^31 /
    >= 2^32).  Unary functions: (index of the highest set bit, index of the lowest set bit, popcount class)."""
    toks = args.split()
    try:
        v = [int(t, 16) for t in toks]
    except ValueError:
        return (name, args[:24])
    if name.startswith("splitlist.bucket_no") and len(v) == 3:
        k, _, h = v
        b = h & ((1 << k) - 1)
        return (name, k, (h.bit_length() > k) - (h.bit_length() < k), b >= 1 << 31, b >= 1 << 32, b == 0)
    x = v[0]
    pc = bin(x).count("1")
    return (name, x.bit_length(), (x & -x).bit_length(), pc if pc < 3 else (3 if pc < x.bit_length() else 4))


def replay_how(line):
    return ("build harness/C27/sweep.cpp against the tree (g++ -std=c++11 -O1 -DNDEBUG -I$VERIF_REPO, linked with libcds) and run "
            "`sweep lines IN OUT` with IN containing: " + line)


def run(ctx):
    cov = ctx.coverage
    failures = []            # (kind, detail dict)

    # ---- 1. translate (in the background; the harness runs meanwhile) ---------------------------
    # The C25 units (Gen_bit_reversal, Gen_bitop) belong to C25's check and to bin/setup; they are regenerated here only when
    # missing.  Soundness does not depend on their freshness: C27_Gen.v proves by reflexivity that the splitlist unit's own,
    # freshly generated copies of swar/lookup/muldiv/msb64nz are the very terms C25's theorems are about -- a stale
    # Gen_bit_reversal.v that differs from the current source makes that obligation fail.
    if not ctx.replay:
        # always brought up to date from the current tree (the stamp skips the run when nothing changed): a stale
        # Gen_bit_reversal.v left by an earlier run against a modified tree must not raise an alarm here
        tr_c25 = Translation(ctx, "c25", None, list(C25_UNITS))
        if tr_c25:
            tr_c25.wait()                 # never two translators at once: each reads the other's Gen_*.meta.json
        tr_sl = Translation(ctx, "splitlist", UNITS_FILE, [UNIT])

    # ---- 3. harness (real code, hook off) ------------------------------------------------------
    exe = vcheck.cxx_build(os.path.join(vcheck.VERIF, "harness", "C27", "sweep.cpp"), os.path.join(ctx.work, "h", "sweep"),
                           hook=False, link_cds=True, opt="-O1")
    sw = os.path.join(ctx.work, "sweep")
    shutil.rmtree(sw, ignore_errors=True)
    os.makedirs(sw)
    tier, seed = ctx.tier, str(ctx.seed)

    if ctx.replay:                                   # bin/check C27 --replay FILE: re-run just that input on the real code
        rp = json.load(open(ctx.replay))
        line = rp.get("line") or ("%s %s" % (rp.get("function", ""), rp.get("input", "")))
        open(os.path.join(sw, "replay_in.txt"), "w").write(line + "\n")
        rcx, o = vcheck.sh([exe, "lines", os.path.join(sw, "replay_in.txt"), os.path.join(sw, "replay_out.txt")], timeout=60)
        got = open(os.path.join(sw, "replay_out.txt")).read().strip() if rcx == 0 else "harness failed: " + o[-200:]
        exp = rp.get("expected")
        ctx.log("replay: %s   (recorded expected: %s, recorded observed: %s)" % (got, exp, rp.get("observed")))
        if exp is not None and parse_line(got)[2] != str(exp).split()[-1]:
            ctx.violation(rp.get("what", "replayed input still fails"), {"line": line, "expected": exp, "observed": parse_line(got)[2]},
                          signature=rp.get("signature"))
        cov.update({"evaluations": 1, "distinct_nontrivial": 1, "rule": "replay of one recorded input", "samples": [got]})
        return ctx.finish(vcheck.STD_TRUSTED)

    # corpus first: recorded lines must still be produced by the real code
    corpus_lines = []
    for cf in sorted(glob.glob(os.path.join(vcheck.VERIF, "corpus", "C27", "*.txt"))):
        corpus_lines += [l.strip() for l in open(cf) if l.strip() and not l.startswith("#")]
    cov["corpus_cases"] = len(corpus_lines)
    if corpus_lines:
        cin = os.path.join(sw, "corpus_in.txt")
        open(cin, "w").write("\n".join(corpus_lines) + "\n")
        rcx, o = vcheck.sh([exe, "lines", cin, os.path.join(sw, "corpus_out.txt")], timeout=120)
        got = [l.strip() for l in open(os.path.join(sw, "corpus_out.txt"))] if rcx == 0 else []
        for want, g in zip(corpus_lines, got):
            if want != g:
                n, a, r = parse_line(want)
                ctx.violation("corpus case no longer holds on the real code: " + n,
                              {"function": n, "input": a, "line": "%s %s" % (n, a), "expected": r,
                               "observed": parse_line(g)[2], "how_to_replay": replay_how("%s %s" % (n, a))},
                              signature="corpus:%s:%s" % (n, a))
        if rcx != 0 or len(got) != len(corpus_lines):
            failures.append(("corpus", {"message": "corpus run failed rc=%s: %s" % (rcx, o[-300:])}))

    # the property on the real code (always run; this finds the failing inputs)
    r = _run_parallel([[exe, "ref", seed, tier, str(p), str(NPARTS), os.path.join(sw, "ref_%d.txt" % p)] for p in range(NPARTS)], 900)
    ref_counts = collections.Counter()
    mismatches = {}
    for p in range(NPARTS):
        fp = os.path.join(sw, "ref_%d.txt" % p)
        if r[p][0] != 0 or not os.path.exists(fp):
            failures.append(("harness", {"message": "sweep ref part %d failed rc=%s %s" % (p, r[p][0], r[p][1][-300:])}))
            continue
        for l in open(fp):
            t = l.split()
            if t and t[0] == "REFCOUNT":
                ref_counts[t[1]] += int(t[2])
            elif t and t[0] == "MISMATCH":
                body = l.strip()[len("MISMATCH "):]
                name, _, rest = body.partition(" ")
                parts = [x.strip() for x in rest.split("|")]
                cand = (name, parts[0], parts[1] if len(parts) > 1 else "", parts[2] if len(parts) > 2 else "")
                base = name.split(".")[0]
                key = (len(parts[0].split()), [len(x) for x in parts[0].split()], parts[0], name)
                if base not in mismatches or key < mismatches[base][0]:     # keep the smallest input per check
                    mismatches[base] = (key, cand)
    cov["reference_evaluations"] = dict(ref_counts)
    cov["reference_mismatching_checks"] = sorted(mismatches)
    for base in sorted(mismatches):
        name, args, exp, obs = mismatches[base][1]
        variant = name.split(".")[1] if "." in name else ""
        arg_names = {"regular_is_odd": "h", "dummy_is_even": "b", "regular_hash_value": "h", "dummy_hash_value": "b",
                     "bucket_no_value": "k h", "bucket_keys_contiguous": "k h [b']", "bucket_segment_exact": "k b h2",
                     "parent_lt_bucket": "b", "parent_dummy_before_bucket_dummy": "b", "bucket_dummy_in_parent_segment": "b [b'']"}
        ctx.violation("C27 fails on the real code: " + CHECK_TEXT.get(base, base),
                      {"check": base, "variant (reversal functor or flavour)": variant or "hp", "input_hex": args,
                       "input_meaning": arg_names.get(base, ""), "expected": exp, "observed": obs,
                       "how_to_replay": "build harness/C27/sweep.cpp against the tree and run `sweep ref %s %s 0 1 OUT`; or evaluate "
                                        "the functions on this input with `sweep lines`" % (seed, tier)},
                      signature="ref:%s:%s" % (name, args))

    emit_r = _run_parallel([[exe, "emit", seed, tier, str(p), str(NPARTS), os.path.join(sw, "emit_%d.txt" % p)] for p in range(NPARTS)], 900)
    emit_bad = [p for p in range(NPARTS) if emit_r[p][0] != 0]

    # ---- 2. translation results; proof obligations (the extracted model is built and run concurrently) ----
    rc0, out0 = tr_c25.wait() if tr_c25 else (0, "cxx2v: units bit_reversal, bitop present (regenerated by bin/setup / C25)")
    rc, out = tr_sl.wait()
    ctx.log("cxx2v:", (out0.strip() + " | " + out.strip()).replace("\n", " | ")[-700:])
    cov["translator"] = {"cmd": "CXX2V_UNITS=tools/cxx2v/units_C27.json python3 tools/cxx2v/gen_all.py  (+ gen_all.py bit_reversal bitop when their Gen files are missing)",
                         "rc": [rc0, rc], "repo": vcheck.REPO, "output": (out0.strip().split("\n") + out.strip().split("\n"))[-8:],
                         "splitlist_outputs_reused_because_all_inputs_unchanged": tr_sl.cached}
    gen_ok = os.path.exists(os.path.join(GEN, "Gen_%s.meta.json" % UNIT))
    funcs = {}
    if gen_ok:
        m = json.load(open(os.path.join(GEN, "Gen_%s.meta.json" % UNIT)))
        for f in m["functions"]:
            funcs["%s.%s" % (UNIT, f["coq"])] = {"cxx": f["cxx"], "sig": f["sig"], "source": f["source"], "sha256": f["sha256"]}
    cov["generated_functions"] = funcs
    if rc != 0 or rc0 != 0:
        failures.append(("translator", {"translation_unit": [l for l in (out0 + "\n" + out).split("\n") if "FAILED" in l or "SKIPPED" in l],
                                        "message": (out0 + out)[-1500:]}))
    model_box = {}
    mt = None
    if gen_ok:
        vcheck.coq_makefile()
        vcheck.sh(["make", "Gen/Gen_%s.vo" % UNIT], cwd=vcheck.COQ, timeout=600)      # shared by the proofs and the extraction

        def model_job():
            model_box["model"], model_box["err"] = build_model(ctx)
            if model_box["model"]:
                model_box["runs"] = _run_parallel([[model_box["model"], os.path.join(sw, "emit_%d.txt" % p), os.path.join(sw, "model_%d.txt" % p)]
                                                   for p in range(NPARTS) if p not in emit_bad], 1500)
        mt = threading.Thread(target=model_job)
        mt.start()
    res = vcheck.coq_build(["Properties/Properties_C27.v"], timeout=1700)
    ctx.coq_evidence(res)
    ctx.log("coq: %d/%d obligations discharged in %.0fs" % (len(res.discharged), len(res.obligations), res.wall_s))
    if not res.ok:
        for (f, ln, thm, msg) in res.failed[:6]:
            failures.append(("proof", {"file": f, "line": ln, "lemma": thm, "coq_error": msg}))
    if ctx.thorough() and res.ok:
        # C25's proof modules of the bit reversals take ~15 CPU-minutes to re-check and are re-checked by C25's own thorough
        # tier: they are admitted here (coqchk -admit), everything else in the cone of Properties_C27 is re-checked
        admitted = ["LV.Proofs." + os.path.basename(f)[:-3] for f in sorted(glob.glob(os.path.join(vcheck.COQ, "Proofs", "C25_Rev*.vo")))]
        rc2, o2 = vcheck.sh(["coqchk", "-o", "-silent", "-Q", ".", "LV"] + [x for m in admitted for x in ("-admit", m)]
                            + ["LV.Properties.Properties_C27"], cwd=vcheck.COQ, timeout=2400)
        cov["coqchk"] = {"rc": rc2, "tail": o2[-300:], "admitted_modules_rechecked_by_C25": admitted,
                         "note": "rc 124 = coqchk did not finish in 2400 s; not counted as a failure"}
        if rc2 not in (0, 124):
            failures.append(("proof", {"file": "coqchk", "coq_error": o2[-600:]}))
    if mt:
        mt.join()

    # ---- 4. differential sweep: real code vs extracted model -----------------------------------
    evaluations = 0
    hist = collections.Counter()
    khist = collections.Counter()
    big = collections.Counter()
    ub = {}
    ub_count = collections.Counter()
    classes = set()
    samples = []
    disagreements = []
    model, err = (model_box.get("model"), model_box.get("err")) if gen_ok else (None, "the splitlist unit was not translated")
    if emit_bad:
        failures.append(("harness", {"message": "sweep emit failed for parts %s: %s" % (emit_bad, emit_r[emit_bad[0]][1][-300:])}))
    if model is None:
        failures.append(("model", {"message": err}))
    else:
        r = model_box.get("runs", [])
        if any(x[0] != 0 for x in r):
            failures.append(("model", {"message": "model driver failed: %s" % [x for x in r if x[0] != 0][0][1][-300:]}))
        for p in range(NPARTS):
            fe, fm = os.path.join(sw, "emit_%d.txt" % p), os.path.join(sw, "model_%d.txt" % p)
            if not (os.path.exists(fe) and os.path.exists(fm)):
                continue
            with open(fe) as a, open(fm) as b:
                for le, lm in zip(a, b):
                    name, args, resx = parse_line(le)
                    evaluations += 1
                    hist[name] += 1
                    if name.startswith("splitlist.bucket_no"):
                        khist[int(args.split()[0], 16)] += 1
                    try:
                        rv = int(resx, 16)
                        if name.startswith("splitlist.bucket_no") or name.startswith("splitlist.parent_bucket"):
                            big[">=2^32" if rv >= 1 << 32 else ">=2^31" if rv >= 1 << 31 else "<2^31"] += 1
                    except ValueError:
                        pass
                    if le == lm:
                        classes.add(nontrivial_class(name, args))
                        if len(samples) < 12 and evaluations % 9973 == 1:
                            samples.append(le.strip())
                        continue
                    name2, args2, resm = parse_line(lm)
                    if (name, args) != (name2, args2):
                        disagreements.append((name, args, "line mismatch", lm.strip()))
                    elif resm == "UB":
                        ub_count[name] += 1
                        key = (len(args), args)
                        if name not in ub or key < ub[name][0]:
                            ub[name] = (key, args, resx)
                    elif resm == "NOFUNC":
                        disagreements.append((name, args, resx, "function missing from the generated model"))
                    else:
                        disagreements.append((name, args, resx, resm))
    seen = set()
    for (name, args, resx, resm) in disagreements:
        if name in seen:
            continue
        seen.add(name)
        ctx.violation("compiled C++ and generated Gallina disagree for %s (translator or CInt semantics is wrong, or the "
                      "harness does not call the translated function)" % name,
                      {"function": name, "cxx": funcs.get(name, {}).get("cxx"), "input": args, "line": "%s %s" % (name, args),
                       "expected": resm, "observed": resx, "expected_is": "Gallina model", "observed_is": "compiled C++",
                       "how_to_replay": replay_how("%s %s" % (name, args))}, signature="diff:%s:%s" % (name, args))
    # every emitted input lies inside the property's domain (k <= 63, bucket > 0 for parent_bucket): the model must be defined
    for name in sorted(ub):
        _, args, resx = ub[name]
        ctx.violation("%s is undefined behaviour in the generated model on an input inside C27's domain (C++ happened to return a value)" % name,
                      {"function": name, "cxx": funcs.get(name, {}).get("cxx"), "source": funcs.get(name, {}).get("source"),
                       "input": args, "input_meaning": "bucket_no: m_nBucketCountLog2 m_nMaxItemCount hash (hex); others: the argument (hex)",
                       "line": "%s %s" % (name, args), "expected": "a defined result (every k <= 63 and every 64-bit value is in the domain)",
                       "observed": "model: UB (None: shift count >= width of the promoted left operand, or signed overflow); compiled C++ returned " + resx,
                       "inputs_with_UB": ub_count[name], "how_to_replay": replay_how("%s %s" % (name, args))},
                      signature="ub:%s:%s" % (name, args))

    # ---- 5. obligations broke but no failing input -> say exactly what no longer checks --------
    if failures and not ctx.violations:
        for kind, det in failures[:4]:
            what = {"translator": "cxx2v can no longer translate the C27 unit (construct outside the supported subset, or a callee that is not listed)",
                    "proof": "a C27 theorem about the generated code no longer checks",
                    "model": "the extracted model could not be built/run",
                    "harness": "the C27 harness failed", "corpus": "the corpus run failed"}[kind]
            ctx.violation(what, dict(det, kind=kind, searched="C27 property on the real functions, %d evaluations: no mismatch; "
                                     "model vs C++ on %d inputs: no disagreement" % (sum(ref_counts.values()), evaluations)), no_input=True)
    elif failures:
        cov["broken_obligations"] = [dict(d, kind=k) for k, d in failures[:8]]

    cov.update({
        "evaluations": evaluations + sum(ref_counts.values()),
        "model_vs_cxx_evaluations": evaluations,
        "distinct_nontrivial": len(classes),
        "rule": "distinct classes among the inputs on which compiled C++ and extracted Gallina were compared and agreed: bucket_no -> "
                "(flavour, k, hash shorter/equal/longer than k bits, bucket >= 2^31, bucket >= 2^32, bucket = 0); regular_hash/dummy_hash/"
                "parent_bucket -> (function, index of the highest set bit, index of the lowest set bit, popcount class) -- the case splits of "
                "the proofs (block lemma per k, MSB binary search, per-byte tables)",
        "per_function_inputs": dict(hist),
        "bucket_no_inputs_per_k": {str(k): khist[k] for k in sorted(khist)},
        "bucket_magnitude_histogram": dict(big),
        "samples": samples,
        "cxx_value_where_model_says_UB": dict(ub_count),
        "asm_variant_note": "SplitListSet::parent_bucket calls bitop::MSBnz, which on amd64 is the inline-asm bsr of "
                            "cds/compiler/gcc/amd64/bitop.h; the translated and proved callee is the portable C version of "
                            "cds/details/bitop_generic.h (prelude of units_C27.json).  The harness runs the asm one: it is covered by this sweep only",
        "seed": ctx.seed,
    })
    ctx.log("sweep: %d model-vs-C++ evaluations, %d property evaluations on the real code, %d classes, UB-with-value %d"
            % (evaluations, sum(ref_counts.values()), len(classes), sum(ub_count.values())))
    trusted = vcheck.STD_TRUSTED + [
        "tools/cxx2v (clang 14 JSON AST -> Gallina) and coq/Base/CInt.v's reading of the C++ standard for g++/amd64 (LP64); "
        "atomic<size_t> m_nBucketCountLog2 .load(relaxed) is read as a plain field; cross-checked on every run by the differential sweep above",
        "Print Assumptions: " + ("all C27 theorems closed under the global context" if res.assumptions and all(v == "closed" for v in res.assumptions.values())
                                 else json.dumps(res.assumptions)),
        "ocaml/cxx2v_rt.ml, ocaml/c27_driver.ml, tools/cxx2v/gen_ocaml_dispatch.py (text <-> Coq Z, dispatch)",
        "C25's theorems swar_u64_is_rev / lookup_u64_is_rev / muldiv_u64_is_rev / msb64nz_spec (imported; the C27 unit's own copies of "
        "those functions are proved equal to C25's by reflexivity)",
    ]
    assumptions = [
        "asserts are compiled out (NDEBUG) in both the translated configuration and the harness (parent_bucket(0) is UB in the model; the C++ only asserts)",
        "the inline-asm bsr variant of MSBnz is not translated (sweep only)",
        "tables of >= 2^32 buckets cannot be allocated in the sandbox: bucket_no is the real member evaluated on a real (16-item) set object after "
        "storing k into its m_nBucketCountLog2; parent_bucket/regular_hash/dummy_hash are static and called directly through the derived class",
        "the list corollary is about any strictly sorted list of split-order keys; that MichaelList/LazyList keep the list sorted is C13/C14's subject",
    ]
    return ctx.finish(trusted, assumptions)
