"""C25_init -- the splitter constructors of cds/algo/split_bitstring.h (helper of C25; DESIGN.md section 7, C25).

The C25 theorems about number_splitter / split_bitstring / byte_splitter start from an initial splitter record.  That
record is now produced by GENERATED constructors (tools/cxx2v/units_C25_init.json, unit split_ctor -> coq/Gen/
Gen_split_ctor.v: "constructors as functions" into the records of unit split), and Properties/Properties_C25_Gen.v
restates the theorems of Properties_C25 (d) from there.

    run_init(ctx)  ->  dict      to be called from checks/C25.py (after its own translation of unit `split`):
        1. regenerates unit split_ctor from $VERIF_REPO (unit split first when it is missing),
        2. builds Properties/Properties_C25_Gen.v (returned as ["coq"], a vcheck.CoqResult; the caller decides how to
           count its obligations; failures are reported here when no failing input explains them),
        3. differential sweep of the constructors: compiled C++ (harness/C28/main.cpp, lines split_ctor.<fam>_init[_at],
           private members read with -fno-access-control) vs the OCaml extraction of Gen_split_ctor vs an independent
           Python reference: every family, every bit offset inside the source object, truncating offsets,
        4. reports mismatches through ctx.violation (concrete input) and records measured numbers under
           ctx.coverage["splitter_constructors"].
    run(ctx)       stand-alone entry: `bin/check C25_init` (auxiliary check; its evidence stays in the work area).
"""
import collections, json, os, shutil, sys
import vcheck
import C28 as _c28           # run_cases / split_line: the line protocol shared with harness/C28/main.cpp

UNITS_JSON = os.path.join(vcheck.VERIF, "tools", "cxx2v", "units_C25_init.json")
UNIT = "split_ctor"
PROP = "Properties/Properties_C25_Gen.v"
SIZES = [1, 2, 4, 6, 8]

FAMILIES = collections.OrderedDict()        # family -> (kind, size in bytes, signed)
for _n, _s, _sg in (("ns_i16", 2, True), ("ns_u16", 2, False), ("ns_i32", 4, True), ("ns_u32", 4, False), ("ns_i64", 8, True),
                    ("ns_u64", 8, False), ("ns_i64ll", 8, True), ("ns_u64ll", 8, False)):
    FAMILIES[_n] = ("ns", _s, _sg)
for _k in ("sb", "bs"):
    for _u in ("u32", "u64"):
        for _n in SIZES:
            FAMILIES["%s_%s_%d" % (_k, _u, _n)] = (_k, _n, False)

EXTRACT = """(* written by checks/C25_init.py: the GENERATED splitter constructors *)
Require Extraction.
Require Import ExtrOcamlBasic.
Require LV.Gen.Gen_split_ctor.
Set Extraction Output Directory ".".
Separate Extraction Gen_split_ctor.
"""


def tok_hash(fam, u):
    kind, size, signed = FAMILIES[fam]
    W = 8 * size
    u &= (1 << W) - 1
    if kind == "ns":
        if signed and u >= 1 << (W - 1):
            return "-%x" % ((1 << W) - u)
        return "%x" % u
    return "m:" + "".join("%02x" % ((u >> (8 * i)) & 0xff) for i in range(size))


def reference(case):
    """what the constructor's initialiser list says, computed independently -> expected line, or None (undefined in C++)"""
    t = case.split()
    fn = t[0].partition(".")[2]
    at = fn.endswith("_init_at")
    fam = fn[:-len("_init_at")] if at else fn[:-len("_init")]
    kind, size, signed = FAMILIES[fam]
    off = int(t[2], 16) if at else 0
    if kind == "ns":
        return "%s %x" % (t[1], off & 0xffffffff)             # number_( n ), shift_( static_cast<unsigned>( offset ))
    if off // 8 > size:
        return None
    if kind == "sb":
        return "%x %x 0 %x" % (off // 8, off % 8, size)       # cur_ offset_ first_ last_ (byte offsets from &h)
    return "%x 0 %x" % (off // 8, size)                       # cur_ first_ last_


def gen_cases(ctx):
    rng = ctx.rng.fork()
    lines = []
    for fam, (kind, size, signed) in FAMILIES.items():
        W = 8 * size
        hashes = [0, 1, (1 << W) - 1, 1 << (W - 1), (1 << (W - 1)) - 1] + [rng.next() & ((1 << W) - 1) for _ in range(8 if ctx.thorough() else 3)]
        for u in hashes:
            lines.append("%s.%s_init %s" % (UNIT, fam, tok_hash(fam, u)))
        offs = list(range(0, W + 1))
        if kind == "ns":
            offs += [W + 1, 0x7fffffff, 0x80000000, 0xffffffff, 0x100000000, 0x100000005, (1 << 63) + 9, (1 << 64) - 1]
        for off in offs:
            lines.append("%s.%s_init_at %s %x" % (UNIT, fam, tok_hash(fam, hashes[(off * 7 + 3) % len(hashes)]), off))
    return list(collections.OrderedDict.fromkeys(lines))


def build_model(work):
    srcs = [os.path.join(vcheck.COQ, "Gen", "Gen_split.v"), os.path.join(vcheck.COQ, "Gen", "Gen_split_ctor.v"),
            os.path.join(vcheck.COQ, "Gen", "Gen_split_ctor.meta.json"), os.path.join(vcheck.COQ, "Base", "CInt.v"),
            os.path.join(vcheck.VERIF, "ocaml", "cxx2v_rt.ml"), os.path.join(vcheck.VERIF, "tools", "cxx2v", "gen_ocaml_dispatch.py"),
            os.path.abspath(__file__)]
    key = vcheck.file_hash(srcs)
    d = os.path.join(work, "init_model")
    exe = os.path.join(d, "c25_init_driver")
    if os.path.exists(exe) and os.path.exists(exe + ".key") and open(exe + ".key").read() == key:
        return exe, None
    shutil.rmtree(d, ignore_errors=True)
    os.makedirs(d)
    vcheck.coq_makefile()
    rc, out = vcheck.sh(["make", "-j4", "Gen/Gen_split_ctor.vo"], cwd=vcheck.COQ, timeout=600)
    if rc != 0:
        return None, "Gen_split_ctor.v does not compile:\n" + out[-2000:]
    with open(os.path.join(d, "Extract_C25_init.v"), "w") as f:
        f.write(EXTRACT)
    rc, out = vcheck.sh(["coqc", "-Q", vcheck.COQ, "LV", "-w", "none", "-o", os.path.join(d, "Extract_C25_init.vo"),
                         os.path.join(d, "Extract_C25_init.v")], cwd=d, timeout=600)
    if rc != 0:
        return None, "extraction failed:\n" + out[-2000:]
    rc, out = vcheck.sh([sys.executable, os.path.join(vcheck.VERIF, "tools", "cxx2v", "gen_ocaml_dispatch.py"),
                         os.path.join(d, "c25i_dispatch.ml"), UNIT])
    if rc != 0:
        return None, "dispatch generation failed:\n" + out[-2000:]
    shutil.copy(os.path.join(vcheck.VERIF, "ocaml", "cxx2v_rt.ml"), d)
    with open(os.path.join(d, "c25_init_driver.ml"), "w") as f:
        f.write("(* written by checks/C25_init.py *)\nlet () = Cxx2v_rt.run C25i_dispatch.eval\n")
    rc, order = vcheck.sh("ocamlfind ocamldep -sort *.ml *.mli", cwd=d)
    if rc != 0:
        return None, "ocamldep failed:\n" + order[-2000:]
    rc, out = vcheck.ocaml_build(d, order.split(), "c25_init_driver")
    if rc != 0:
        return None, "ocaml build failed:\n" + out[-3000:]
    with open(exe + ".key", "w") as f:
        f.write(key)
    return exe, None


def run_init(ctx, build_coq=True):
    info = {"unit": UNIT, "unit_list": "tools/cxx2v/units_C25_init.json"}
    failures = []
    nviol0 = len(ctx.violations)

    # ---- 1. translate (unit split is a requirement: generated here only when checks/C25.py has not done it) ----
    gen_all = os.path.join(vcheck.VERIF, "tools", "cxx2v", "gen_all.py")
    if not os.path.exists(os.path.join(vcheck.COQ, "Gen", "Gen_split.meta.json")):
        rc0, out0 = vcheck.sh([sys.executable, gen_all, "split"], timeout=600)
        info["translator_split"] = {"rc": rc0, "output": out0.strip().split("\n")[-3:]}
    rc, out = vcheck.sh([sys.executable, gen_all, UNIT], timeout=600, env={"CXX2V_UNITS": UNITS_JSON})
    ctx.log("cxx2v (constructors):", out.strip().replace("\n", " | ")[-300:])
    info["translator"] = {"cmd": "CXX2V_UNITS=tools/cxx2v/units_C25_init.json python3 tools/cxx2v/gen_all.py " + UNIT, "rc": rc,
                          "repo": vcheck.REPO, "output": out.strip().split("\n")[-4:]}
    meta = os.path.join(vcheck.COQ, "Gen", "Gen_%s.meta.json" % UNIT)
    if os.path.exists(meta):
        info["generated_functions"] = {"%s.%s" % (UNIT, f["coq"]): {"cxx": f["cxx"], "sig": f["sig"], "source": f["source"], "sha256": f["sha256"]}
                                       for f in json.load(open(meta))["functions"]}
    if rc != 0:
        failures.append(("translator", {"message": out[-1500:]}))

    # ---- 2. proof obligations -------------------------------------------------------------------------
    res = None
    if build_coq:
        res = vcheck.coq_build([PROP], timeout=1500)
        info["obligations"], info["discharged"] = len(res.obligations), len(res.discharged)
        info["print_assumptions_closed"] = bool(res.assumptions) and all(v == "closed" for v in res.assumptions.values())
        ctx.log("coq (constructors): %d/%d obligations discharged in %.0fs" % (len(res.discharged), len(res.obligations), res.wall_s))
        if not res.ok:
            for (f, ln, thm, msg) in res.failed[:4]:
                failures.append(("proof", {"file": f, "line": ln, "lemma": thm, "coq_error": msg}))
    info["coq"] = res

    # ---- 3. real code, reference, extracted generated constructors --------------------------------------
    exe = vcheck.cxx_build(os.path.join(vcheck.VERIF, "harness", "C28", "main.cpp"), os.path.join(ctx.work, "h_init", "main"),
                           hook=False, opt="-O1", extra=("-fno-access-control",))
    lines = gen_cases(ctx)
    sw = os.path.join(ctx.work, "init_sweep")
    shutil.rmtree(sw, ignore_errors=True)
    cxx, problems = _c28.run_cases(exe, lines, sw, "cxx", 300)
    for (part, prc, unfinished, tail) in problems:
        if unfinished:
            ctx.violation("a splitter constructor crashed or hung on this input (harness/C28/main.cpp)",
                          {"input": unfinished, "input_lines": [unfinished], "rc": prc, "output_tail": tail}, signature="init-crash:" + unfinished)
        else:
            failures.append(("harness", {"message": "harness part %d failed rc=%s: %s" % (part, prc, tail)}))
    hist, classes, bad, outside = collections.Counter(), set(), [], 0
    for case in lines:
        g = cxx.get(case)
        if g is None:
            continue
        fn = case.split()[0]
        hist[fn] += 1
        exp = reference(case)
        if exp is None:
            outside += 1
        elif g == exp:
            t = case.split()
            off = int(t[2], 16) if len(t) > 2 else -1
            classes.add((fn, min(off, 70) if off < 1 << 31 else off.bit_length() + 100))
        else:
            bad.append((case, exp, g))
    seen = set()
    for (case, exp, g) in bad:
        fam = case.split()[0]
        if fam in seen or len(seen) >= 3:
            continue
        seen.add(fam)
        ctx.violation("a splitter constructor does not build the initial state the C25 cut-sequence theorems start from (%s)" % fam,
                      {"input": case, "input_lines": [case], "expected": exp, "observed": g,
                       "expected_is": "independent reference: the members the initialiser list sets (pointers as byte offsets from the source object)",
                       "observed_is": "compiled code of $VERIF_REPO (harness/C28/main.cpp, -fno-access-control)"},
                      signature="init-ref:" + case)
    evaluations, ub, disagreements = 0, collections.Counter(), []
    mexe, merr = (None, "translation failed") if not os.path.exists(meta) else build_model(ctx.work)
    if mexe is None:
        failures.append(("model", {"message": merr}))
    else:
        mod, mproblems = _c28.run_cases(mexe, lines, sw, "model", 300)
        for (part, prc, unfinished, tail) in mproblems:
            failures.append(("model", {"message": "model driver part %d failed rc=%s at %s: %s" % (part, prc, unfinished, tail)}))
        for case in lines:
            g, m = cxx.get(case), mod.get(case)
            if g is None or m is None:
                continue
            evaluations += 1
            if m == "UB":
                ub[case.split()[0]] += 1
            elif m != g:
                disagreements.append((case, m, g))
    for (case, m, g) in disagreements[:1]:
        if not seen:           # the same deviation already reported against the reference
            ctx.violation("compiled C++ and the GENERATED constructor disagree for %s (the translator or CInt no longer matches the code)"
                          % case.split()[0],
                          {"input": case, "input_lines": [case], "expected": m, "observed": g, "expected_is": "extracted LV.Gen.Gen_split_ctor",
                           "observed_is": "compiled code of $VERIF_REPO"}, signature="init-diff:" + case)
    if failures and len(ctx.violations) == nviol0:
        for kind, det in failures[:3]:
            what = {"translator": "cxx2v can no longer translate the splitter constructors (unit split_ctor)",
                    "proof": "a theorem of Properties_C25_Gen (generated constructors = initial states of the C25 theorems) no longer checks",
                    "model": "the extracted constructors could not be built/run", "harness": "the constructor harness failed"}[kind]
            ctx.violation(what, dict(det, kind=kind, searched="compiled constructors vs the independent reference on %d cases: no mismatch" % len(cxx)),
                          no_input=True)
    info.update({"evaluations": len(cxx), "model_vs_cxx_evaluations": evaluations, "reference_mismatches": len(bad),
                 "model_disagreements": len(disagreements), "outside (undefined in C++)": outside,
                 "cxx_value_where_model_says_UB": dict(ub), "distinct_nontrivial": len(classes),
                 "rule": "distinct (constructor, bit offset (capped), or bit length of a truncating offset) among the cases on which the "
                         "compiled constructor agreed with the reference",
                 "per_function_inputs": dict(hist), "broken": [dict(d, kind=k) for k, d in failures[:6]]})
    ctx.coverage["splitter_constructors"] = {k: v for k, v in info.items() if k != "coq"}
    ctx.log("constructors: %d cases on the real code, %d compared with the generated model, %d classes, %d mismatches"
            % (len(cxx), evaluations, len(classes), len(bad) + len(disagreements)))
    return info


def run(ctx):
    info = run_init(ctx)
    if info["coq"] is not None:
        ctx.coq_evidence(info["coq"])
    ctx.coverage.update({"evaluations": info["evaluations"], "distinct_nontrivial": info["distinct_nontrivial"], "rule": info["rule"],
                         "samples": [], "seed": ctx.seed})
    return ctx.finish(vcheck.STD_TRUSTED + ["tools/cxx2v + coq/Base/CInt.v (cross-checked by the sweep above)",
                                            "ocaml/cxx2v_rt.ml, tools/cxx2v/gen_ocaml_dispatch.py, harness/C28/main.cpp (-fno-access-control)"],
                      ["NDEBUG; LP64 little endian; source objects of 1, 2, 4, 6, 8 bytes; the source object is the byte memory of the "
                       "generated code (its address is index 0)"])
