"""C03 — HP/DHP dispose every retired object exactly once (DESIGN 7, C03).

Obligations: coq/Properties/Properties_C03.v (HP half for every schedule, DHP sequential core + visible
statements).  Tie: the step correspondences of C01 (LV.Model.Hp vs cds::gc::HP) and C02 (LV.Model.Dhp vs
cds::gc::DHP) are re-run here on their own stream of generated programs x schedules (different seed stream
than C01/C02), and the deciding monitors are the per-object dispose counters of the two harnesses on the real
code: an object disposed twice, an object disposed that was never retired, an object not disposed exactly once
after destruction of the singleton."""
import os, json
import vcheck, conc_check
import C01, C02

HP_KEYS = ["double_dispose", "unretired_dispose", "not_exactly_once", "kept_unguarded"]


class Sub:
    """a view of the context with its own random stream (what C02.gen_cases needs)"""
    def __init__(self, ctx, rng):
        self.rng = rng
        self.work = ctx.work
        self.tier = ctx.tier
        self._ctx = ctx

    def thorough(self):
        return self._ctx.thorough()

    def log(self, *a):
        self._ctx.log(*a)


def corpus(pid):
    out = []
    cdir = os.path.join(vcheck.VERIF, "corpus", pid)
    for f in sorted(os.listdir(cdir)) if os.path.isdir(cdir) else []:
        if f.endswith(".json"):
            out.append(json.load(open(os.path.join(cdir, f))))
    return out


def run_hp(ctx, rng, cov):
    model = conc_check.build_model(ctx, "Extract_Hp.v", tag="hp_model")
    impl = vcheck.cxx_build(os.path.join(vcheck.VERIF, C01.HARNESS), os.path.join(ctx.work, "hp_harness"), hook=True)
    cases = corpus("C01") + corpus("C03")
    cases = [c for c in cases if "cfg" in c and "threads" in c and c.get("scheme", "hp") == "hp"]
    ncorpus = len(cases)
    cases += C01.gen_cases(rng, 4000 if ctx.thorough() else 900, start=300000)
    cases += C01.gen_phased_cases(ctx, model, rng, 200 if ctx.thorough() else 40, start=500000)
    rc1, mlog, rc2, ilog, raw = conc_check.run_both(ctx, model, impl, cases, tag="hp_cases", fuel=40000)
    C01.strip_ghost(mlog)
    diverged = 0; first_div = None; steps = 0; hits = {}; retired = 0; disposed = 0; exact = 0
    shapes = set(); nontrivial = set()
    for c in cases:
        m = mlog.get(c["id"]); i = ilog.get(c["id"])
        if m is None or i is None:
            diverged += 1
            first_div = first_div or (c, {"index": -1, "model": "<no output>" if m is None else "ok", "impl": "<no output>" if i is None else "ok"})
            continue
        steps += len(i["lines"])
        mon, first = C01.monitor_of(i)
        for k in HP_KEYS:
            if mon.get(k, 0) > 0 and k not in hits:
                hits[k] = (c, first, i["lines"])
        counts = [x for x in i["extra"] if x.startswith("monitor counts")]
        nret = mon.get("retired", 0)
        retired += nret
        if counts:
            cs = [int(t.split(":")[1]) for t in counts[0].split()[2:] if ":" in t]
            disposed += sum(cs)
            if nret > 0 and all(v == 1 for v in cs):
                exact += 1
        d = conc_check.compare(m, i)
        if d is not None:
            diverged += 1
            first_div = first_div or (c, d)
        st = C01.analyse(m["ghost"])
        h = hash(tuple(m["lines"]))
        shapes.add(h)
        if st["disposes"] > 0 and st["scans"] > 0:
            nontrivial.add(h)
    if first_div is not None and not hits and not ctx.replay:
        more = C01.gen_cases(rng, 5000, start=400000)
        rc, il2 = C01.run_impl(ctx, impl, more, "hp_search")
        for c2 in more:
            i2 = il2.get(c2["id"])
            if i2:
                mon, first = C01.monitor_of(i2)
                for k in HP_KEYS:
                    if mon.get(k, 0) > 0 and k not in hits:
                        hits[k] = (c2, first, i2["lines"])
    for k, (c, first, lines) in sorted(hits.items()):
        cmin = C01.minimise(ctx, impl, c, k)
        rc, il = C01.run_impl(ctx, impl, [cmin], "hp_minrun")
        lines = il.get(cmin["id"], {"lines": lines})["lines"]
        ctx.violation(C01.MON_WHAT[k], {"scheme": "HP", "case": cmin, "monitor": k, "detail": first, "impl_log": lines[-200:]})
    if first_div is not None and not hits:
        c, d = first_div
        ctx.violation("step correspondence between LV.Model.Hp and src/hp.cpp + cds/gc/hp.h no longer holds (C03 stream)",
                      {"correspondence": "coq/Model/Hp.v vs cds::gc::HP (harness/C01/main.cpp)", "case": c, "first_divergence": d}, no_input=True)
    cov["hp"] = {"cases": len(cases), "corpus_cases": ncorpus, "diverged": diverged, "impl_steps_compared": steps,
                 "objects_retired": retired, "dispose_calls": disposed, "cases_all_retired_objects_disposed_exactly_once": exact,
                 "distinct_event_logs": len(shapes), "distinct_with_scan_and_dispose": len(nontrivial),
                 "sample": cases[ncorpus] if len(cases) > ncorpus else None}
    return len(cases), len(nontrivial), len(cases) - diverged


def gen_detach_cases():
    """DHP: a thread detaches while exactly k blocks' worth (k x 256) of its retired objects are still guarded by
    another thread, with a following retired block present; the holder releases its guards after the detach and
    the singleton is destroyed: every object must have been disposed exactly once (the objects left in a detached
    record are the subject of the property's second sentence).  (retired, guarded) pairs at and around the block
    boundaries."""
    cases = []
    for i, (nret, keep) in enumerate([(256, 256), (511, 256), (512, 512), (512, 256), (768, 768), (257, 256), (255, 255), (300, 150)]):
        a = 1
        holder = [[1], [12, 0, a, a + keep - 1], [8, 0, 1], [15, 0, 2], [14, 0, keep], [2]]
        retirer = [[1], [15, 0, 1], [11, a, a + nret - 1], [2], [8, 0, 2]]
        cases.append({"id": "det%d" % i, "cfg": [4, C02.GB, C02.RB, 0, C02.FUEL, 2, 1], "threads": [holder, retirer], "sched": [], "kind": "detach-guarded"})
    return cases


def run_dhp(ctx, rng, cov):
    sub = Sub(ctx, rng)
    model = conc_check.build_model(ctx, "Extract_Dhp.v", tag="dhp_model")
    impl = vcheck.cxx_build(os.path.join(vcheck.VERIF, "harness/C02/main.cpp"), os.path.join(ctx.work, "dhp_harness"), hook=True, link_cds=True)
    mcmd = lambda cf: "%s %d < %s" % (model, C02.FUEL, cf)
    icmd = lambda cf: "%s %s" % (impl, cf)
    cases = [c for c in corpus("C02") if "cfg" in c and "threads" in c]
    ncorpus = len(cases)
    n, nbig = (1500, 50) if ctx.thorough() else (260, 12)
    gen = C02.gen_cases(sub, n, nbig)
    for c in gen:
        c["id"] = "x" + str(c["id"])
    cases += gen
    cases += gen_detach_cases()
    stats = {"feat": [], "steps": 0, "diverged": 0, "agree": 0}
    mlog, mdead = C02.run_exe_chunks(sub, mcmd, cases, "c3m")
    runnable = [c for c in cases if c["id"] in mlog and not any(l.endswith(" ev _oob") for l in mlog[c["id"]]["lines"][-2:])]
    ilog, idead = C02.run_exe_chunks(sub, icmd, runnable, "c3i")
    found = C02.evaluate(sub, runnable, mlog, ilog, stats)
    crashed = []
    for c, tail in idead[:20]:
        rc, l, out = C02.run_one(sub, icmd, c, "c3crash")
        if l is None or l["end"] is None:
            crashed.append((c, out[-600:]))
            break
        ilog[c["id"]] = l
        found += C02.evaluate(sub, [c], mlog, ilog, stats)
    kinds = {}
    for c, k, d in found:
        kinds.setdefault(k, []).append((c, d))
    concrete = False
    for k in ("double", "lost"):
        if k in kinds:
            c, d = min(kinds[k], key=lambda x: sum(len(t) for t in x[0]["threads"]))
            ctx.violation(C02.WHAT[k], {"scheme": "DHP", "case": C02.strip(c), "observed": d,
                                        "impl_monitor": [x for x in ilog[c["id"]]["extra"] if not x.startswith("monitor counts")][:14]})
            concrete = True
    if crashed:
        c, tail = crashed[0]
        ctx.violation(C02.WHAT["crash"], {"scheme": "DHP", "case": C02.strip(c), "output_tail": tail})
        concrete = True
    if "divergence" in kinds and not concrete:
        c, d = kinds["divergence"][0]
        ctx.violation("step correspondence between LV.Model.Dhp and cds::gc::dhp::smr no longer holds (C03 stream)",
                      {"correspondence": "Model/Dhp.v vs cds::gc::DHP", "case": C02.strip(c), "first_divergence": d}, no_input=True)
    hist = {}
    nontriv = set()
    for cid, kind, feats in stats["feat"]:
        for f in feats:
            hist[f] = hist.get(f, 0) + 1
        if feats & {"survivor", "disposed_by_other_thread", "ext_guard"}:
            nontriv.add(hash(tuple(mlog[cid]["lines"])))
    cov["dhp"] = {"cases": len(cases), "corpus_cases": ncorpus, "diverged": stats["diverged"], "impl_steps_compared": stats["steps"],
                  "feature_histogram": hist, "impl_crashes": len(crashed), "sample": C02.strip(cases[ncorpus]) if len(cases) > ncorpus else None}
    return len(cases), len(nontriv), stats["agree"]


def run(ctx):
    res = vcheck.coq_build(["Properties/Properties_C03.v"])
    ctx.coq_evidence(res)
    cov = {}
    n1, d1, a1 = run_hp(ctx, ctx.rng.fork(), cov)
    n2, d2, a2 = run_dhp(ctx, ctx.rng.fork(), cov)
    if not res.ok:
        ctx.violation("Coq obligations of C03 do not check: %s" % (res.failed[:2],), {"theorem": [f[2] for f in res.failed], "errors": res.failed[:3]}, no_input=True)
    ctx.coverage.update(cov)
    ctx.coverage.update({
        "evaluations": n1 + n2, "distinct_nontrivial": d1 + d2, "traces_validated_against_impl": a1 + a2,
        "rule": "program x schedule pairs on the real cds::gc::HP and cds::gc::DHP and the extracted models (own seed stream, plus the C01/C02 corpus incl. the regressions of the fixed defects 00fb101, 1cc4b4f, cf24f31); distinct = distinct model event logs; non-trivial = a scan ran and disposed something (HP) / a retired object survived a scan, was disposed by another thread or sat behind an extension-block guard (DHP)",
        "samples": [s for s in (cov["hp"].get("sample"), cov["dhp"].get("sample")) if s],
        "monitors": "per-object dispose counters of harness/C01 and harness/C02 on the real code: double dispose, dispose of a never-retired object, not exactly once after destruction",
    })
    return ctx.finish(vcheck.STD_TRUSTED + ["hook layer (instrumented atomics, baton scheduler, event log)", "ocaml/conc_main.ml", "checks/C01.py and checks/C02.py generators, log comparison and monitors"],
                      ["sequential consistency only", "DHP: at-most-once is proved for every schedule modulo flbad = false (C21); destroy-disposes-all and scan-frees-unguarded are proved for the sequential retired-array core, their interleaving forms are _statement definitions",
                       "HP: overflow events stand for the out-of-bounds write when R <= H*P or more than P threads attach (never generated)"])
