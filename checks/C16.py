"""C16 — lock-based hash containers (CuckooSet/Map, StripedSet/Map) are linearizable across concurrent resizes
(DESIGN 7, C16).

Three layers, all run on every invocation:
  1. Coq obligations of Properties_C16.v (theorems about every schedule of the policy / container models:
     StripedSet and CuckooSet with both policies; the cuckoo linearizability theorem is for
     traces in which resize() did not drop an item (C17), the no-duplicate theorem is unconditional; both hold for
     the striping and the refinable policy; for the refinable policy also the lock / ownership protocol: a thread
     that returned from acquire() holds cells of the current lock arrays, critical sections exclude each other and
     the resizer).
  2. Step correspondence: extracted models (Model/StripedConc.v, Model/CuckooConc.v) against the real intrusive
     StripedSet / CuckooSet under the deterministic scheduler, same programs and schedules, event logs compared
     line by line.
  3. Observable correspondence for every variant (modelled or not): the history of each run is decided by the
     verified extracted `lincheck` (SetSpec / MapSpec); an end-of-case monitor (contains / erase / erase again of
     every key by the main thread, item counter) is appended to the history and also checked directly
     (duplicate key, counter mismatch).
Directed family for the refinable cuckoo policy (every run): a thread is parked inside acquire() after the first
capacity test and before it takes its cells, another thread completes a resize (the lock arrays are replaced) and
is then stopped at every step of a critical section on the same key, then the first thread runs on: a pilot run
finds the step numbers.  This is the scenario of the seeded change C16a (acquire() without the capacity re-check).
The same for StripedSet/Map with the refinable policy (seeded change C16b: acquire() without the `m_arrLocks == pLocks`
re-check): a thread parked after it copied the lock-array pointer, a complete resize, the thread takes its (old) cell
and is parked before its bucket access, a second resize stopped at every step from the installation of the new bucket
table on, then the thread runs on (a third of the refinable variants per run in the quick tier, all in thorough).
One cuckoo case in four is 'crowded' (one table-1 probe set for all keys, two buckets, insert-heavy) so that
relocation faults, the relocation limit and resizes under contention are exercised.  A run that reaches the step
limit (seen only as a lock-step livelock of the round-robin tail of a schedule on the refinable policy's m_access /
m_Owner words) is counted and skipped.
"""
import os, json, hashlib, subprocess, threading
import vcheck, conc_check

_last_buckets = None
DROPPED = []     # cases in which the cuckoo model dropped an item in resize() (C17's sequential defect)

H = os.path.join(vcheck.VERIF, "harness", "C16")
NKEYS = 6
LOOP_FUEL = 40000      # fuel of the spin / retry loops of the models: larger than the step limit of a run
STEP_LIMIT = 30000     # harness/C16/c16.h run_case max_steps

# ------------------------------------------------------------------------------------------------------
# executables: name -> (source, group define, kind, list of variant numbers)
def _cuckoo_i_variants():
    return [ps * 8 + sh * 4 + pol * 2 + ord for ps in range(4) for sh in range(2) for pol in range(2) for ord in range(2)] + \
           [64 + ps * 8 + sh * 4 + pol * 2 + 1 for ps in (0, 2) for sh in range(2) for pol in range(2)]

EXES = {
    "cuckoo_i":   ("cuckoo_i.cpp", None, "cuckoo_iset", _cuckoo_i_variants()),
    "cuckoo_c0":  ("cuckoo_c.cpp", 0, "cuckoo_set", [ps * 8 + x for ps in range(3) for x in range(8)]),
    "cuckoo_c1":  ("cuckoo_c.cpp", 1, "cuckoo_map", [32 + ps * 8 + x for ps in range(3) for x in range(8)]),
    "striped_i0": ("striped_i.cpp", 0, "striped_iset", [ad * 4 + x for ad in range(0, 4) for x in range(4)]),
    "striped_i1": ("striped_i.cpp", 1, "striped_iset", [ad * 4 + x for ad in range(4, 8) for x in range(4)]),
    "striped_c0": ("striped_c.cpp", 0, "striped_set", [ad * 4 + x for ad in range(0, 4) for x in range(4)]),
    "striped_c1": ("striped_c.cpp", 1, "striped_set", [ad * 4 + x for ad in range(4, 8) for x in range(4)]),
    "striped_c2": ("striped_c.cpp", 2, "striped_set", [ad * 4 + x for ad in range(8, 11) for x in range(4)]),
    "striped_c3": ("striped_c.cpp", 3, "striped_map", [ad * 4 + x for ad in range(0, 4) for x in range(4)]),
    "striped_c4": ("striped_c.cpp", 4, "striped_map", [ad * 4 + x for ad in range(4, 8) for x in range(4)]),
}
# adapters of the container flavours that support *_with (list / vector like buckets)
WITH_SET = {0, 1, 4, 5, 6, 7}
WITH_MAP = {0, 3, 4}

CUCKOO_I_PS = ["list", "vector<2>", "vector<4>", "vector<3>"]
STRIPED_I_AD = ["bi::list", "bi::slist", "bi::set", "bi::avl_set", "bi::sg_set", "bi::splay_set", "bi::treap_set", "bi::unordered_set"]
STRIPED_SET_AD = ["std::list", "std::vector", "std::set", "std::unordered_set", "boost list", "boost slist", "boost vector",
                  "boost stable_vector", "boost set", "boost flat_set", "boost::unordered_set"]
STRIPED_MAP_AD = ["std::list", "std::map", "std::unordered_map", "boost list", "boost slist", "boost map", "boost flat_map", "boost::unordered_map"]


def variant_name(kind, v):
    if kind.startswith("cuckoo"):
        cmpv = v >= 64 and kind == "cuckoo_iset"
        w = v - 64 if cmpv else (v & 31)
        ord_, pol, sh, ps = w & 1, (w >> 1) & 1, (w >> 2) & 1, w >> 3
        return "%s probeset=%s store_hash=%d %s %s" % (
            {"cuckoo_iset": "intrusive::CuckooSet", "cuckoo_set": "container::CuckooSet", "cuckoo_map": "container::CuckooMap"}[kind],
            CUCKOO_I_PS[ps], sh, "refinable" if pol else "striping", "compare" if cmpv else ("less" if ord_ else "equal_to"))
    rp, pol, ad = v & 1, (v >> 1) & 1, v >> 2
    names = {"striped_iset": STRIPED_I_AD, "striped_set": STRIPED_SET_AD, "striped_map": STRIPED_MAP_AD}[kind]
    return "%s<%s> %s %s" % ({"striped_iset": "intrusive::StripedSet", "striped_set": "container::StripedSet", "striped_map": "container::StripedMap"}[kind],
                             names[ad], "refinable" if pol else "striping", "load_factor" if rp else "bucket_threshold")


def build_all(ctx):
    """Build every harness executable (in parallel) and the lincheck driver."""
    hdr = vcheck.file_hash([os.path.join(H, "c16.h")])
    out = {}
    errs = []

    def one(name):
        src, grp, _, _ = EXES[name]
        extra = ["-DC16_HDR_%s" % hdr]
        if grp is not None:
            extra.append("-DC16_GROUP=%d" % grp)
        try:
            out[name] = vcheck.cxx_build(os.path.join(H, src), os.path.join(ctx.work, "h", name), hook=True, link_cds=False, extra=tuple(extra))
        except vcheck.BuildError as e:
            errs.append(str(e))

    names = list(EXES)
    if os.environ.get("VERIF_ONLY") == "step" and not ctx.replay:
        # mutation experiments on the step-modelled code: only the executables the window templates use
        keep = set(t[2] for t in WINDOW_TEMPLATES)
        for n in names:
            if n not in keep:
                del EXES[n]
        names = list(EXES)
        ctx.coverage["restricted_run"] = "VERIF_ONLY=step"
    ths = [threading.Thread(target=one, args=(n,)) for n in names]
    for t in ths: t.start()
    for t in ths: t.join()
    if errs:
        raise vcheck.BuildError(errs[0])
    return out


def build_lincheck(ctx):
    d = os.path.join(ctx.work, "lin")
    os.makedirs(d, exist_ok=True)
    exe = os.path.join(d, "lincheck")
    srcs = [os.path.join(vcheck.COQ, "Extract", "Extract_Lin.v"), os.path.join(vcheck.VERIF, "ocaml", "lincheck_main.ml"),
            os.path.join(vcheck.COQ, "Base", "Lin.v"), os.path.join(vcheck.COQ, "Spec", "Specs.v")]
    key = vcheck.file_hash(srcs)
    if os.path.exists(exe) and os.path.exists(exe + ".key") and open(exe + ".key").read() == key:
        return exe
    vcheck.coq_makefile()
    rc, out = vcheck.sh(["make", "-j4", "Base/Lin.vo", "Spec/Specs.vo"], cwd=vcheck.COQ, timeout=600)
    if rc != 0:
        raise vcheck.BuildError("Lin/Specs do not build:\n" + out[-2000:])
    rc, out = vcheck.extract("Extract_Lin.v", d)
    if rc != 0:
        raise vcheck.BuildError("extraction of lincheck failed:\n" + out[-2000:])
    rc, out = vcheck.ocaml_build(d, ["lin.mli", "lin.ml", os.path.join(vcheck.VERIF, "ocaml", "lincheck_main.ml")], exe)
    if rc != 0:
        raise vcheck.BuildError("lincheck build failed:\n" + out[-2000:])
    open(exe + ".key", "w").write(key)
    return exe


# step-correspondence: extracted model -> executables whose event logs it must reproduce
MODELS = {
    "striped": ("Extract_StripedConc.v", ["striped_i0", "striped_i1", "striped_c0", "striped_c1", "striped_c2"],
                "LV.Model.StripedConc (+ StripingPolicy) vs cds::intrusive::StripedSet / container::StripedSet, striping and refinable policies"),
    "cuckoo": ("Extract_CuckooConc.v", ["cuckoo_i", "cuckoo_c0"],
               "LV.Model.CuckooConc vs cds::intrusive::CuckooSet / container::CuckooSet, striping and refinable policies"),
}


def model_of(name):
    for m, (_, names, _) in MODELS.items():
        if name in names:
            return m
    return None


def run_model(ctx, model_exe, cases, tag, timeout=900):
    cf = os.path.join(ctx.work, tag + ".txt")
    conc_check.write_cases(cf, cases)
    rc, out = vcheck.sh("%s %d < %s" % (model_exe, STEP_LIMIT, cf), timeout=timeout)
    return rc, conc_check.parse_logs(out)


def suffix_cases(c, d, ilog):
    """schedules sharing the prefix of case c up to its first divergence d, followed by 'thread x runs n steps, then
    thread y runs m steps, then round robin'"""
    if ilog is None or d.get("index", -1) < 0:
        return []
    nth = len(c["threads"])
    steps = sum(1 for l in ilog["lines"][:d["index"]] if l.split(" ")[1] != "ev")
    pre = [(c["sched"][i] if i < len(c["sched"]) else i % nth) for i in range(steps)]
    out = []
    for back in (0, 3):
        p = pre[:max(0, len(pre) - back)]
        for x in range(nth):
            for y in range(nth):
                if x == y:
                    continue
                for n in list(range(0, 30)) + list(range(30, 200, 7)):
                    for m in (2, 5, 12):
                        cc = dict(c)
                        cc["id"] = "%s_sx%d_%d_%d_%d_%d" % (c["id"], back, x, y, n, m)
                        cc["sched"] = p + [x] * n + [y] * m + [x] * 40 + [y] * 40
                        out.append(cc)
    return out


def race_cases(c, d, ilog):
    """the operation that was running where the logs diverged, raced against itself / insert / erase / contains of
    the same key by a second thread: A = [insert k; op], B = [op'], schedules A^a B^b A^40 B^40 for a grid of a, b"""
    if ilog is None or d.get("index", -1) < 0:
        return []
    line = d["impl"] if d["impl"] and d["impl"][0].isdigit() else d["model"]
    try:
        tid = int(line.split(" ")[0])
    except ValueError:
        return []
    nops = sum(1 for l in ilog["lines"][:d["index"]] if l.startswith("%d ev inv" % tid))
    ops = c["threads"][tid] if tid < len(c["threads"]) else []
    if not ops:
        return []
    op = ops[max(0, min(nops - 1, len(ops) - 1))]
    k = op[1]
    out = []
    variants = [op, [1, k, 77, 1], [5, k, 0, 0], [8, k, 0, 0]]
    for vi, opb in enumerate(variants):
        for setup in (0, 1):
            ta = ([[1, k, 70, 1]] if setup else []) + [op]
            for a in range(0, 110, 1):
                for b in list(range(0, 24, 1)) + [30, 45]:
                    cc = dict(c)
                    cc["id"] = "%s_rc%d_%d_%d_%d" % (c["id"], vi, setup, a, b)
                    cc["threads"] = [ta, [opb]]
                    cc["sched"] = [0] * a + [1] * b + [0] * 40 + [1] * 40
                    out.append(cc)
    return out


def correspond(cases, mlogs, ilogs):
    """-> (number compared, number agreeing, impl steps compared, first divergence (case, d) or None)"""
    n = ok = steps = 0; first = None
    for c in cases:
        m = mlogs.get(c["id"]); i = ilogs.get(c["id"])
        if m is None or i is None or i["end"] is None:
            continue
        n += 1
        if any(" ev dropped " in l for l in m["lines"]):
            # ghost marker of the cuckoo model: resize() fell through without re-inserting an item (property C17)
            DROPPED.append(c["id"])
            m = dict(m); m["lines"] = [l for l in m["lines"] if " ev dropped " not in l]
        d = conc_check.compare(m, i)
        if d is None:
            ok += 1; steps += len(i["lines"])
        elif first is None:
            first = (c, d)
    return n, ok, steps, first


# ------------------------------------------------------------------------------------------------------
# generators
def ops_for(kind, v):
    """operation codes available for a variant"""
    base = [1, 2, 3, 5, 6, 7, 8]
    if kind in ("cuckoo_iset", "striped_iset"):
        return base + [4, 10, 11, 12, 13]
    if kind in ("cuckoo_set", "cuckoo_map"):
        return base + [9, 10, 11, 12, 13] + ([14] if kind == "cuckoo_map" else [])
    ad = v >> 2
    w = (ad in WITH_SET) if kind == "striped_set" else (ad in WITH_MAP)
    return base + [9] + ([10, 11, 12, 13] if w else []) + ([14] if kind == "striped_map" else [])


def gen_sched(rng, nthreads, approx_len):
    kind = rng.below(5)
    if kind == 4:      # long stalls: x runs a steps, y runs b steps alone (e.g. a whole resize), x continues, ...
        s = []
        x = rng.below(nthreads)
        for _ in range(2 + rng.below(4)):
            s += [x] * rng.below(60)
            y = (x + 1 + rng.below(nthreads - 1)) % nthreads
            s += [y] * rng.below(220)
            s += [x] * rng.below(12)
            x = y
        return s
    if kind == 0:      # uniform
        return [rng.below(nthreads) for _ in range(approx_len // 2 + rng.below(approx_len))]
    if kind == 1:      # bursts: a thread stalls inside its critical section while another one runs
        s = []
        for _ in range(2 + rng.below(10)):
            s += [rng.below(nthreads)] * (1 + rng.below(25))
        return s
    if kind == 2:      # run one thread to a point, then the others
        first = rng.below(nthreads)
        return [first] * (3 + rng.below(60)) + [rng.below(nthreads) for _ in range(approx_len)]
    # PCT-like: priorities with a few change points
    s = []
    prio = list(range(nthreads))
    for _ in range(1 + rng.below(4)):
        i = rng.below(nthreads); j = rng.below(nthreads); prio[i], prio[j] = prio[j], prio[i]
        s += [prio[0]] * (5 + rng.below(40))
    return s


def gen_program(rng, kind, v, nthreads, maxops):
    codes = ops_for(kind, v)
    ins = [1, 2, 3, 9] if 9 in codes else [1, 2, 3]
    threads = []
    nk = 3 + rng.below(NKEYS - 2)   # keys 0..nk-1: few keys so that operations collide
    for t in range(nthreads):
        ops = []
        for i in range(1 + rng.below(maxops)):
            c = rng.choice(ins) if rng.chance(1, 2) else rng.choice(codes)
            k = rng.below(nk)
            a = 10 * (t + 1) + i + 1        # the value written by this operation (maps)
            b = 1 if rng.chance(3, 4) else 0
            ops.append([c, k, a, b])
        threads.append(ops)
    return threads


def gen_cfg(rng, kind, v):
    if kind.startswith("cuckoo"):
        w = v - 64 if v >= 64 and kind == "cuckoo_iset" else (v & 31)
        ps_sel = w >> 3
        cap = rng.choice([2, 2, 4])
        if ps_sel == 0:
            ps = rng.choice([2, 2, 3, 4])
        else:
            ps = {1: 2, 2: 4, 3: 3}[ps_sel]
        th = 1 + rng.below(ps - 1)              # 1 <= threshold < probe-set size
        # h1 spreads the keys (at most two keys per bucket of table 0 once the capacity is >= 4), so the sequential
        # drop of CuckooSet::resize() (property C17) cannot happen: table 0 always has room for a re-inserted element
        h1 = rng.choice([0, 1, 2])
        h2 = rng.choice([0, 1, 2, 3, 4, 6])
        return [v, cap, ps, th, h1, h2, NKEYS, LOOP_FUEL]
    rp = v & 1
    th = rng.choice([1, 1, 2])
    hm = rng.choice([5, 5, 6, 0, 7]) if rp == 0 else rng.choice([0, 5, 6, 1])
    return [v, 16, 0, th, hm, 0, NKEYS, LOOP_FUEL]


def gen_crowded(rng, kind, v, nthreads):
    """cuckoo: every key has the same table-1 probe set and the tables start with two buckets, the threads mostly
    insert distinct keys: relocation rounds that end in 'all probe sets are full', the relocation limit and
    resizes under contention.  Table 0 still spreads the keys (no C17 drop)."""
    cfg = gen_cfg(rng, kind, v)
    cfg[1] = 2
    cfg[3] = 1
    cfg[5] = rng.choice([5, 6, 7])
    codes = ops_for(kind, v)
    ins = [1, 2, 3, 9] if 9 in codes else [1, 2, 3]
    keys = list(range(NKEYS))
    for i in range(len(keys) - 1, 0, -1):
        j = rng.below(i + 1)
        keys[i], keys[j] = keys[j], keys[i]
    threads = [[] for _ in range(nthreads)]
    for i, k in enumerate(keys):
        t = i % nthreads
        threads[t].append([rng.choice(ins), k, 10 * (t + 1) + len(threads[t]) + 1, 1])
    for t in range(nthreads):
        if rng.chance(1, 2):
            threads[t].insert(1 + rng.below(len(threads[t])), [rng.choice(codes), rng.below(NKEYS), 10 * (t + 1) + 9, 1])
    return cfg, threads


def is_refinable_cuckoo(kind, v):
    if not kind.startswith("cuckoo"):
        return False
    w = v - 64 if v >= 64 and kind == "cuckoo_iset" else (v & 31)
    return (w >> 1) & 1 == 1


PARK_STEPS = 6      # begin, m_access.exchange, m_nCapacity.load, m_access.store, m_Owner.load, m_nCapacity.load


def parked_programs(rng, name, every):
    """refinable CuckooSet/Map: thread 0 starts an insert of key 1 and is parked inside acquire() after the first
    capacity test, before it takes its cell locks; thread 1 inserts 0, 2, 4 (two buckets, threshold 1, one table-1
    probe set for all keys: the third insert ends in a resize that replaces the lock arrays) and then operates on
    key 1 as well.  -> list of (pilot case, program)"""
    src, grp, kind, variants = EXES[name]
    out = []
    for i, v in enumerate([v for v in variants if is_refinable_cuckoo(kind, v)]):
        if every > 1 and rng.below(every) != 0:
            continue
        codes = ops_for(kind, v)
        ins = [1, 2, 3, 9] if 9 in codes else [1, 2, 3]
        cfg = gen_cfg(rng, kind, v)
        cfg[1] = 2; cfg[3] = 1; cfg[4] = 0; cfg[5] = 6
        threads = [[[rng.choice(ins), 1, 11, 1]],
                   [[1, 0, 21, 1], [1, 2, 22, 1], [1, 4, 23, 1], [rng.choice(ins + [5]), 1, 24, 1]]]
        out.append({"id": "%s_park%d" % (name, i), "cfg": cfg, "threads": threads,
                    "sched": [0] * PARK_STEPS + [1] * 1500, "exe": name})
    return out


def parked_cases(pilots, logs):
    """from the pilot logs: thread 1 is stopped at every step of the critical section of its last operation, then
    thread 0 runs on (with the cell locks it chose before the resize, unless acquire() notices), then thread 1"""
    out = []
    for p in pilots:
        lg = logs.get(p["id"])
        if lg is None or lg["end"] != "finished":
            continue
        t0 = [l for l in lg["lines"] if l.startswith("0 ") and " ev " not in l]
        if len(t0) < PARK_STEPS or t0[2].split(" ")[1:3] != t0[5].split(" ")[1:3] or t0[2].split(" ")[1] != "ld":
            continue                       # not the expected shape of acquire(): no directed case for this variant
        inv = [i for i, l in enumerate(lg["lines"]) if l.startswith("1 ev inv")]
        if len(inv) != len(p["threads"][1]):
            continue
        m0 = sum(1 for l in lg["lines"][:inv[-1]] if l.startswith("1 ") and " ev " not in l)
        for d in range(4, 22):
            c = dict(p)
            c["id"] = "%s_%d" % (p["id"], d)
            c["sched"] = [0] * PARK_STEPS + [1] * (m0 + d) + [0] * 160 + [1] * 60
            out.append(c)
    return out


STRIPED_PARK_STEPS = 4   # begin, m_Owner.load, m_access.exchange (the lock-array pointer is copied), m_access.store


def parked_striped_programs(rng, name, every):
    """refinable StripedSet/Map: thread 1 inserts key 0; thread 0 starts an operation on key 0 and is parked inside
    acquire() after it copied the lock-array pointer, before it locks its cell; thread 1 inserts 2 (the resize that
    replaces the lock array completes); thread 0 locks its cell and passes the re-check (or not) and is parked again
    before it touches its bucket; thread 1 inserts 4: a second resize, stopped after the new (still empty) bucket
    table is installed and after each item it moves; then thread 0 runs on.  -> pilot cases (thread 1 alone first)"""
    src, grp, kind, variants = EXES[name]
    out = []
    if not kind.startswith("striped"):
        return out
    for i, v in enumerate([v for v in variants if (v >> 1) & 1 == 1]):
        if every > 1 and rng.below(every) != 0:
            continue
        cfg = [v, 16, 0, 1, 5, 0, NKEYS, LOOP_FUEL]
        threads = [[[rng.choice([8, 8, 1]), 0, 11, 1]],
                   [[1, 0, 21, 1], [1, 2, 22, 1], [1, 4, 23, 1], [8, 0, 24, 1]]]
        out.append({"id": "%s_spark%d" % (name, i), "cfg": cfg, "threads": threads, "sched": [1] * 2500, "exe": name})
    return out


def _is_mask_store(line):
    t = line.split(" ")
    if len(t) < 6 or t[1] != "st" or not t[-1].startswith("i"):
        return False
    try:
        v = int(t[-1][1:])
    except ValueError:
        return False
    return v >= 31 and (v + 1) & v == 0


def parked_striped_cases(pilots, logs):
    out = []
    for p in pilots:
        lg = logs.get(p["id"])
        if lg is None or lg["end"] != "finished":
            continue
        steps = 0; rets = []; mask_st = []
        for l in lg["lines"]:
            if not l.startswith("1 "):
                continue
            if " ev " in l:
                if l.startswith("1 ev ret"):
                    rets.append(steps)
                continue
            steps += 1
            if _is_mask_store(l):
                mask_st.append(steps)
        if len(rets) < 3 or len(mask_st) < 2 or not (rets[1] < mask_st[1] <= rets[2]):
            continue                        # not the expected shape (no second resize in the third insert)
        s0, s1, s2 = rets[0], rets[1], mask_st[1]
        for d in range(0, min(rets[2] - s2, 12) + 1):
            c = dict(p)
            c["id"] = "%s_%d" % (p["id"], d)
            c["sched"] = [1] * s0 + [0] * STRIPED_PARK_STEPS + [1] * (s1 - s0) + [0] * 4 + [1] * (s2 - s1 + d) + [0] * 200 + [1] * 400
            out.append(c)
    return out


# ------------------------------------------------------------------------------------------------------
# model-guided window schedules (lib/conc_windows2.py) for the step-modelled executables.  "Writes" of these containers are
# the exchanges / CAS on lock cells, m_access, m_Owner: the victim is stalled right before each of them (and before every
# other access: the capacity / lock-array loads of acquire()), the actor runs exactly through one of its own (measured on the
# model in that state: lock taken, resize started, new lock array / bucket table installed) or through its whole program
# (e.g. a complete resize), the victim gets r more steps, a third thread runs before / after / in between; the same again from
# states in which a participant is parked right after one of its writes (inside a critical section, in the middle of a resize;
# StripedSet only, like the stall points before accesses that are not writes: the probe runs of the cuckoo model for them take
# minutes; an actor stopped after its k-th write, k up to 28, already is a thread parked inside its critical section / its
# resize while the victim runs, and a victim stalled before a lock acquisition is stalled after the capacity / lock-array loads).
#   (name, model, executable, variant, cfg tail [capacity, probe set, threshold, h1 mode, h2 mode], set-up, programs)
#   striped variants: bit 0 resizing policy (load_factor / bucket_threshold), bit 1 refinable; cuckoo: bit 1 refinable
WINDOW_TEMPLATES = [
    ("st_resize_vs_ops", "striped", "striped_i0", 0, [16, 0, 1, 5, 0], [[1, 0, 11, 1]], [[[1, 1, 21, 1]], [[1, 2, 31, 1]], [[5, 0, 0, 0]]]),
    ("st_resize_vs_ops_refinable", "striped", "striped_i0", 2, [16, 0, 1, 5, 0], [[1, 0, 11, 1]], [[[1, 1, 21, 1]], [[1, 2, 31, 1]], [[5, 0, 0, 0]]]),
    ("st_same_key", "striped", "striped_c0", 2, [16, 0, 1, 0, 0], [[1, 0, 11, 1]], [[[5, 0, 0, 0]], [[1, 0, 31, 1]], [[8, 0, 0, 0]]]),
    ("st_two_resizers", "striped", "striped_c0", 3, [16, 0, 2, 5, 0], [[1, 0, 11, 1], [1, 1, 12, 1]], [[[1, 2, 21, 1]], [[5, 1, 0, 0]], [[3, 3, 41, 1]]]),
    ("st_pairs", "striped", "striped_i0", 2, [16, 0, 1, 6, 0], [], [[[1, 0, 11, 1], [5, 0, 0, 0]], [[1, 4, 21, 1], [5, 4, 0, 0]]]),
    ("ck_relocate_vs_ops", "cuckoo", "cuckoo_i", 0, [2, 2, 1, 0, 5], [[1, 0, 11, 1]], [[[1, 2, 21, 1]], [[1, 4, 31, 1]], [[5, 0, 0, 0]]]),
    ("ck_relocate_vs_ops_refinable", "cuckoo", "cuckoo_i", 2, [2, 2, 1, 0, 5], [[1, 0, 11, 1]], [[[1, 2, 21, 1]], [[1, 4, 31, 1]], [[5, 0, 0, 0]]]),
    ("ck_same_key", "cuckoo", "cuckoo_c0", 2, [4, 2, 1, 0, 0], [[1, 1, 11, 1]], [[[5, 1, 0, 0]], [[1, 1, 31, 1]], [[8, 1, 0, 0]]]),
    ("ck_resize", "cuckoo", "cuckoo_c0", 2, [2, 2, 1, 0, 6], [[1, 0, 11, 1], [1, 2, 12, 1]], [[[1, 4, 21, 1]], [[5, 2, 0, 0]], [[3, 1, 41, 1]]]),
    ("ck_pairs", "cuckoo", "cuckoo_i", 2, [2, 2, 1, 0, 5], [], [[[1, 0, 11, 1], [5, 0, 0, 0]], [[1, 2, 21, 1], [5, 2, 0, 0]]]),
    # two threads that both have to resize: keys 0, 1, 4, 5 share bucket 0 of table 0 (h1 = k >> 1, two buckets) and every key shares
    # bucket 0 of table 1 (h2 = 16 k); at most two keys per bucket of table 0 once the capacity is 4 (no C17 drop)
    ("ck_two_resizers", "cuckoo", "cuckoo_i", 0, [2, 2, 1, 3, 5], [[1, 0, 11, 1], [1, 1, 12, 1]], [[[1, 4, 21, 1]], [[1, 5, 31, 1]], [[5, 0, 0, 0]]]),
    ("ck_two_resizers_refinable", "cuckoo", "cuckoo_c0", 2, [2, 2, 1, 3, 5], [[1, 0, 11, 1], [1, 1, 12, 1]], [[[1, 4, 21, 1]], [[1, 5, 31, 1]], [[8, 1, 0, 0]]]),
    ("st_two_inserters_resize", "striped", "striped_i0", 2, [16, 0, 1, 5, 0], [[1, 0, 11, 1]], [[[1, 1, 21, 1]], [[1, 2, 31, 1]], [[8, 0, 0, 0]]]),
]
WINDOW_QUICK_PER_MODEL = 300
WINDOW_QUICK_CANDIDATES = 4000
WINDOW_THOROUGH_PER_MODEL = 12000


def gen_window_cases(ctx, models, rng):
    """-> ({executable: cases}, generator info per model)"""
    import conc_windows2
    out = {}
    infos = {}
    th = ctx.thorough()
    for m in sorted(models):
        templates = []
        for name, mod, exe, v, tail, setup, parts in WINDOW_TEMPLATES:
            if mod == m:
                templates.append({"name": name, "cfg": [v] + tail + [NKEYS, LOOP_FUEL], "threads": [setup] + parts, "setup": 1, "exe": exe})
        wdir = os.path.join(ctx.work, "wprobe_" + m)
        cases, info = conc_windows2.expand(models[m], wdir, templates, "w%s_" % m[:2], fuel=STEP_LIMIT,
                                           r_values=(0, 1, 2, 3, 5, 8, 12, 20) if th else (0, 1, 3, 8), read_points=(m == "striped"),
                                           max_wv=12, max_wa=28, staged=(m == "striped"), max_ws=8 if th else 4, staged_max_wa=10 if th else 6,
                                           staged_r_values=(0, 1, 2, 4, 8) if th else (0, 3), lazy=True, spin_cap=30, big=220)
        info["enumerated"] = len(cases)
        if th:
            cases = conc_windows2.stratified(rng, cases, WINDOW_THOROUGH_PER_MODEL)
        else:
            cases = conc_windows2.stratified(rng, cases, WINDOW_QUICK_CANDIDATES)
            paths = conc_windows2.model_paths(models[m], wdir, cases, "w" + m[:2], fuel=STEP_LIMIT)
            cases, info["selection"] = conc_windows2.select_by_cover(rng, cases, paths, WINDOW_QUICK_PER_MODEL)
        cases = conc_windows2.finalize(cases)
        exe_of = {t["name"]: t["exe"] for t in templates}
        for c in cases:
            c["exe"] = exe_of[c["tpl"]]
            out.setdefault(c["exe"], []).append(c)
        info["run"] = len(cases)
        info.pop("per_template", None)
        infos[m] = info
    return out, infos


def gen_cases(rng, name, n, tag):
    src, grp, kind, variants = EXES[name]
    cases = []
    for i in range(n):
        v = variants[i % len(variants)] if i < len(variants) * 2 else rng.choice(variants)
        nthreads = 2 if rng.chance(2, 3) else 3
        if kind.startswith("cuckoo") and i % 4 == 3:
            cfg, threads = gen_crowded(rng, kind, v, nthreads)
            cases.append({"id": "%s_%s%d" % (name, tag, i), "cfg": cfg, "threads": threads,
                          "sched": gen_sched(rng, nthreads, 160), "exe": name})
            continue
        threads = gen_program(rng, kind, v, nthreads, 4 if nthreads == 2 else 3)
        cases.append({"id": "%s_%s%d" % (name, tag, i), "cfg": gen_cfg(rng, kind, v), "threads": threads,
                      "sched": gen_sched(rng, nthreads, 120), "exe": name})
    return cases


# ------------------------------------------------------------------------------------------------------
# histories
def b(x):
    return "true" if int(x) else "false"


def history_of(kind, lines, finals, nthreads):
    """-> (lincheck text lines, list of protocol errors)"""
    is_map = kind.endswith("map")
    out = []; errs = []
    pending = {}
    for l in lines:
        t = l.split(" ")
        if len(t) < 3 or t[1] != "ev":
            continue
        tid = t[0]
        if t[2] == "inv":
            c, k, a, bb = int(t[3]), int(t[4]), int(t[5]), int(t[6])
            pending[tid] = (c, k, a, bb)
            if c == 4:
                continue        # unlink: emitted at the response (a failed unlink is not a set operation, see below)
            if c in (1, 2, 9):
                out.append("inv %s insert %d%s" % (tid, k, (" %d" % a) if is_map else ""))
            elif c == 14:
                out.append("inv %s insert %d 0" % (tid, k))
            elif c == 3:
                out.append("inv %s update %d%s %s" % (tid, k, (" %d" % a) if is_map else "", b(bb)))
            elif c in (5, 6, 10, 13):
                out.append("inv %s erase %d" % (tid, k))
            elif c in (7, 11):
                out.append("inv %s %s %d" % (tid, "find" if is_map else "contains", k))
            elif c in (8, 12):
                out.append("inv %s contains %d" % (tid, k))
            else:
                errs.append(("unknown op code", str(c)))
        elif t[2] == "ret":
            c, r1, r2 = int(t[3]), int(t[4]), int(t[5])
            inv = pending.pop(tid, None)
            if inv is None or inv[0] != c:
                errs.append(("response without invocation", l)); continue
            k = inv[1]
            if c == 4:
                # unlink(item) succeeds iff the item stored under the key is the caller's own: a success is an erase;
                # a failure says nothing about the key (absent, or present through another thread's item)
                if r1:
                    out.append("inv %s erase %d" % (tid, k)); out.append("res %s true" % tid)
                continue
            if c in (1, 9, 14, 5, 10, 8, 12):
                out.append("res %s %s" % (tid, b(r1)))
            elif c in (2, 6, 13):
                out.append("res %s %s" % (tid, b(r1)))
                if r2 != (1 if r1 else 0):
                    errs.append(("functor call count does not match the result of the operation", "called %d times by op %d returning %d" % (r2, c, r1)))
            elif c == 3:
                if r2 >= 50:
                    errs.append(("update functor protocol broken", "code %d" % r2)); r2 = 0
                out.append("res %s pair %s %s" % (tid, b(r1), b(r2)))
            elif c in (7, 11):
                if is_map:
                    out.append("res %s %s" % (tid, ("some %d" % r2) if r1 else "none"))
                else:
                    out.append("res %s %s" % (tid, b(r1)))
                    if r1 and r2 != k:
                        errs.append(("find passed an item with another key to the functor", "find(%d) -> key %d" % (k, r2)))
    # the monitor: main thread, after every worker has returned
    m = str(nthreads)
    for (k, f, e1, e2, val) in finals:
        if is_map:
            out.append("inv %s find %d" % (m, k)); out.append("res %s %s" % (m, ("some %d" % val) if f else "none"))
        else:
            out.append("inv %s contains %d" % (m, k)); out.append("res %s %s" % (m, b(f)))
        out.append("inv %s erase %d" % (m, k)); out.append("res %s %s" % (m, b(e1)))
        out.append("inv %s erase %d" % (m, k)); out.append("res %s %s" % (m, b(e2)))
    return out, errs


def parse_finals(extra):
    finals = []; size = None; size_after = None; dup = None
    global _last_buckets
    _last_buckets = None
    for x in extra:
        t = x.split()
        if t[:2] == ["final", "key"]:
            finals.append(tuple(int(y) for y in t[2:7]))
        elif t[:2] == ["final", "size"]:
            size = int(t[2])
        elif t[:2] == ["final", "size_after"]:
            size_after = int(t[2])
        elif t[:2] == ["final", "dup"]:
            dup = int(t[2])
        elif t[:2] == ["final", "buckets"]:
            _last_buckets = int(t[2])
    return finals, size, size_after, dup


def run_impl(ctx, exe, cases, tag, timeout=150):
    cf = os.path.join(ctx.work, tag + ".txt")
    conc_check.write_cases(cf, cases)
    rc, out = vcheck.sh([exe, cf], timeout=timeout)
    return rc, conc_check.parse_logs(out)


def lincheck_many(lin, spec, hists, ctx, tag):
    """hists: list of lists of lines -> list of verdict strings"""
    if not hists:
        return []
    f = os.path.join(ctx.work, "lin_%s.txt" % tag)
    with open(f, "w") as fh:
        for h in hists:
            fh.write("\n".join(h) + "\n---\n")
    rc, out = vcheck.sh("%s %s < %s" % (lin, spec, f), timeout=900)
    return [l.strip() for l in out.split("\n") if l.strip()]


def judge(ctx, kind, name, cases, logs, lin, stats, tag):
    """Observable layer: monitors + lincheck.  Returns number of violations reported."""
    hists = []; idx = []
    nviol = 0
    for c in cases:
        lg = logs.get(c["id"])
        vname = variant_name(kind, c["cfg"][0])
        st = stats.setdefault(vname, {"cases": 0, "lin_ok": 0, "fuel": 0, "resizes_seen": 0, "ops": 0})
        if lg is None or lg["end"] is None:
            ctx.violation("C16 harness produced no output for a case (crash or hang of the real container)",
                          {"case": c, "variant": vname}, signature=None)
            nviol += 1
            continue
        st["cases"] += 1
        if lg["end"] != "finished":
            st["fuel"] += 1
            continue
        finals, size, size_after, dup = parse_finals(lg["extra"])
        if _last_buckets is not None and _last_buckets > (16 if kind.startswith("striped") else (2 if c["cfg"][1] <= 2 else 4)):
            st["resizes_seen"] += 1
        nth = len(c["threads"])
        h, errs = history_of(kind, lg["lines"], finals, nth)
        st["ops"] += sum(len(t) for t in c["threads"])
        problems = list(errs)
        if dup:
            problems.append(("a key is present twice (the monitor erased the same key two times in a row)", "%d keys" % dup))
        if size is not None and size != sum(1 for f in finals if f[2]):
            problems.append(("item counter differs from the number of keys the monitor could erase", "counter %d, erased %d" % (size, sum(1 for f in finals if f[2]))))
        if size_after not in (None, 0):
            problems.append(("item counter is not zero after every key was erased", "counter %d" % size_after))
        for f in finals:
            if f[1] != f[2]:
                problems.append(("monitor: contains(k) and the following erase(k) disagree", "k=%d contains=%d erase=%d" % (f[0], f[1], f[2])))
        if problems:
            nviol += 1
            ctx.violation("C16 monitor on the real container: " + problems[0][0],
                          {"case": c, "variant": vname, "problems": problems, "history": h, "finals": finals, "size": size},
                          signature="C16-monitor-" + vname)
        hists.append(h); idx.append(c)
    spec = "map" if kind.endswith("map") else "set"
    verdicts = lincheck_many(lin, spec, hists, ctx, tag)
    if len(verdicts) != len(hists):
        ctx.violation("lincheck driver returned %d verdicts for %d histories" % (len(verdicts), len(hists)), {"exe": name}, no_input=True)
        return nviol + 1
    for c, h, v in zip(idx, hists, verdicts):
        vname = variant_name(kind, c["cfg"][0])
        if v == "OK":
            stats[vname]["lin_ok"] += 1
        else:
            nviol += 1
            ctx.violation("history of the real container is not linearizable to a sequential %s (verified lincheck verdict %s)" % (spec, v),
                          {"case": c, "variant": vname, "history": h, "verdict": v}, signature="C16-notlin-" + vname)
    return nviol


# ------------------------------------------------------------------------------------------------------
def run(ctx):
    res = vcheck.coq_build(["Properties/Properties_C16.v"])
    ctx.coq_evidence(res)
    ctx.log("coq obligations: ok=%s (%.1fs)" % (res.ok, res.wall_s))
    exes = build_all(ctx)
    lin = build_lincheck(ctx)
    models = {m: conc_check.build_model(ctx, MODELS[m][0], tag="model_" + m) for m in MODELS}
    ctx.log("harnesses, models and lincheck built")
    stats = {}
    total = 0; nviol = 0

    if ctx.replay:
        r = json.load(open(ctx.replay))
        c = r.get("case")
        if c and c.get("exe") in exes:
            kind = EXES[c["exe"]][2]
            rc, logs = run_impl(ctx, exes[c["exe"]], [c], "replay")
            nviol += judge(ctx, kind, c["exe"], [c], logs, lin, stats, "replay")
            ctx.coverage.update({"evaluations": 1, "distinct_nontrivial": 1, "rule": "replay of one case", "samples": [c], "per_variant": stats})
            return ctx.finish(vcheck.STD_TRUSTED)

    per_exe = 700 if ctx.thorough() else 130
    corpus = []
    cdir = os.path.join(vcheck.VERIF, "corpus", "C16")
    for f in sorted(os.listdir(cdir)) if os.path.isdir(cdir) else []:
        if f.endswith(".json"):
            corpus.append(json.load(open(os.path.join(cdir, f))))
    allcases = {}
    for name in sorted(EXES):
        cs = [c for c in corpus if c.get("exe") == name] + gen_cases(ctx.rng.fork(), name, per_exe, "g")
        allcases[name] = cs
    # directed family for the refinable cuckoo policy: a thread parked inside acquire() across a complete resize
    parked = {}
    prng = ctx.rng.fork()
    for name in sorted(EXES):
        pilots = parked_programs(prng, name, 1 if ctx.thorough() else 3)
        if pilots:
            rc, plogs = run_impl(ctx, exes[name], pilots, "pilot_" + name)
            parked[name] = parked_cases(pilots, plogs)
            allcases[name] = allcases[name] + parked[name]
        spilots = parked_striped_programs(prng, name, 1 if ctx.thorough() else 3)
        if spilots:
            rc, plogs = run_impl(ctx, exes[name], spilots, "spilot_" + name)
            parked[name] = parked_striped_cases(spilots, plogs)
            allcases[name] = allcases[name] + parked[name]
    # model-guided window schedules for the step-modelled executables
    wcases, winfo = gen_window_cases(ctx, models, ctx.rng.fork())
    for name, cs in wcases.items():
        allcases[name] = allcases[name] + cs
    results = {}

    mresults = {}

    def runner(name):
        results[name] = run_impl(ctx, exes[name], allcases[name], "cases_" + name)
        m = model_of(name)
        if m:
            mresults[name] = run_model(ctx, models[m], allcases[name], "mcases_" + name)

    ths = [threading.Thread(target=runner, args=(n,)) for n in sorted(EXES)]
    for t in ths: t.start()
    for t in ths: t.join()
    ctx.log("implementation runs done")
    shapes = set(); nontrivial = set()
    for name in sorted(EXES):
        kind = EXES[name][2]
        rc, logs = results[name]
        nviol += judge(ctx, kind, name, allcases[name], logs, lin, stats, name)
        total += len(allcases[name])
        for c in allcases[name]:
            lg = logs.get(c["id"])
            if lg:
                hsh = hashlib.sha256("\n".join(conc_check.norm_impl_line(x) for x in lg["lines"]).encode()).hexdigest()[:16]
                shapes.add(hsh)
                # non-trivial: a lock acquisition failed at least once (a thread met a held lock) or a resize ran
                if any((" cas " in x or " xchg " in x) and x.split(" ")[3] == "0" for x in lg["lines"]) or any(" xchg " in x and x.split(" ")[4:5] == ["i1"] for x in lg["lines"]):
                    nontrivial.add(hsh)

    # step correspondence
    corr = {}
    for name in sorted(mresults):
        m = model_of(name)
        n, ok, steps, first = correspond(allcases[name], mresults[name][1], results[name][1])
        cs = corr.setdefault(m, {"compared": 0, "agree": 0, "impl_steps_compared": 0})
        cs["compared"] += n; cs["agree"] += ok; cs["impl_steps_compared"] += steps
        wl = [c for c in allcases[name] if c.get("kind") == "window"]
        if wl:
            import conc_windows2
            ws = conc_windows2.event_stats(wl, results[name][1])
            wn = wok = 0
            for c in wl:
                mm = mresults[name][1].get(c["id"]); ii = results[name][1].get(c["id"])
                if mm is None or ii is None or ii["end"] is None:
                    continue
                wn += 1
                mm = dict(mm); mm["lines"] = [l for l in mm["lines"] if " ev dropped " not in l]
                wok += 1 if conc_check.compare(mm, ii) is None else 0
            agg = cs.setdefault("window_schedules", {"window_cases": 0, "with_failed_cas": 0, "with_retry_path": 0, "with_longer_path": 0, "failed_cas_events": 0,
                                                     "with_failed_cas_or_retry": 0, "diverged": 0, "templates": {}, "generator": winfo.get(m),
                                                     "rule": "victim stalled before each exchange / CAS (lock cells, m_access, m_Owner) and before every other access, actor runs exactly through one of "
                                                             "its writes (measured on the model in that state) or its whole program (e.g. a complete resize), victim gets r more steps, third thread "
                                                             "before / after / in between; also from states with a participant parked right after one of its writes; failed CAS here = a lock "
                                                             "acquisition that met a held lock; with_retry_path = a thread executed more exchanges / CAS than in its solo run (spinning, re-acquire after a resize)"})
            for k in ("window_cases", "with_failed_cas", "with_retry_path", "with_longer_path", "failed_cas_events", "with_failed_cas_or_retry"):
                agg[k] += ws[k]
            agg["diverged"] += wn - wok
            agg["templates"].update(ws["templates"])
        if first is not None and nviol == 0:
            c, d = first
            # the correspondence broke: search for a concrete failure of the property on the real code.
            # (1) directed: the operation running at the first divergence raced against itself / insert / erase /
            #     contains of the same key, over a grid of two-phase schedules;
            # (2) directed: keep the program and the schedule up to the first divergence (the window the changed code
            #     opened), then let one thread run n steps, another one m steps, for many n, m;
            # (3) more seeds.
            more = race_cases(c, d, results[name][1].get(c["id"])) + suffix_cases(c, d, results[name][1].get(c["id"])) + \
                   gen_cases(ctx.rng.fork(), name, 4 * per_exe, "s")
            rc, lg2 = run_impl(ctx, exes[name], more, "search_" + name)
            found = judge(ctx, EXES[name][2], name, more, lg2, lin, {}, "search_" + name)
            if not found:
                ctx.violation("step correspondence between %s no longer holds" % MODELS[m][2],
                              {"correspondence": MODELS[m][2], "case": c, "variant": variant_name(EXES[name][2], c["cfg"][0]), "first_divergence": d},
                              no_input=True)
            nviol += 1

    if not res.ok:
        ctx.violation("Coq obligations of C16 do not check: %s" % (res.failed[:2],), {"theorem": [f[2] for f in res.failed], "errors": res.failed[:3]}, no_input=True)

    ctx.coverage.update({
        "evaluations": total, "distinct_nontrivial": len(nontrivial),
        "rule": "program x schedule pairs per container variant (2-3 threads, 1-4 operations each over keys 0..5, uniform / bursty / run-then-switch / priority schedules from one splitmix64 stream); distinct = distinct event logs of the real code; non-trivial = some lock acquisition met a held lock (failed CAS / exchange that read 'locked')",
        "distinct_event_logs": len(shapes), "corpus_cases": len(corpus),
        "variants": len(stats), "per_variant": stats,
        "histories_decided_by_verified_lincheck": sum(s["lin_ok"] for s in stats.values()),
        "cases_with_a_resize": sum(s["resizes_seen"] for s in stats.values()),
        "cases_hitting_the_step_limit": sum(s["fuel"] for s in stats.values()),
        "samples": [allcases["cuckoo_i"][0], allcases["striped_i0"][0]],
        "step_correspondence": corr,
        "cases_with_the_C17_sequential_drop": len(DROPPED),
        "directed_cases_thread_parked_in_refinable_acquire_across_a_resize": sum(len(v) for v in parked.values()),
        "of_which_striped": sum(len(v) for k, v in parked.items() if k.startswith("striped")),
        "traces_validated_against_impl": sum(v["agree"] for v in corr.values()),
    })
    return ctx.finish(vcheck.STD_TRUSTED + ["hook layer: khizmax_libcds_verif::atomic<T>, baton scheduler, event log (hooks/include)",
                                            "ocaml/lincheck_main.ml and ocaml/conc_main.ml (parsing / printing)"],
                      ["sequential consistency: memory_order arguments are not modelled",
                       "every lock is a spinning one (cds::sync::spin_lock / reentrant_spin_lock with backoff::empty): std::mutex variants are not run",
                       "hash functors spread the keys so that the sequential element drop of CuckooSet::resize() (property C17) cannot occur"])
