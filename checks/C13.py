"""C13 — ordered lists (MichaelList, LazyList, IterableList) are linearizable sets / maps, no key twice (DESIGN 7, C13).

(A) observable correspondence for every variant instantiated by harness/C13/main.cpp (intrusive, cds::container
    set-like, key-value; HP, DHP, RCU general_instant / general_buffered, nogc; less / compare; item counter on/off):
    2-3 threads x 1-4 operations over keys 0..3 on the REAL containers under the deterministic scheduler; the
    invoke/response history is decided by the verified extracted `lincheck` (SetSpec / MapSpec); a quiescent
    monitor iterates the real list after the run (keys strictly increasing, contents appended to the history as
    reads of a final observer thread, size() = number of items when a counter is configured); functor contract
    (called exactly once iff the operation succeeded, with the new-item flag, inside the call) by counting `fn` events.
(B) step correspondence of LV.Model.MichaelList with cds::intrusive::MichaelList<gc::HP> (every atomic access,
    same programs and schedules), see run_step().
(C) Coq obligations: Properties/Properties_C13.v.
"""
import os, json, re, collections, concurrent.futures
import vcheck, conc_check, conc_windows2

HARNESS = os.path.join(vcheck.VERIF, "harness", "C13", "main.cpp")
SHARDS = [0, 1, 2, 3, 4, 5, 6, 10, 11, 12, 13, 14, 15, 16, 20, 21, 22, 23, 24, 25, 26]
OPN = {1: "insert", 2: "insert_f", 3: "update", 4: "erase", 5: "erase_f", 6: "unlink", 7: "extract", 8: "get", 9: "contains", 10: "find_f", 11: "emplace"}


def variant_ops(vid):
    layer, kind, smr = vid // 100, (vid % 100) // 20, (vid % 20) // 4
    if smr == 4:    # nogc: insert-only operation set
        return {0: [1, 3, 9, 10], 1: [1, 3, 9, 11], 2: [1, 2, 3, 9, 11]}[layer]
    return {0: [1, 2, 3, 4, 5, 6, 7, 8, 9, 10], 1: [1, 2, 3, 4, 5, 7, 8, 9, 10, 11], 2: [1, 2, 3, 4, 5, 7, 8, 9, 10, 11]}[layer]


def gen_sched(rng, nthreads, scale=1):
    kind = rng.below(4)
    if kind == 0:      # uniform
        return [rng.below(nthreads) for _ in range((20 + rng.below(150)) * scale)]
    if kind == 1:      # bursty: long runs, few switches
        s = []
        for _ in range(2 + rng.below(8)):
            s += [rng.below(nthreads)] * (1 + rng.below(40 * scale))
        return s
    if kind == 2:      # run one thread to a point, then another one to completion-ish, then mix
        first = rng.below(nthreads)
        return [first] * (3 + rng.below(60 * scale)) + [(first + 1) % nthreads] * (5 + rng.below(80 * scale)) + [rng.below(nthreads) for _ in range(40)]
    # fine-grained alternation with occasional stalls
    s = []
    for _ in range(10 + rng.below(60 * scale)):
        t = rng.below(nthreads)
        s += [t] * (1 + rng.below(3))
    return s


def gen_program(rng, vid, nthreads):
    ops = variant_ops(vid)
    layer, kind = vid // 100, (vid % 100) // 20
    nkeys = 1 + rng.below(4)           # 1..4 keys: small so that operations collide
    threads = []
    for t in range(nthreads):
        prog = []
        for _ in range(1 + rng.below(4)):
            code = rng.choice(ops)
            k = rng.below(nkeys)
            x = v = 0
            if code == 3:
                x = 1 if rng.chance(2, 3) else 0
                if layer == 2 and kind == 2 and rng.chance(1, 2):
                    x |= 2          # iterable kv-list: upsert(k, v)
                v = 1 + rng.below(3)
            if layer == 2 and code in (1, 11):
                v = rng.below(3)
            prog.append([code, k, x, v])
        threads.append(prog)
    return threads


def gen_cases(ctx, rng, vid, n, tag, mode=0):
    cases = []
    for i in range(n):
        nthreads = 2 + (1 if rng.chance(1, 3) else 0)
        threads = gen_program(rng, vid, nthreads)
        # seed some content first: thread 0 often starts with inserts so that erases / finds have something to hit
        if rng.chance(1, 2):
            threads[0] = [[1, rng.below(4), 0, 0]] + threads[0][:3]
        cases.append({"id": "%s_%d_%d" % (tag, vid, i), "cfg": [vid, mode, 20000], "threads": threads, "sched": gen_sched(rng, nthreads)})
    return cases


# --------------------------------------------------------------------------------------------------
def build_lincheck(ctx):
    """the verified checker: extraction of LV.Base.Lin + LV.Spec.Specs behind ocaml/lincheck_main.ml"""
    d = os.path.join(ctx.work, "lin")
    os.makedirs(d, exist_ok=True)
    srcs = [os.path.join(vcheck.COQ, p) for p in ("Base/Lin.v", "Spec/Specs.v", "Extract/Extract_Lin.v")] + [os.path.join(vcheck.VERIF, "ocaml", "lincheck_main.ml")]
    key = vcheck.file_hash(srcs)
    exe = os.path.join(d, "lincheck"); stamp = exe + ".key"
    if os.path.exists(exe) and os.path.exists(stamp) and open(stamp).read() == key:
        return exe
    vcheck.coq_makefile()
    rc, out = vcheck.sh(["make", "-j%d" % vcheck.NCPU, "Base/Lin.vo", "Spec/Specs.vo"], cwd=vcheck.COQ, timeout=900)
    if rc != 0:
        raise vcheck.BuildError("Lin/Specs do not build:\n" + out[-3000:])
    rc, out = vcheck.extract("Extract_Lin.v", d)
    if rc != 0:
        raise vcheck.BuildError("extraction of lincheck failed:\n" + out[-3000:])
    rc, out = vcheck.ocaml_build(d, ["lin.mli", "lin.ml", os.path.join(vcheck.VERIF, "ocaml", "lincheck_main.ml")], exe)
    if rc != 0:
        raise vcheck.BuildError("lincheck ocaml build failed:\n" + out[-3000:])
    open(stamp, "w").write(key)
    return exe


def lincheck_batch(ctx, lin, spec, hists, tag):
    if not hists:
        return []
    f = os.path.join(ctx.work, tag + ".hist")
    with open(f, "w") as fh:
        for h in hists:
            fh.write("\n".join(h) + "\n---\n")
    rc, out = vcheck.sh("%s %s < %s" % (lin, spec, f), timeout=1200)
    v = [x for x in out.split("\n") if x.strip()]
    if len(v) < len(hists):
        v += ["ERROR missing verdict (rc=%d)" % rc] * (len(hists) - len(v))
    return v[:len(hists)]


def build_shards(ctx, shards):
    """compile the harness shards in parallel (each is cached by content hash of everything it can see).
    The hooked libcds.a is copied into this check's own work directory first: the shared cache under _work/libcds
    is pruned by concurrently running checks."""
    import shutil, time
    sub = "h" if vcheck.REPO == "/repo" else "h_" + vcheck.hashlib.sha256(vcheck.REPO.encode()).hexdigest()[:8]
    d = os.path.join(ctx.work, sub)
    os.makedirs(d, exist_ok=True)
    mylib = None
    for attempt in range(4):
        try:
            lib = vcheck.libcds(True)
            mylib = os.path.join(d, "libcds_" + os.path.basename(os.path.dirname(lib)) + ".a")
            if not os.path.exists(mylib):
                shutil.copy(lib, mylib + ".tmp"); os.replace(mylib + ".tmp", mylib)
            break
        except (OSError, vcheck.BuildError) as e:
            if attempt == 3:
                raise vcheck.BuildError("libcds (hook on) cannot be built/copied: %s" % e)
            time.sleep(2)
    for f in os.listdir(d):         # older copies
        if f.startswith("libcds_") and os.path.join(d, f) != mylib:
            try: os.remove(os.path.join(d, f))
            except OSError: pass
    ctx.c13_lib = mylib; ctx.c13_dir = d
    exes = {}
    def one(s):
        return s, vcheck.cxx_build([HARNESS, mylib], os.path.join(d, "shard%d" % s), hook=True, extra=("-DC13_SHARD=%d" % s,), link_cds=False, timeout=1500)
    with concurrent.futures.ThreadPoolExecutor(max_workers=min(len(shards), vcheck.NCPU)) as ex:
        for s, e in ex.map(one, shards):
            exes[s] = e
    return exes


def shard_variants(exe):
    rc, out = vcheck.sh([exe], timeout=60)
    res = []
    for l in out.split("\n"):
        t = l.split()
        if len(t) == 2 and t[0].isdigit():
            res.append((int(t[0]), t[1]))
    return res


def run_shard(ctx, exe, cases, tag):
    cf = os.path.join(ctx.work, tag + ".txt")
    conc_check.write_cases(cf, cases)
    rc, out = vcheck.sh([exe, cf], timeout=900 if ctx.thorough() else 300)
    return rc, conc_check.parse_logs(out), out


# --------------------------------------------------------------------------------------------------
def analyse_case(c, log):
    """real-code event log of one case -> dict(history lines, problems, stats)
    history: lincheck text (inv/res), functor contract, monitor lines"""
    vid = c["cfg"][0]
    layer, kind, smr = vid // 100, (vid % 100) // 20, (vid % 20) // 4
    is_map = layer == 2
    problems = []
    hist = []            # entries: ["inv", tid, optext] / ["res", tid, restext]; inv entries patched when sp arrives
    pend = {}            # tid -> dict(op, idx, fn)
    opcount = collections.Counter()
    modified = False
    for l in log["lines"]:
        t = l.split(" ")
        if len(t) < 3 or t[1] != "ev":
            continue
        tid, name, args = t[0], t[2], t[3:]
        if name == "inv":
            pend[tid] = {"op": [int(a) for a in args], "idx": len(hist), "fn": [], "sp": None}
            hist.append(["inv", tid, None])
        elif name == "fn":
            if tid in pend:
                pend[tid]["fn"].append([int(a) for a in args])
            else:
                problems.append("functor called outside an operation: " + l)
        elif name == "sp":
            if tid in pend:
                pend[tid]["sp"] = " ".join(args)
        elif name == "ret":
            p = pend.pop(tid, None)
            if p is None:
                problems.append("response without invocation: " + l)
                continue
            a, b = int(args[0]), int(args[1])
            code, k, x = p["op"][0], p["op"][1], p["op"][2]
            opcount["%s:%d" % (OPN.get(code, "?"), a)] += 1
            # functor contract
            expect = None
            if code in (2, 5, 10):
                expect = [[code, 1, k]] if a else []
            elif code == 3:
                nofn = smr == 4 and layer in (1, 2)              # container nogc update has no functor
                nofn = nofn or (layer == 2 and kind == 2 and (x & 2))     # iterable kv upsert
                expect = [] if nofn else ([[3, b, k]] if a else [])
            else:
                expect = []
            if p["fn"] != expect:
                problems.append("functor contract: %s key %d returned (%d,%d) but functor calls were %s (expected %s)" % (OPN.get(code), k, a, b, p["fn"], expect))
            sp = p["sp"]
            if sp is None:
                problems.append("no spec record for " + l)
                continue
            if sp == "skip":
                hist[p["idx"]] = None
                continue
            optext, restext = sp.split(" = ")
            if (restext == "true" and optext.split()[0] in ("insert", "erase")) or restext == "pair true true":
                modified = True
            hist[p["idx"]][2] = optext
            hist.append(["res", tid, restext])
    # non-trivial: two operations overlap in real time and at least one operation modified the container
    open_ops = 0; overlap = False
    for h in hist:
        if h is None:
            continue
        if h[0] == "inv":
            overlap = overlap or open_ops > 0
            open_ops += 1
        else:
            open_ops -= 1
    pending = len(pend)
    for p in pend.values():     # only when the step limit was hit
        hist[p["idx"]] = None
    lines = ["%s %s %s" % (h[0], h[1], h[2]) for h in hist if h is not None]
    keys = vals = None; size = -1
    for xl in log["extra"]:
        t = xl.split()
        if t[:2] == ["mon", "keys"]:
            keys = [int(v) for v in t[2:]]
        elif t[:2] == ["mon", "vals"]:
            vals = [int(v) for v in t[2:]]
        elif t[:2] == ["mon", "size"]:
            size = int(t[2])
        elif t[:2] == ["mon", "bad"]:
            problems.append("harness check: " + " ".join(t[2:]))
    finished = log["end"] == "finished"
    if finished and keys is not None:
        if any(keys[i] >= keys[i + 1] for i in range(len(keys) - 1)):
            problems.append("quiescent traversal of the real list is not strictly increasing (a key is present twice or out of order): %s" % keys)
        if size >= 0 and size != len(keys):
            problems.append("size() = %d but the quiescent list holds %d items %s" % (size, len(keys), keys))
        # the final contents become reads of an observer thread that starts after everything returned
        obs = 90
        for k in range(4):
            if is_map:
                lines.append("inv %d find %d" % (obs, k))
                lines.append("res %d %s" % (obs, ("some %d" % vals[keys.index(k)]) if k in keys and vals is not None else "none"))
            else:
                lines.append("inv %d contains %d" % (obs, k))
                lines.append("res %d %s" % (obs, "true" if k in keys else "false"))
    return {"lines": lines, "problems": problems, "ops": opcount, "finished": finished, "pending": pending, "keys": keys, "nontrivial": overlap and modified}


def observable(ctx, exes, variants, lin, cases_by_shard, tag, stats, report=True):
    """run the cases, decide the histories, report violations; returns number of bad cases"""
    nbad = 0
    with concurrent.futures.ThreadPoolExecutor(max_workers=min(len(cases_by_shard), vcheck.NCPU) or 1) as ex:
        futs = {s: ex.submit(run_shard, ctx, exes[s], cs, "%s_s%d" % (tag, s)) for s, cs in cases_by_shard.items() if cs}
        results = {s: f.result() for s, f in futs.items()}
    for s, (rc, logs, raw) in sorted(results.items()):
        nbad += observable_logs(ctx, variants, lin, cases_by_shard[s], logs, rc, raw, "%s_s%d" % (tag, s), stats, report)
    return nbad


def observable_logs(ctx, variants, lin, cs, logs, rc, raw, tag, stats, report=True):
    nbad = 0
    if True:
        an = []
        for c in cs:
            lg = logs.get(c["id"])
            if lg is None or lg["end"] not in ("finished", "fuel"):
                an.append(None)
                continue
            an.append(analyse_case(c, lg))
        for spec in ("set", "map"):
            idx = [i for i, c in enumerate(cs) if an[i] is not None and (c["cfg"][0] // 100 == 2) == (spec == "map")]
            verdicts = lincheck_batch(ctx, lin, spec, [an[i]["lines"] for i in idx], "%s_%s" % (tag, spec))
            for i, v in zip(idx, verdicts):
                an[i]["verdict"] = v
        for c, a in zip(cs, an):
            vid = c["cfg"][0]
            st = stats.setdefault(vid, {"name": variants.get(vid, "?"), "cases": 0, "ops": collections.Counter(), "verdicts": collections.Counter(), "overrun": 0, "nonempty_final": 0, "histories": set(), "nontrivial": set()})
            st["cases"] += 1
            if a is None:
                nbad += 1
                if report:
                    ctx.violation("the harness produced no output for a case on %s (crash or hang of the real container, rc=%s)" % (variants.get(vid, vid), rc),
                                  {"case": c, "output_tail": raw[-1500:]}, signature=None)
                continue
            st["ops"].update(a["ops"]); st["verdicts"][a["verdict"]] += 1
            st["histories"].add(hash(tuple(a["lines"])))
            if a["nontrivial"]:
                st["nontrivial"].add(hash(tuple(a["lines"])))
            if a["keys"]:
                st["nonempty_final"] += 1
            what = None
            if not a["finished"]:
                st["overrun"] += 1
                what = "operations on %s do not terminate within 20000 scheduled steps (round-robin tail)" % variants.get(vid, vid)
            elif a["verdict"] != "OK":
                what = "history on %s is not linearizable to the sequential %s (verified lincheck: %s)" % (variants.get(vid, vid), "map" if vid // 100 == 2 else "set", a["verdict"])
            elif a["problems"]:
                what = "%s: %s" % (variants.get(vid, vid), a["problems"][0])
            if what:
                nbad += 1
                if report:
                    ctx.violation(what, {"case": c, "variant": variants.get(vid), "history": a["lines"], "problems": a["problems"], "verdict": a.get("verdict"), "final_keys": a["keys"]}, signature=None)
    return nbad


# --------------------------------------------------------------------------------------------------
# (B) step correspondence: LV.Model.MichaelList vs cds::intrusive::MichaelList<gc::HP> (variants 0 and 3)
STEP_VARIANTS = [0, 3]
STEP_MODELS = [
    {"name": "michael", "extract": "Extract_MichaelList.v", "variants": [0, 3], "shard": 0,
     "what": "LV.Model.MichaelList and cds/intrusive/impl/michael_list.h (MichaelList<gc::HP>)"},
    {"name": "lazy", "extract": "Extract_LazyList.v", "variants": [20, 23], "shard": 3,
     "what": "LV.Model.LazyList and cds/intrusive/impl/lazy_list.h (LazyList<gc::HP>)"},
    {"name": "iterable", "extract": "Extract_IterList.v", "variants": [40, 43], "shard": 6,
     "what": "LV.Model.IterList and cds/intrusive/impl/iterable_list.h (IterableList<gc::HP>)"},
]


def gen_step_cases(ctx, rng, n, tag, variants=(0, 3)):
    """programs aimed at the case splits of the proofs + random ones; keys 0..3, 2-3 threads x <= 4 ops"""
    cases = []
    erasers = [4, 5, 6, 7]
    readers = [8, 9, 10]
    inserters = [1, 2, 3]
    for i in range(n):
        vid = variants[i % len(variants)]
        kind = rng.below(5)
        a = rng.below(3); b = a + 1 + rng.below(3 - a)      # a < b
        def ins(k):
            c = rng.choice(inserters)
            return [c, k, 1 if c == 3 else 0, 0]
        if kind == 0:        # insert racing with the erase of its predecessor
            threads = [[ins(a), [rng.choice(erasers), a, 0, 0]], [ins(b)] + ([[rng.choice(readers), b, 0, 0]] if rng.chance(1, 2) else [])]
        elif kind == 1:      # two erases of the same key (mark CAS race)
            threads = [[ins(a), [rng.choice(erasers), a, 0, 0]], [[rng.choice(erasers), a, 0, 0]] + ([ins(a)] if rng.chance(1, 2) else [])]
            if rng.chance(1, 3):
                threads.append([[rng.choice(erasers), a, 0, 0]])
        elif kind == 2:      # a search that meets a marked node and helps to unlink it
            threads = [[ins(a), ins(b), [rng.choice(erasers), a, 0, 0]], [[rng.choice(readers + inserters), b, 1, 0], [rng.choice(readers), a, 0, 0]]]
        elif kind == 3:      # update of an existing key racing with its erase, two inserts of the same key
            threads = [[ins(a), [3, a, rng.below(2), 0], [rng.choice(erasers), a, 0, 0]], [ins(a), [3, a, 1, 0]]]
        else:
            nthreads = 2 + (1 if rng.chance(1, 3) else 0)
            threads = gen_program(rng, vid, nthreads)
        nthreads = len(threads)
        sk = rng.below(3)
        if sk == 0:          # run one thread to a chosen step, then the other, alternate in long segments
            sched = []
            for _ in range(2 + rng.below(7)):
                sched += [rng.below(nthreads)] * (1 + rng.below(30))
        elif sk == 1:
            sched = [rng.below(nthreads) for _ in range(30 + rng.below(200))]
        else:                # first operation(s) of thread 0 complete, then fine-grained interleaving
            sched = [0] * (10 + rng.below(25))
            for _ in range(20 + rng.below(60)):
                sched += [rng.below(nthreads)] * (1 + rng.below(4))
        cases.append({"id": "%s_%d" % (tag, i), "cfg": [vid, 1, 20000], "threads": threads, "sched": sched})
    return cases


# --------------------------------------------------------------------------------------------------
# model-guided window schedules (lib/conc_windows2.py) for the three step models: a set-up thread fills the list, then the
# participants collide on the same key / the same predecessor; the victim is stalled right before each of its CAS / lock
# acquisitions (and, load-load windows, before every other access), the actor runs exactly through one of its own writes
# (positions measured on the extracted model in that very state) or through its whole program, the victim gets r more
# steps, a third thread runs before / after / in between.
#   (name, set-up operations of thread 0, programs of the participants)
WINDOW_TEMPLATES = [
    ("ins_ins_same", [[1, 0, 0, 0]], [[[1, 1, 0, 0]], [[2, 1, 0, 0]], [[9, 1, 0, 0]]]),
    ("ins_ins_adjacent", [[1, 0, 0, 0], [1, 3, 0, 0]], [[[1, 1, 0, 0]], [[1, 2, 0, 0]], [[3, 1, 1, 0]]]),
    ("ins_vs_erase_pred", [[1, 0, 0, 0], [1, 2, 0, 0]], [[[4, 0, 0, 0]], [[1, 1, 0, 0]], [[10, 0, 0, 0]]]),
    ("erase_erase_ins", [[1, 1, 0, 0]], [[[4, 1, 0, 0]], [[7, 1, 0, 0]], [[1, 1, 0, 0]]]),
    ("help_unlink", [[1, 0, 0, 0], [1, 1, 0, 0], [1, 2, 0, 0]], [[[4, 1, 0, 0]], [[9, 2, 0, 0]], [[5, 0, 0, 0]]]),
    ("update_vs_erase", [[1, 1, 0, 0]], [[[3, 1, 1, 0]], [[4, 1, 0, 0]], [[3, 1, 0, 0]]]),
    ("erase_then_ins", [[1, 1, 0, 0], [1, 2, 0, 0]], [[[4, 1, 0, 0], [1, 1, 0, 0]], [[4, 2, 0, 0]], [[8, 1, 0, 0]]]),
    ("ins_then_erase", [[1, 2, 0, 0]], [[[1, 1, 0, 0], [4, 1, 0, 0]], [[4, 2, 0, 0], [1, 2, 0, 0]]]),
    ("neighbours", [[1, 1, 0, 0], [1, 2, 0, 0]], [[[5, 1, 0, 0]], [[5, 2, 0, 0]], [[1, 0, 0, 0]]]),
    ("unlink_own", [[1, 3, 0, 0]], [[[1, 1, 0, 0], [6, 1, 0, 0]], [[4, 1, 0, 0]], [[2, 1, 0, 0]]]),
]
# IterableList: nodes whose data pointer is null are re-used by link_data (the set-up leaves such nodes behind)
WINDOW_TEMPLATES_ITER = [
    ("it_empty_pred", [[1, 1, 0, 0], [1, 3, 0, 0], [4, 1, 0, 0]], [[[1, 0, 0, 0]], [[1, 2, 0, 0]], [[1, 1, 0, 0]]]),
    ("it_empty_two", [[1, 0, 0, 0], [1, 3, 0, 0], [1, 1, 0, 0], [4, 1, 0, 0], [4, 0, 0, 0]], [[[1, 0, 0, 0]], [[1, 1, 0, 0], [4, 1, 0, 0]], [[1, 2, 0, 0]]]),
    ("it_reuse_race", [[1, 2, 0, 0], [4, 2, 0, 0]], [[[1, 1, 0, 0]], [[1, 3, 0, 0]], [[4, 1, 0, 0]]]),
    ("it_fill_and_empty", [[1, 1, 0, 0], [1, 3, 0, 0], [4, 1, 0, 0]], [[[1, 2, 0, 0]], [[1, 1, 0, 0], [4, 1, 0, 0]], [[3, 0, 1, 0]]]),
]
WINDOW_QUICK_PER_MODEL = 420
WINDOW_QUICK_CANDIDATES = 3000          # candidates run on the model, of which WINDOW_QUICK_PER_MODEL are selected for the real code
WINDOW_THOROUGH_PER_MODEL = 12000        # beyond that: stratified subsample of the enumeration


def gen_window_cases(ctx, spec, model, rng):
    """-> (cases, generator info).  thorough: the full enumeration for both variants of the model; quick: one seed-chosen
    variant, reduced r sweep, a stratified seed-chosen subsample of WINDOW_QUICK_PER_MODEL schedules"""
    tpls = WINDOW_TEMPLATES + (WINDOW_TEMPLATES_ITER if spec["name"] == "iterable" else [])
    vids = list(spec["variants"])
    if not ctx.thorough():
        vids = [vids[(ctx.seed + len(spec["name"])) % len(vids)]]
    templates = []
    for vid in vids:
        for name, setup, parts in tpls:
            templates.append({"name": "%s/%d" % (name, vid), "cfg": [vid, 1, 20000], "threads": [setup] + parts, "setup": 1})
    th = ctx.thorough()
    cases, info = conc_windows2.expand(model, os.path.join(ctx.work, "wprobe_" + spec["name"]), templates, "w%s_" % spec["name"][:2],
                                       r_values=tuple(range(0, 13)) if th else (0, 1, 2, 3, 5, 8, 12), read_points=True,
                                       staged=True, max_ws=4 if th else 2, staged_max_wa=4 if th else 3,
                                       staged_r_values=(0, 1, 2, 3, 5, 8) if th else (0, 1, 3, 6), lazy=True)
    info["enumerated"] = len(cases)
    if th:
        cases = conc_windows2.stratified(rng, cases, WINDOW_THOROUGH_PER_MODEL)
    else:
        # model-guided selection: every distinct path a thread takes in some candidate is covered by a schedule that is run
        cases = conc_windows2.stratified(rng, cases, WINDOW_QUICK_CANDIDATES)
        paths = conc_windows2.model_paths(model, os.path.join(ctx.work, "wprobe_" + spec["name"]), cases, "w" + spec["name"][:2])
        cases, info["selection"] = conc_windows2.select_by_cover(rng, cases, paths, WINDOW_QUICK_PER_MODEL)
    cases = conc_windows2.finalize(cases)
    info["run"] = len(cases)
    return cases, info


def strip_sp(log):
    return {"lines": [l for l in log["lines"] if " ev sp " not in l], "end": log["end"], "extra": log["extra"]}


def exec_step(ctx, exes, spec, model, cases):
    """model and real code on the same cases, concurrently"""
    name = spec["name"]
    cf = os.path.join(ctx.work, "step_%s.txt" % name)
    conc_check.write_cases(cf, cases)
    def impl():
        if len(cases) <= 4000:
            return run_shard(ctx, exes[spec["shard"]], cases, "step_impl_" + name)
        # thorough tier with the full window enumeration: several harness processes side by side
        nproc = max(2, min(vcheck.NCPU // 3, 6))
        chunks = [cases[i::nproc] for i in range(nproc)]
        rc, logs, raw = 0, {}, ""
        with concurrent.futures.ThreadPoolExecutor(max_workers=nproc) as ex2:
            for r, lg, rw in ex2.map(lambda j: run_shard(ctx, exes[spec["shard"]], chunks[j], "step_impl_%s_%d" % (name, j)), range(nproc)):
                logs.update(lg)
                if r != 0:
                    rc, raw = r, rw
        return rc, logs, raw
    with concurrent.futures.ThreadPoolExecutor(max_workers=2) as ex:
        fm = ex.submit(vcheck.sh, "%s %d < %s" % (model, 20000, cf), 1800)
        fi = ex.submit(impl)
        rc1, out1 = fm.result()
        rc2, ilog, raw = fi.result()
    return cases, conc_check.parse_logs(out1), rc2, ilog, raw


def run_step(ctx, exes, variants, lin, stats, n, corpus, spec=None):
    """-> dict of measured numbers; reports violations"""
    spec = spec or STEP_MODELS[0]
    name = spec["name"]
    cases, mlog, rc2, ilog, raw = spec["_exec"]
    diverged = 0; first_div = None; steps = 0; wdiverged = 0
    shapes = set(); contended = set(); helped = set(); kinds = collections.Counter()
    for c in cases:
        m = mlog.get(c["id"]); i = ilog.get(c["id"])
        if m is None or i is None:
            diverged += 1
            first_div = first_div or (c, {"index": -1, "model": "<no output>" if m is None else "ok", "impl": "<no output>" if i is None else "ok", "prefix": []})
            continue
        i2 = strip_sp(i)
        steps += len(i2["lines"])
        d = conc_check.compare(m, i2)
        shape = hash(tuple(m["lines"]))
        shapes.add(shape)
        ncasfail = sum(1 for l in m["lines"] if " cas " in l and l.endswith(" 0"))
        locks = set(); spun = False
        for l in m["lines"]:
            t = l.split(" ")
            if len(t) == 4 and t[1] == "xchg":
                locks.add(t[2])
            elif len(t) == 4 and t[1] == "ld" and t[2] in locks:
                spun = True            # a thread found a node lock taken and spins on it
        if ncasfail or spun:
            contended.add(shape)
        for l in m["lines"]:
            t = l.split(" ")
            if len(t) == 4 and t[1] in ("ld", "st", "cas", "faa", "fas"):
                kinds[t[1] + (":fail" if t[1] == "cas" and t[3] == "0" else "")] += 1
        if d is not None:
            diverged += 1
            wdiverged += 1 if c.get("kind") == "window" else 0
            if first_div is None:
                first_div = (c, d)
    # the same real executions through the implementation-side monitors (lincheck, quiescent traversal, functors)
    nbad = observable_logs(ctx, variants, lin, cases, ilog, rc2, raw, "step_" + name, stats, report=True)
    if first_div is not None and nbad == 0:
        c, d = first_div
        # the correspondence broke: look for a real failure over an enlarged seed set, on every MichaelList variant
        more = collections.defaultdict(list)
        rng = ctx.rng.fork()
        extra = gen_step_cases(ctx, rng, 3000, "x" + name, spec["variants"])
        found = observable(ctx, exes, variants, lin, {spec["shard"]: extra}, "search_" + name, {}, report=True)
        if not found and name == "iterable":
            # random programs did not expose it: the targeted family (every preemption point of an insert behind an empty node)
            spec["_targeted"] = run_iter_targeted(ctx, exes, variants, lin, "full", "the step correspondence with LV.Model.IterList diverged")
            found = spec["_targeted"]["iter_targeted_bad"]
        if not found:
            ctx.violation("step correspondence between %s no longer holds" % spec["what"],
                          {"correspondence": spec["what"], "case": c, "first_divergence": d}, no_input=True)
    return {"step_cases": len(cases), "step_diverged": diverged, "step_diverged_window_schedules": wdiverged, "impl_steps_compared": steps, "distinct_event_logs": len(shapes),
            "distinct_event_logs_with_failed_cas": len(contended),   # lazy list: a thread spinning on a taken node lock "access_histogram": dict(kinds),
            "traces_validated_against_impl": len(cases) - diverged}


# --------------------------------------------------------------------------------------------------
# cross-check with C01 on the real code: a hazard pointer copied downward by MichaelList::search is missed by a
# concurrent cds::gc::HP::scan (harness/C13/hp_copy.cpp)
HP_COPY_SIG = "hp-guard-copy-downward-michael-search"


def run_hp_copy(ctx):
    exe = vcheck.cxx_build([os.path.join(vcheck.VERIF, "harness", "C13", "hp_copy.cpp"), ctx.c13_lib], os.path.join(ctx.c13_dir, "hp_copy"), hook=True, link_cds=False, timeout=900)
    cases = []
    f = os.path.join(vcheck.VERIF, "corpus", "C13", "hp_copy_down.json")
    if os.path.exists(f):
        c = json.load(open(f)); cases.append({k: c[k] for k in ("id", "cfg", "threads", "sched")})
    # the same scenario with the switch points moved around (robust against small changes of the step counts)
    for pre in (9, 10, 11):
        for n in range(62, 80):
            cases.append({"id": "hpc_%d_%d" % (pre, n), "cfg": [0], "threads": [[[9, 2]], [[4, 1], [20, 0]]],
                          "sched": [0] * pre + [1] * n + [0] * 6 + [1] * 60 + [0] * 80})
    rc, logs, raw = run_shard(ctx, exe, cases, "hp_copy")
    hits = 0
    for c in cases:
        lg = logs.get(c["id"])
        if not lg:
            continue
        for x in lg["extra"]:
            t = x.split()
            if t[:1] == ["mon"] and "uaf" in t and int(t[t.index("uaf") + 1]) > 0:
                hits += 1
                ctx.violation("cds::gc::HP::scan misses the hazard pointer that MichaelList<HP>::search copies from guard slot 1 to slot 0 "
                              "(GuardArray::copy downward while a scan is in progress): a node is disposed while the searching thread still dereferences it",
                              {"case": dict(c, kind="hp_copy"), "impl_log": lg["lines"], "monitor": lg["extra"]}, signature=HP_COPY_SIG)
                break
    return {"hp_copy_cases": len(cases), "hp_copy_use_after_dispose": hits}


# --------------------------------------------------------------------------------------------------
# IterableList::link_data: the "ABA check for a null prev" (find_prev) walks nodes that are not frozen, so a node
# it has already passed can be re-used for a key >= val; the insert then stores its item behind a larger key.
ITER_ABA_SIG = "iterlist-null-prev-aba-find-prev-stale"
ITER_ABA_WHAT = ("cds::intrusive::IterableList::link_data re-uses an empty pPrev after find_prev( pHead, val ) == pPrev, but find_prev walks nodes "
                 "that are not frozen: a node it has passed is re-used by another insert for a larger key; the list ends out of order "
                 "(12, 10, 20), contains( 10 ) returns false after insert( 10 ) returned true and a second insert( 10 ) succeeds (key present twice)")


def iter_aba_eval(ctx, exes, variants, lin, shard_of, cases, tag):
    """run the cases on the real list; -> list of (case, analysis) that violate the property"""
    by = collections.defaultdict(list)
    for c in cases:
        if c["cfg"][0] in shard_of:
            by[shard_of[c["cfg"][0]]].append(c)
    hits = []
    for s, cs in sorted(by.items()):
        rc, logs, raw = run_shard(ctx, exes[s], cs, "%s_s%d" % (tag, s))
        an = []
        for c in cs:
            lg = logs.get(c["id"])
            an.append(analyse_case(c, lg) if lg is not None and lg["end"] in ("finished", "fuel") else None)
        idx = [i for i, a in enumerate(an) if a is not None]
        verdicts = lincheck_batch(ctx, lin, "set", [an[i]["lines"] for i in idx], "%s_s%d" % (tag, s))
        for i, v in zip(idx, verdicts):
            an[i]["verdict"] = v
            if v != "OK" or an[i]["problems"]:
                hits.append((cs[i], an[i]))
    return hits


def run_iter_aba(ctx, exes, variants, lin, shard_of, model=None):
    f = os.path.join(vcheck.VERIF, "corpus", "C13", "iter_null_prev_aba.json")
    if not os.path.exists(f):
        return {"iter_aba_cases": 0, "iter_aba_hits": 0}
    c0 = json.load(open(f))
    base = {k: c0[k] for k in ("id", "cfg", "threads", "sched")}
    cases = [base]
    # the same scenario with the two switch points of the inserting thread moved around, item counter off / on
    for vid in (40, 43):
        for n0 in range(29, 37):
            for n1 in range(9, 19):
                cases.append({"id": "iaba_%d_%d_%d" % (vid, n0, n1), "cfg": [vid, 0, 20000], "threads": base["threads"],
                              "sched": [0] * 162 + [1] * n0 + [2] * 140 + [1] * n1 + [3] * 53 + [1] * 22})
    hits = iter_aba_eval(ctx, exes, variants, lin, shard_of, cases, "iter_aba")
    rep = [h for h in hits if h[0]["id"] == base["id"]] or hits
    for c, a in rep[:1]:
        ctx.violation(ITER_ABA_WHAT, {"case": dict(c, kind="iter_aba"), "variant": variants.get(c["cfg"][0]), "history": a["lines"],
                                      "problems": a["problems"], "verdict": a.get("verdict"), "final_keys": a["keys"]}, signature=ITER_ABA_SIG)
    info = {"iter_aba_cases": len(cases), "iter_aba_hits": len(hits),
            "iter_aba_final_keys": sorted(set(tuple(a["keys"]) for c, a in hits if a["keys"]))[:6]}
    # the corpus execution, access by access, in the step model (the run of the Coq refutation theorem) and in the real code
    if model is not None:
        spec = [s for s in STEP_MODELS if s["name"] == "iterable"][0]
        sc = [dict(base, id="iaba_step", cfg=[40, 1, 20000])]
        _, mlog, rc2, ilog, raw = exec_step(ctx, exes, dict(spec, name="iterable_aba"), model, sc)
        m = mlog.get("iaba_step"); i = ilog.get("iaba_step")
        d = "no output" if m is None or i is None else conc_check.compare(m, strip_sp(i))
        info["iter_aba_step_model_agrees"] = d is None
        info["iter_aba_step_accesses"] = 0 if i is None else len(strip_sp(i)["lines"])
        if d is not None:
            ctx.violation("step correspondence between LV.Model.IterList and the real IterableList breaks on the null-prev ABA corpus case",
                          {"case": sc[0], "first_divergence": d}, no_input=True)
    return info


# --------------------------------------------------------------------------------------------------
# IterableList: targeted family on the real code.  link_data() re-uses an empty predecessor node; what protects the order
# of the list is the chain of re-checks after the data marks (prev->next == cur, find_prev).  The family drives an
# insert / inserting update to the point where its predecessor is an empty node and lets a second thread run short
# sequences (insert-between, fill and empty the predecessor, insert in front of it) at every preemption point of
# that operation (single preemption; for the pattern sequences also a second preemption).  On the unchanged tree every
# case passes (quiescent order / duplicate monitor, size, verified lincheck): the open known finding
# iterlist-null-prev-aba-find-prev-stale needs two preemptions of the inserting thread with five operations of other
# threads in between, which no member of this family has.  A case that fails here is therefore a new violation.
ITER_SETUPS = {
    "e2": [[1, 0, 0, 0], [1, 3, 0, 0], [1, 1, 0, 0], [4, 1, 0, 0], [4, 0, 0, 0]],      # H -> N(null) -> N(null) -> N(3)
    "e1": [[1, 1, 0, 0], [1, 3, 0, 0], [4, 1, 0, 0]],                                  # H -> N(null) -> N(3)
    "e2b": [[1, 0, 0, 0], [1, 1, 0, 0], [1, 3, 0, 0], [4, 0, 0, 0], [4, 1, 0, 0]],
}
ITER_CORE_B = [[[1, 2, 0, 0], [1, 1, 0, 0], [4, 2, 0, 0]], [[1, 2, 0, 0], [1, 1, 0, 0], [4, 1, 0, 0]],
               [[1, 1, 0, 0], [1, 2, 0, 0], [4, 2, 0, 0]], [[1, 2, 0, 0], [4, 2, 0, 0], [1, 1, 0, 0]]]


def iter_b_sequences():
    """sequences of <= 3 successful-looking operations of the second thread over keys 0..2: an erase targets a key the
    sequence inserted before, an insert a key it does not hold"""
    out = []
    def rec(seq, held):
        if seq:
            out.append(list(seq))
        if len(seq) == 3:
            return
        for k in (0, 1, 2):
            if k in held:
                rec(seq + [[4, k, 0, 0]], held - {k})
            else:
                rec(seq + [[1, k, 0, 0]], held | {k})
    rec([], frozenset())
    return [q for q in out if len(q) >= 2]


def run_chunks(ctx, exe, cases, tag, nproc=None):
    nproc = nproc or max(1, min(vcheck.NCPU, 12))
    chunks = [cases[i::nproc] for i in range(nproc)]
    logs = {}
    with concurrent.futures.ThreadPoolExecutor(max_workers=nproc) as ex:
        futs = [ex.submit(run_shard, ctx, exe, ch, "%s_%d" % (tag, i)) for i, ch in enumerate(chunks) if ch]
        for f in futs:
            rc, lg, raw = f.result(); logs.update(lg)
    return logs


def iter_targeted_cases(ctx, exe, level):
    """level 'core': the pattern sequences only (always run); 'full': every short sequence + double preemption"""
    vids = (40,)
    setups = ("e2", "e1")
    aops = ((1, 0), (3, 1))
    akeys = (0,) if level == "core" else (0, 1, 2)
    bseqs = ITER_CORE_B if level == "core" else iter_b_sequences()
    # length (scheduler steps) of the inserting thread up to the end of its operation, measured on the real code
    probes = []
    for vid in vids:
        for sn in setups:
            probes.append({"id": "len_%d_%s" % (vid, sn), "cfg": [vid, 1, 20000], "threads": [ITER_SETUPS[sn]], "sched": []})
            for code, x in aops:
                for ka in akeys:
                    probes.append({"id": "len_%d_%s_%d_%d" % (vid, sn, code, ka), "cfg": [vid, 1, 20000],
                                   "threads": [ITER_SETUPS[sn] + [[code, ka, x, 0]]], "sched": []})
    plog = run_chunks(ctx, exe, probes, "itlen", nproc=2)
    def steps(cid):
        lg = plog.get(cid)
        return None if lg is None else sum(1 for l in lg["lines"] if " ev " not in l)
    cases = []
    for vid in vids:
        for sn in setups:
            base = steps("len_%d_%s" % (vid, sn))
            for code, x in aops:
                for ka in akeys:
                    end = steps("len_%d_%s_%d_%d" % (vid, sn, code, ka))
                    if base is None or end is None:
                        continue
                    ta = ITER_SETUPS[sn] + [[code, ka, x, 0], [9, ka, 0, 0]]
                    for bi, b in enumerate(bseqs):
                        for s0 in range(max(0, base - 1), end + 1):
                            cases.append({"id": "it_%s_%d_%s_%d_%d_%d_%d" % (level, vid, sn, code, ka, bi, s0), "cfg": [vid, 0, 20000],
                                          "threads": [ta, b], "sched": [0] * s0 + [1] * 400})
                    if level == "full" and code == 1 and ka == 0:
                        # a second preemption: the other thread is stopped after m of its steps, the inserter runs d steps
                        for bi, b in enumerate(ITER_CORE_B):
                            for s0 in range(max(0, base - 1), end + 1, 2):
                                for m in (15, 30, 45, 60, 80, 100, 120):
                                    for d in (4, 10, 20, 40):
                                        cases.append({"id": "it2_%d_%s_%d_%d_%d_%d_%d_%d" % (vid, sn, code, ka, bi, s0, m, d), "cfg": [vid, 0, 20000],
                                                      "threads": [ta, b], "sched": [0] * s0 + [1] * m + [0] * d + [1] * 400})
    return cases


def run_iter_targeted(ctx, exes, variants, lin, level, why):
    exe = exes[6]
    cases = iter_targeted_cases(ctx, exe, level)
    logs = run_chunks(ctx, exe, cases, "ittar_" + level)
    an = []
    for c in cases:
        lg = logs.get(c["id"])
        an.append(analyse_case(c, lg) if lg is not None and lg["end"] in ("finished", "fuel") else None)
    idx = [i for i, a in enumerate(an) if a is not None]
    verdicts = lincheck_batch(ctx, lin, "set", [an[i]["lines"] for i in idx], "ittar_" + level)
    for i, v in zip(idx, verdicts):
        an[i]["verdict"] = v
    bad = []
    for c, a in zip(cases, an):
        if a is None:
            bad.append((c, None, "the harness produced no output (crash or hang of the real IterableList)"))
        elif not a["finished"]:
            bad.append((c, a, "operations on the real IterableList do not terminate within 20000 scheduled steps"))
        elif a["verdict"] != "OK":
            bad.append((c, a, "history on %s is not linearizable to the sequential set (verified lincheck: %s)" % (variants.get(c["cfg"][0]), a["verdict"])))
        elif a["problems"]:
            bad.append((c, a, "%s: %s" % (variants.get(c["cfg"][0]), a["problems"][0])))
    kinds = {}
    for c, a, what in bad:          # one report per kind of failure, the shortest schedule first
        key = what.split(":")[0] if a is None or a["verdict"] == "OK" else "notlin"
        if key not in kinds or len(c["sched"]) < len(kinds[key][0]["sched"]):
            kinds[key] = (c, a, what)
    for c, a, what in kinds.values():
        ctx.violation("IterableList targeted family (%s; a thread is preempted inside an insert whose predecessor is an empty node, a second thread runs %d operations): %s"
                      % (why, len(c["threads"][1]), what),
                      {"case": c, "variant": variants.get(c["cfg"][0]), "history": None if a is None else a["lines"], "problems": None if a is None else a["problems"],
                       "verdict": None if a is None else a.get("verdict"), "final_keys": None if a is None else a["keys"]}, signature=None)
    return {"iter_targeted_level": level, "iter_targeted_cases": len(cases), "iter_targeted_bad": len(bad)}


def run(ctx):
    # VERIF_ONLY=step restricts a run to the step-correspondence stage (mutation experiments on the modelled code): only the
    # three shards of the step-modelled variants are built, stages (A), hp_copy and the IterableList families are skipped
    only_step = os.environ.get("VERIF_ONLY") == "step" and not ctx.replay
    exes = build_shards(ctx, sorted(set(sp["shard"] for sp in STEP_MODELS)) if only_step else SHARDS)
    variants = {}; shard_of = {}
    for s, e in exes.items():
        for vid, name in shard_variants(e):
            variants[vid] = name; shard_of[vid] = s
    lin = build_lincheck(ctx)
    ctx.log("built %d harness shards (%d variants) + lincheck" % (len(exes), len(variants)))
    stats = {}

    # ---- replay of one recorded case ----
    if ctx.replay:
        r = json.load(open(ctx.replay))
        c = r["case"]
        if c.get("kind") == "hp_copy":
            exe = vcheck.cxx_build([os.path.join(vcheck.VERIF, "harness", "C13", "hp_copy.cpp"), ctx.c13_lib], os.path.join(ctx.c13_dir, "hp_copy"), hook=True, link_cds=False, timeout=900)
            rc, logs, raw = run_shard(ctx, exe, [{k: c[k] for k in ("id", "cfg", "threads", "sched")}], "replay_hp")
            lg = logs.get(c["id"], {"extra": [], "lines": []})
            if any("uaf" in x.split() and int(x.split()[x.split().index("uaf") + 1]) > 0 for x in lg["extra"] if x.startswith("mon")):
                ctx.violation("cds::gc::HP::scan misses the hazard pointer that MichaelList<HP>::search copies from guard slot 1 to slot 0", {"case": c, "impl_log": lg["lines"], "monitor": lg["extra"]}, signature=HP_COPY_SIG)
            ctx.coverage.update({"obligations": 1, "discharged": 1, "checker_cmd": "replay", "evaluations": 1, "distinct_nontrivial": 0, "rule": "replay of one case", "samples": [c]})
            return ctx.finish(vcheck.STD_TRUSTED)
        if c.get("kind") == "iter_aba":
            for cc, a in iter_aba_eval(ctx, exes, variants, lin, shard_of, [{k: c[k] for k in ("id", "cfg", "threads", "sched")}], "replay_iaba"):
                ctx.violation(ITER_ABA_WHAT, {"case": c, "variant": variants.get(c["cfg"][0]), "history": a["lines"], "problems": a["problems"],
                                              "verdict": a.get("verdict"), "final_keys": a["keys"]}, signature=ITER_ABA_SIG)
            ctx.coverage.update({"obligations": 1, "discharged": 1, "checker_cmd": "replay", "evaluations": 1, "distinct_nontrivial": 0, "rule": "replay of one case", "samples": [c]})
            return ctx.finish(vcheck.STD_TRUSTED)
        vid = c["cfg"][0]
        observable(ctx, exes, variants, lin, {shard_of[vid]: [c]}, "replay", stats)
        ctx.coverage.update({"obligations": 1, "discharged": 1, "checker_cmd": "replay", "evaluations": 1, "distinct_nontrivial": 0, "rule": "replay of one case", "samples": [c]})
        return ctx.finish(vcheck.STD_TRUSTED)

    # ---- (C) Coq obligations ----
    prop = "Properties/Properties_C13.v"
    res = None
    if os.path.exists(os.path.join(vcheck.COQ, prop)):
        res = vcheck.coq_build([prop])
        ctx.coq_evidence(res)
        ctx.log("coq: %d/%d obligations" % (len(res.discharged), len(res.obligations)))

    # ---- (A) observable correspondence, every variant ----
    per_variant = 400 if ctx.thorough() else 120
    by_shard = collections.defaultdict(list)
    corpus = []
    cdir = os.path.join(vcheck.VERIF, "corpus", "C13")
    for f in sorted(os.listdir(cdir)) if os.path.isdir(cdir) else []:
        if f.endswith(".json"):
            c = json.load(open(os.path.join(cdir, f)))
            c = c.get("case", c)
            if c.get("kind") in ("hp_copy", "iter_aba"):
                continue
            if c["cfg"][0] in shard_of:
                corpus.append(c); by_shard[shard_of[c["cfg"][0]]].append(c)
    for vid in sorted(variants):
        by_shard[shard_of[vid]] += gen_cases(ctx, ctx.rng.fork(), vid, 1 if only_step else per_variant, "o")
    nbad = observable(ctx, exes, variants, lin, by_shard, "obs", stats)
    ctx.log("observable: %d variants, %d cases, %d bad" % (len(variants), sum(s["cases"] for s in stats.values()), nbad))

    # ---- (B) step correspondence for intrusive MichaelList<HP> ----
    stepinfo = {}
    nstep = 6000 if ctx.thorough() else 1200
    prepared = []
    for spec in STEP_MODELS:        # models and cases first (one random stream), then all executions in parallel
        model = conc_check.build_model(ctx, spec["extract"], tag="model_" + spec["name"])
        cases = [c for c in corpus if c["cfg"][0] in spec["variants"] and c["cfg"][1] == 1] + gen_step_cases(ctx, ctx.rng.fork(), nstep, "s" + spec["name"], spec["variants"])
        spec["_wrng"] = ctx.rng.fork()
        spec["_model"] = model
        prepared.append((spec, model, cases))
    with concurrent.futures.ThreadPoolExecutor(max_workers=len(prepared)) as ex:       # window schedules: the three models side by side
        for (sp, mo, cs), (wcases, winfo) in zip(prepared, ex.map(lambda p: gen_window_cases(ctx, p[0], p[1], p[0]["_wrng"]), prepared)):
            cs += wcases
            sp["_winfo"] = winfo
    with concurrent.futures.ThreadPoolExecutor(max_workers=len(prepared)) as ex:
        futs = [ex.submit(exec_step, ctx, exes, sp, mo, cs) for sp, mo, cs in prepared]
        for (sp, mo, cs), f in zip(prepared, futs):
            sp["_exec"] = f.result()
    for spec in STEP_MODELS:
        si = run_step(ctx, exes, variants, lin, stats, 6000 if ctx.thorough() else 1500, corpus, spec)
        ctx.log(("step[%s]: " % spec["name"]) + "%(step_cases)d cases, %(step_diverged)d diverged, %(impl_steps_compared)d accesses compared, %(distinct_event_logs_with_failed_cas)d distinct logs with a failed CAS" % si)
        # what the window schedules reached, counted in the logs of the REAL code
        ws = conc_windows2.event_stats(spec["_exec"][0], {k: strip_sp(v) for k, v in spec["_exec"][3].items()})
        ws["generator"] = {k: v for k, v in spec.get("_winfo", {}).items() if k != "per_template"}
        ws["rule"] = ("victim stalled before each CAS / node-lock acquisition and before every other access, actor runs exactly through one of its "
                      "writes (measured on the model in that state) or its whole program, victim gets r more steps, third thread before / after / in between; "
                      "with_retry_path = a thread executed more accesses than in its solo run (retry, helping or spinning path)")
        si["window_schedules"] = ws
        ctx.log("step[%s] windows: %d schedules, %d with a failed CAS, %d with a retry/helping path" % (spec["name"], ws["window_cases"], ws["with_failed_cas"], ws["with_retry_path"]))
        stepinfo["step_" + spec["name"]] = si
    stepinfo["traces_validated_against_impl"] = sum(v["traces_validated_against_impl"] for v in stepinfo.values())
    stepinfo["step_cases"] = sum(v["step_cases"] for k, v in stepinfo.items() if isinstance(v, dict))
    stepinfo["step_diverged"] = sum(v["step_diverged"] for k, v in stepinfo.items() if isinstance(v, dict))

    if res is not None and not res.ok:
        ctx.violation("Coq obligations of C13 do not check: %s" % (res.failed[:2],), {"theorem": [f[2] for f in res.failed], "errors": res.failed[:3]}, no_input=True)

    tot_ops = collections.Counter()
    for s in stats.values():
        tot_ops.update(s["ops"])
    ctx.coverage.setdefault("obligations", 0); ctx.coverage.setdefault("discharged", 0)
    ctx.coverage.setdefault("checker_cmd", "n/a")
    ctx.coverage.update({
        "evaluations": sum(s["cases"] for s in stats.values()),
        "distinct_nontrivial": sum(len(s["nontrivial"]) for s in stats.values()),
        "distinct_histories": sum(len(s["histories"]) for s in stats.values()),
        "rule": "program x schedule pairs (2-3 threads, 1-4 operations each over 1-4 keys; uniform, bursty, run-then-switch and fine-grained schedules from one splitmix64 stream per variant); distinct = distinct invoke/response histories per variant; non-trivial = at least two operations overlap in real time and at least one operation modified the container",
        "variants": len(variants), "corpus_cases": len(corpus),
        "per_variant": {str(v): {"name": s["name"], "cases": s["cases"], "distinct_histories": len(s["histories"]), "distinct_nontrivial": len(s["nontrivial"]), "lincheck": dict(s["verdicts"]), "overrun": s["overrun"], "nonempty_final": s["nonempty_final"], "ops": dict(s["ops"])} for v, s in sorted(stats.items())},
        "op_result_histogram": dict(tot_ops),
        "histories_decided_by_verified_lincheck": sum(sum(s["verdicts"].values()) for s in stats.values()),
        "samples": [by_shard[shard_of[min(variants)]][0]] if variants else [],
        "modelled": "cds::intrusive::MichaelList<cds::gc::HP> (search with helping, link_node, unlink_node, insert_at, update_at, erase_at, unlink_at, extract_at, find_at, get_at, HP guard traffic) [theorems]; cds::intrusive::LazyList<cds::gc::HP> (search, node spin locks, validate, link_node, unlink_node, all *_at) [theorems] and cds::intrusive::IterableList<cds::gc::HP> (search, inserting_search, find_prev, link_data, unlink_data, all *_at) [LazyList: theorems lazy_sorted_nodup, lazy_linearizable, lazy_quiescent_count; IterableList: refutation iter_sorted_nodup_refuted]",
    })
    ctx.coverage.update(stepinfo)
    if only_step:
        ctx.coverage["restricted_run"] = "VERIF_ONLY=step"
        return ctx.finish(vcheck.STD_TRUSTED)
    hpinfo = run_hp_copy(ctx)
    ctx.log("hp guard-copy scenario: %(hp_copy_cases)d schedules, %(hp_copy_use_after_dispose)d with a use after dispose" % hpinfo)
    ctx.coverage.update(hpinfo)
    itspec = [sp for sp in STEP_MODELS if sp["name"] == "iterable"][0]
    itinfo = itspec.get("_targeted") or run_iter_targeted(ctx, exes, variants, lin, "full" if ctx.thorough() else "core", "always-on sweep")
    ctx.log("iterable targeted family [%(iter_targeted_level)s]: %(iter_targeted_cases)d schedules, %(iter_targeted_bad)d failing" % itinfo)
    ctx.coverage.update(itinfo)
    iainfo = run_iter_aba(ctx, exes, variants, lin, shard_of, model=[sp for sp in STEP_MODELS if sp["name"] == "iterable"][0].get("_model"))
    ctx.log("iterable null-prev ABA scenario: %(iter_aba_cases)d schedules, %(iter_aba_hits)d end out of order / not linearizable" % iainfo)
    ctx.coverage.update(iainfo)
    return ctx.finish(vcheck.STD_TRUSTED + ["hook layer: khizmax_libcds_verif::atomic<T>, baton scheduler, event log (hooks/include)", "ocaml/lincheck_main.ml (text parser around the verified lincheck)", "harness/C13 adapters: translation of each API call into the spec vocabulary (`sp` records)"],
                      ["sequential consistency: memory_order arguments are not modelled", "compare_exchange_weak never fails spuriously under the hook",
                       "smr_safe (DESIGN 4): the step models allocate node / item ids from never-reusing allocators; that no node is recycled while a guard can reach it is the conclusion of the C01 theorems, not of C13 (and the open known finding hp-guard-copy-downward-michael-search shows a schedule of the real cds::gc::HP in which it fails for MichaelList::search)",
                       "theorems for every schedule: step model of cds::intrusive::MichaelList<gc::HP> (sorted / no duplicate key at every step, full linearizability incl. reads, quiescent corollaries incl. item counter, and the same for searches that start at a permanent anchor node = the split-list bucket-head calling convention); step model of cds::intrusive::LazyList<gc::HP> (no duplicate key at every step, full linearizability incl. reads with helping, quiescent corollaries incl. item counter); IterableList<HP>: step model tied by correspondence, property REFUTED (C13_iter_sorted_nodup_refuted, known finding iterlist-null-prev-aba-find-prev-stale); every other variant: observable correspondence only",
                       "step and observable correspondence are sampling (every history sampled is decided exactly by the verified lincheck)",
                       "a failed unlink( val ) is not an operation of the sequential set (it fails also when the list holds another item with that key): skipped in histories, its result checked directly (an item that was never linked must not be unlinked)"])
