"""C04 — RCU never reclaims an object a pre-existing reader may still see (DESIGN 7, C04).

Step correspondence LV.Model.RcuGp <-> cds::urcu::gc<general_instant<spin_lock, backoff::empty>> under the
deterministic scheduler, plus the monitors of the property itself on the real code (harness) and on both event
logs (trace_monitor below).  Also used by checks/C05.py (general_buffered)."""
import os, json
import vcheck, conc_check

OPN = {1: "attach", 2: "detach", 3: "rlock", 4: "runlock", 5: "sync", 6: "retire", 7: "publish", 8: "unpublish", 9: "touch", 10: "batch_retire"}


# ------------------------------------------------------------------------------------------------
# generators

def gen_thread(rng, role, objs, allow_batch=False):
    """role: 'reader' | 'writer' | 'mixed'.  Discipline (needed only by the touch monitor): an object is retired by
    the thread that published it, after that thread stored something else into src; fresh objects may be retired
    without ever being published."""
    ops = []
    if rng.chance(9, 10):
        ops.append([1])
    n = 2 + rng.below(8)
    mine = []          # objects this thread published and may retire after its next store to src
    pub = None         # object currently published by this thread (as far as it knows)
    depth = 0
    for _ in range(n):
        if role == "reader":
            w = [("rlock", 4), ("runlock", 4), ("touch", 4), ("sync", 1), ("detach", 1), ("attach", 1)]
        elif role == "writer":
            w = [("publish", 3), ("unpublish", 2), ("retire", 4), ("sync", 2), ("rlock", 1), ("runlock", 1), ("detach", 1), ("attach", 1)]
        else:
            w = [("rlock", 3), ("runlock", 3), ("touch", 2), ("publish", 2), ("unpublish", 1), ("retire", 3), ("sync", 1), ("detach", 1), ("attach", 1)]
        if allow_batch and role != "reader":
            w.append(("batch", 2))
        tot = sum(x[1] for x in w)
        r = rng.below(tot)
        for name, wt in w:
            if r < wt:
                break
            r -= wt
        if name == "rlock":
            ops.append([3]); depth += 1
        elif name == "runlock":
            ops.append([4]); depth = max(0, depth - 1)
        elif name == "touch":
            ops.append([9])
        elif name == "sync":
            ops.append([5])
        elif name == "attach":
            ops.append([1])
        elif name == "detach":
            ops.append([2])
        elif name == "publish":
            p = objs[0]; objs[0] += 1
            if pub is not None:
                mine.append(pub)
            pub = p
            ops.append([7, p])
        elif name == "unpublish":
            if pub is not None:
                mine.append(pub); pub = None
            ops.append([8])
        elif name == "retire":
            if mine and rng.chance(3, 4):
                p = mine.pop(0)
            else:
                p = objs[0]; objs[0] += 1
            ops.append([6, p])
        elif name == "batch":
            k = 1 + rng.below(3)
            ps = []
            for _ in range(k):
                if mine and rng.chance(1, 2):
                    ps.append(mine.pop(0))
                else:
                    ps.append(objs[0]); objs[0] += 1
            ops.append([10] + ps)
    return ops


def gen_sched(rng, nthreads, kind):
    if kind == 0:      # uniform
        return [rng.below(nthreads) for _ in range(20 + rng.below(120))]
    if kind == 1:      # bursty: long runs with few switches (a reader stalls inside its section)
        s = []
        for _ in range(2 + rng.below(8)):
            s += [rng.below(nthreads)] * (1 + rng.below(25))
        return s
    if kind == 2:      # run one thread to a chosen step, then another one for long, then mix
        a = rng.below(nthreads); b = rng.below(nthreads)
        return [a] * (3 + rng.below(14)) + [b] * (10 + rng.below(50)) + [rng.below(nthreads) for _ in range(40)]
    # kind 3: a reader is stopped in the middle of access_lock / inside its section while a writer runs whole
    # synchronize calls (aimed at the window between the two flips)
    a = rng.below(nthreads); b = (a + 1 + rng.below(max(1, nthreads - 1))) % nthreads
    s = [a] * (5 + rng.below(6))
    for _ in range(2 + rng.below(3)):
        s += [b] * (8 + rng.below(20)) + [a] * (1 + rng.below(3))
    return s + [rng.below(nthreads) for _ in range(30)]


def gen_cases(ctx, n, prefix="g", cfg=None, allow_batch=False):
    rng = ctx.rng
    cases = []
    for i in range(n):
        nthreads = 2 + rng.below(3)
        objs = [1]
        roles = []
        threads = []
        for t in range(nthreads):
            role = rng.choice(["reader", "writer", "mixed"]) if t > 1 else ("reader" if t == 0 else "writer")
            if rng.chance(1, 5):
                role = "mixed"
            roles.append(role)
            threads.append(gen_thread(rng, role, objs, allow_batch))
        sched = gen_sched(rng, nthreads, rng.below(4))
        c = {"id": "%s%d" % (prefix, i), "cfg": list(cfg(rng)) if cfg else [2, 3000], "threads": threads, "sched": sched}
        cases.append(c)
    return cases


# ------------------------------------------------------------------------------------------------
# the property as a monitor over an event log (model or implementation)

def trace_monitor(lines):
    """-> dict of violation lists.  Sections are taken from the client events `rlock d ..` / `runlock d`."""
    depth = {}; gen = {}
    retired = {}       # p -> list of snapshots [(reader, gen)]  (one per retire event)
    ndisp = {}; nret = {}
    syncs = {}         # thread -> snapshot at sync_begin
    bad = {"dispose_inside_old_reader": [], "sync_end_inside_old_reader": [], "touch_disposed": [], "dispose_unretired": []}

    def inside_now():
        return [(t, gen[t]) for t in depth if depth[t] > 0]

    def still(x):
        return depth.get(x[0], 0) > 0 and gen.get(x[0], 0) == x[1]

    for k, l in enumerate(lines):
        t = l.split(" ")
        if len(t) < 3 or t[1] != "ev":
            continue
        th = int(t[0]); name = t[2]; args = [int(x) for x in t[3:]]
        if name == "rlock":
            d = args[0]
            if d == 1:
                gen[th] = gen.get(th, 0) + 1
            depth[th] = d
        elif name == "runlock":
            depth[th] = args[0]
        elif name == "retire":
            p = args[0]
            retired.setdefault(p, []).append(inside_now()); nret[p] = nret.get(p, 0) + 1
        elif name == "dispose":
            p = args[0]
            ndisp[p] = ndisp.get(p, 0) + 1
            if p not in retired:
                bad["dispose_unretired"].append((k, p))
            else:
                # the retire this dispose belongs to: the most recent one (objects are retired once by the generators)
                for x in retired[p][-1]:
                    if still(x):
                        bad["dispose_inside_old_reader"].append((k, p, x[0]))
        elif name == "sync_begin":
            syncs[th] = inside_now()
        elif name == "sync_end":
            for x in syncs.pop(th, []):
                if still(x):
                    bad["sync_end_inside_old_reader"].append((k, th, x[0]))
        elif name == "touch":
            if ndisp.get(args[0], 0) > 0:
                bad["touch_disposed"].append((k, args[0], th))
    return bad, nret, ndisp


def impl_monitor(extra):
    """parse the `monitor ...` lines the harness prints after endcase"""
    r = {}
    for x in extra:
        t = x.split()
        if len(t) >= 3 and t[0] == "monitor":
            if t[1] == "first":
                r["first"] = " ".join(t[2:])
            elif t[1] == "bufobjs":
                r["bufobjs"] = t[2:]
            elif t[1] == "retired":
                r["retired"] = int(t[2]); r["disposed_at_destruct"] = int(t[4])
            else:
                r[t[1]] = int(t[2])
    return r


def waited(lines, tid_any=True):
    """number of wait-loop iterations of flip_and_wait that went round again (the writer really waited)"""
    per = {}
    for l in lines:
        t = l.split(" ")
        if len(t) >= 3 and t[1] != "ev" and t[1] != "begin":
            per.setdefault(t[0], []).append((t[1], t[2]))
    ctl = None
    for l in lines:
        t = l.split(" ")
        if len(t) >= 3 and t[1] == "fxor":
            ctl = t[2]; break
    n = 0
    if ctl is None:
        return 0
    for th, acc in per.items():
        for i in range(2, len(acc) - 1):
            if acc[i] == ("ld", ctl) and acc[i - 1][0] == "ld" and acc[i - 2][0] == "ld" and acc[i + 1] == acc[i - 2]:
                n += 1
    return n


def branch_histogram(lines):
    h = {}
    def inc(k, d=1): h[k] = h.get(k, 0) + d
    prev = {}
    for l in lines:
        t = l.split(" ")
        if len(t) < 3:
            continue
        if t[1] == "ev":
            name = t[2]
            if name == "rlock":
                inc("rlock_outermost" if t[3] == "1" else "rlock_nested")
            elif name == "runlock":
                inc("runlock_outermost" if t[3] == "0" else "runlock_nested")
            else:
                inc("ev_" + name)
        elif t[1] == "cas":
            inc("cas_ok" if t[3] == "1" else "cas_fail")
        elif t[1] == "fxor":
            inc("flip")
    inc("writer_waited", waited(lines))
    return h


# ------------------------------------------------------------------------------------------------

def run_split(ctx, model, impl, cases, tag, fuel=40000, timeout=100, nproc=8):
    """Model in one process, implementation in `nproc` parallel processes (chunks of the case list), each under a
    watchdog: a harness that hangs or crashes on some case loses only the rest of its chunk.  Returns the logs and the
    first case without a complete implementation log (or None)."""
    import subprocess, time
    cf = os.path.join(ctx.work, tag + ".txt")
    conc_check.write_cases(cf, cases)
    rc1, out1 = vcheck.sh("%s %d < %s" % (model, fuel, cf), timeout=600)
    mlog = conc_check.parse_logs(out1)
    nproc = max(1, min(nproc, vcheck.NCPU, (len(cases) + 9) // 10))
    procs = []
    for k in range(nproc):
        chunk = cases[k::nproc]
        f = os.path.join(ctx.work, "%s_%d.txt" % (tag, k))
        conc_check.write_cases(f, chunk)
        o = open(f + ".out", "w")
        procs.append((subprocess.Popen([impl, f], stdout=o, stderr=subprocess.STDOUT), o, f + ".out"))
    deadline = time.time() + timeout
    rc2 = 0
    ilog = {}
    for p, o, path in procs:
        try:
            rc = p.wait(timeout=max(1.0, deadline - time.time()))
        except subprocess.TimeoutExpired:
            p.kill(); p.wait(); rc = 124
        o.close()
        if rc != 0:
            rc2 = rc
        ilog.update(conc_check.parse_logs(open(path, errors="replace").read()))
    missing = None
    for c in cases:
        i = ilog.get(c["id"])
        if i is None or i["end"] is None or not any(x.startswith("monitor retired") for x in i["extra"]):
            if i is not None:
                i["end"] = None
            missing = missing or c
    return mlog, ilog, rc2, missing


PROPERTY_TEXT = {
    "dispose_inside_old_reader": "an object was disposed while a reader that entered its read-side critical section before the retirement was still inside it",
    "sync_end_inside_old_reader": "synchronize() returned while a reader that entered its critical section before the call was still inside it",
    "touch_disposed": "a reader inside a read-side critical section used an object that had already been disposed",
    "dispose_unretired": "the disposer was called for an object that was never retired",
    "not_disposed_exactly_once": "a retired object was not disposed exactly once by the time the RCU singleton was destroyed",
}


def examine(ctx, cases, mlog, ilog, what_impl, stats, check_once=True, extra=None):
    """compare logs + monitors; returns (first_divergence or None, number of monitor violations reported)"""
    first_div = None
    nviol = 0
    for c in cases:
        m = mlog.get(c["id"]); i = ilog.get(c["id"])
        if m is None or i is None or i["end"] is None:
            stats["diverged"] += 1
            if first_div is None:
                first_div = (c, {"index": -1, "model": "<no output>" if m is None else "ok", "impl": "<no complete output>", "prefix": []})
            continue
        stats["steps"] += len(i["lines"])
        if i["end"] == "fuel":
            stats["overruns"] += 1
        d = conc_check.compare(m, i)
        shape = hash(tuple(m["lines"]))
        stats["shapes"].add(shape)
        h = branch_histogram(m["lines"])
        for k, v in h.items():
            stats["branches"][k] = stats["branches"].get(k, 0) + v
        if h.get("writer_waited", 0) > 0:
            stats["nontrivial"].add(shape)
        for th in c["threads"]:
            for op in th:
                stats["ops"][OPN.get(op[0], "?")] = stats["ops"].get(OPN.get(op[0], "?"), 0) + 1
        # monitors: harness (authoritative, sees the real disposer) and trace-level on both logs
        im = impl_monitor(i["extra"])
        tb, nret, ndisp = trace_monitor([conc_check.norm_impl_line(x) if " ev " not in x else x for x in i["lines"]])
        mb, _, _ = trace_monitor(m["lines"])
        if i["end"] != "fuel":
            for key in ("dispose_inside_old_reader", "sync_end_inside_old_reader", "touch_disposed", "dispose_unretired"):
                if im.get(key, 0) > 0 or tb[key]:
                    nviol += 1
                    ctx.violation("%s: %s" % (what_impl, PROPERTY_TEXT[key]),
                                  dict({"case": c, "monitor": key, "harness_monitor": im, "trace_monitor": {k: v[:3] for k, v in tb.items()}, "impl_log": i["lines"]}, **(extra or {})))
            if check_once and im.get("not_disposed_exactly_once", 0) > 0:
                nviol += 1
                ctx.violation("%s: %s" % (what_impl, PROPERTY_TEXT["not_disposed_exactly_once"]),
                              {"case": c, "monitor": "not_disposed_exactly_once", "harness_monitor": im, "impl_log": i["lines"]})
        for key, v in mb.items():
            if v and m["end"] != "fuel":
                nviol += 1
                ctx.violation("the MODEL violates the property it is proved to have (%s): model and theorem are out of step" % key,
                              {"case": c, "monitor": key, "model_log": m["lines"]}, no_input=False)
        if d is not None:
            stats["diverged"] += 1
            if first_div is None:
                first_div = (c, d)
    return first_div, nviol


def new_stats():
    return {"diverged": 0, "steps": 0, "overruns": 0, "shapes": set(), "nontrivial": set(), "branches": {}, "ops": {}}


def load_corpus(pid):
    cases = []
    cdir = os.path.join(vcheck.VERIF, "corpus", pid)
    for f in sorted(os.listdir(cdir)) if os.path.isdir(cdir) else []:
        if f.endswith(".json"):
            cases.append(json.load(open(os.path.join(cdir, f))))
    return cases


def run_gpb_part(ctx):
    """general_buffered under the scheduler (atomic buffer wrapper of harness/C05), step by step against LV.Model.RcuBuf,
    with the C04 monitors (dispose / sync_end while a pre-existing reader is inside, touch of a disposed object)."""
    import C05
    model = conc_check.build_model(ctx, "Extract_RcuBuf.v", tag="model_buf")
    impl = vcheck.cxx_build(os.path.join(vcheck.VERIF, "harness/C05/main.cpp"), os.path.join(ctx.work, "harness_buf"), hook=True)
    cov = {"cases": 0, "diverged": 0, "steps": 0, "writer_waited_logs": 0, "per_variant": {}}
    thorough = ctx.thorough()
    for var, cnt in (("a0", 0), ("a1", 1)):
        what = "cds::urcu::gc<general_buffered> (real code, %s buffer executed atomically)" % ("counting" if cnt else "default non-counting")
        wrapper = os.path.join(ctx.work, "implbuf_%s.sh" % var)
        with open(wrapper, "w") as f:
            f.write("#!/bin/sh\nexec %s \"$1\" %s\n" % (impl, var))
        os.chmod(wrapper, 0o755)
        if ctx.replay:
            rep = json.load(open(ctx.replay))
            if rep.get("variant") != var:
                continue
            cases = [rep["case"]]
        else:
            cases = [c for c in load_corpus("C05") if c.get("variant", "a0") == var]
            cases += C05.gen_epoch_cases(ctx, 1600 if thorough else 500, cnt, "ge" + var)
            cases += gen_cases(ctx, 1200 if thorough else 300, prefix="gb" + var, cfg=C05.cfg_gen(cnt), allow_batch=True)
        st = new_stats()
        mlog, ilog, rc2, missing = run_split(ctx, model, wrapper, cases, "G" + var, fuel=60000)
        fd, nv = examine(ctx, cases, mlog, ilog, what, st, check_once=False, extra={"variant": var})
        if missing is not None and nv == 0:
            nv += 1
            ctx.violation("%s: the harness hung or crashed (rc=%s) on a case" % (what, rc2), {"case": missing, "variant": var})
        if fd is not None and nv == 0 and not ctx.replay:
            more = C05.gen_epoch_cases(ctx, 4000, cnt, "se" + var) + gen_cases(ctx, 2000, prefix="sb" + var, cfg=C05.cfg_gen(cnt), allow_batch=True)
            ml2, il2, rc3, miss2 = run_split(ctx, model, wrapper, more, "GS" + var, fuel=60000)
            _, nv2 = examine(ctx, more, ml2, il2, what, new_stats(), check_once=False, extra={"variant": var})
            nv += nv2
            if nv2 == 0:
                c, d = fd
                ctx.violation("step correspondence between LV.Model.RcuBuf and cds/urcu/details/gpb.h no longer holds (C04, general_buffered)",
                              {"correspondence": "Model/RcuBuf.v vs cds::urcu::gc<general_buffered<AtomicBuf<VyukovMPMCCycleQueue>,spin_lock,backoff::empty>>",
                               "variant": var, "case": c, "first_divergence": d, "searched_cases_without_monitor_violation": len(more)}, no_input=True)
        cov["cases"] += len(cases); cov["diverged"] += st["diverged"]; cov["steps"] += st["steps"]; cov["writer_waited_logs"] += len(st["nontrivial"])
        cov["per_variant"][var] = {"cases": len(cases), "diverged": st["diverged"], "branch_histogram": st["branches"]}
    return cov


def run(ctx):
    res = vcheck.coq_build(["Properties/Properties_C04.v"])
    ctx.coq_evidence(res)
    model = conc_check.build_model(ctx, "Extract_RcuGp.v")
    impl = vcheck.cxx_build(os.path.join(vcheck.VERIF, "harness/C04/main.cpp"), os.path.join(ctx.work, "harness"), hook=True)
    what = "cds::urcu::gc<general_instant> (real code)"
    stats = new_stats()
    if ctx.replay:
        rep = json.load(open(ctx.replay))
        # a replay with a variant is a general_buffered case, one with harness = gpt_sched a general_threaded case
        cases = [] if rep.get("variant") or rep.get("harness") in ("gpt_sched", "rawptr", "shb_sched") else [rep["case"]]
        ncorpus = 0
    else:
        cases = load_corpus("C04")
        ncorpus = len(cases)
        cases += gen_cases(ctx, 6000 if ctx.thorough() else 1500)
    mlog, ilog, rc2, missing = run_split(ctx, model, impl, cases, "cases")
    first_div, nviol = examine(ctx, cases, mlog, ilog, what, stats)
    if missing is not None and nviol == 0:
        ctx.violation("%s: the harness hung or crashed (rc=%s) while running a case: a wait loop or the lock no longer terminates" % (what, rc2),
                      {"case": missing, "impl_log": (ilog.get(missing["id"]) or {"lines": []})["lines"][-60:]})
        nviol += 1
    if first_div is not None and nviol == 0:
        # correspondence broke without a monitor firing on these cases: search with the monitors over more seeds
        more = gen_cases(ctx, 6000, prefix="s")
        ml2, il2, rc3, miss2 = run_split(ctx, model, impl, more, "search")
        st2 = new_stats()
        _, nv2 = examine(ctx, more, ml2, il2, what, st2)
        if nv2 == 0:
            c, d = first_div
            ctx.violation("step correspondence between LV.Model.RcuGp and cds/urcu/details/{gp,gpi,base}.h no longer holds",
                          {"correspondence": "Model/RcuGp.v vs cds::urcu::gc<general_instant<spin_lock,backoff::empty>>", "case": c, "first_divergence": d,
                           "searched_cases_without_monitor_violation": len(more)}, no_input=True)
    # ---- general_buffered (theorems C04_gpb_*): the scheduled correspondence of checks/C05.py part A with the C04 monitors,
    #      generator aimed at retire-during-synchronize and readers entering between / after the flips
    gpb_cov = run_gpb_part(ctx)
    # ---- general_threaded: the real code under the scheduler (reclamation thread free), monitors only (checks/C04_gpt.py)
    import C04_gpt
    gpt_cov = C04_gpt.run_gpt_sched(ctx)
    # ---- signal_buffered: the real code with real signals under the scheduler + step comparison with LV.Model.RcuSignal
    import C04_shb
    try:
        shb_cov = C04_shb.run_shb_sched(ctx)
    except vcheck.BuildError as e:
        shb_cov = {"build_failure": str(e)[-1500:]}
        ctx.violation("harness/C04/shb_sched.cpp does not build against the working tree: the signal_buffered part cannot be checked",
                      {"kind": "build-failure", "harness": "shb_sched", "error": str(e)[-2000:]}, no_input=True)
    # ---- raw_ptr / exempt_ptr of the RCU containers (checks/C04_rawptr.py, harness/C04/rawptr_main.cpp)
    import C04_rawptr
    try:
        ctx.coverage["rawptr"] = C04_rawptr.run_rawptr(ctx)
    except vcheck.BuildError as e:
        ctx.coverage["rawptr"] = {"build_failure": str(e)[-1500:]}
        ctx.violation("harness/C04/rawptr_main.cpp does not build against the working tree: the raw_ptr part of C04 cannot be checked",
                      {"kind": "build-failure", "harness": "rawptr", "error": str(e)[-2000:]}, no_input=True)
    if ctx.thorough() and res.ok and not ctx.replay:
        rcq, outq = vcheck.coqchk("LV.Properties.Properties_C04")
        ctx.coverage["coqchk"] = "ok" if rcq == 0 else outq[-400:]
        if rcq != 0:
            ctx.violation("coqchk rejects LV.Properties.Properties_C04", {"coqchk": outq[-1500:]}, no_input=True)
    if not res.ok:
        ctx.violation("Coq obligations of C04 do not check: %s" % (res.failed[:2],), {"theorem": [f[2] for f in res.failed], "errors": res.failed[:3]}, no_input=True)
    ctx.coverage.update({
        "evaluations": len(cases) + gpb_cov["cases"] + gpt_cov.get("finished", 0) + shb_cov.get("finished", 0), "distinct_nontrivial": len(stats["nontrivial"]) + gpb_cov["writer_waited_logs"] + gpt_cov.get("distinct_nontrivial", 0) + shb_cov.get("distinct_nontrivial", 0),
        "rule": "program x schedule pairs (2-4 threads; reader/writer/mixed programs of attach, detach, rlock, runlock (nested), publish, unpublish, touch, retire, synchronize; uniform, bursty, run-then-switch and reader-stalled-while-writer-synchronizes schedules from one splitmix64 stream); distinct = distinct model event logs; non-trivial = a flip_and_wait wait loop went round at least once (the writer really waited for a reader)",
        "distinct_event_logs": len(stats["shapes"]), "impl_steps_compared": stats["steps"], "diverged": stats["diverged"], "overruns": stats["overruns"],
        "corpus_cases": ncorpus, "traces_validated_against_impl": len(cases) - stats["diverged"],
        "op_histogram": stats["ops"], "branch_histogram": stats["branches"],
        "general_buffered": gpb_cov,
        "general_threaded_scheduled": gpt_cov,
        "signal_buffered_scheduled": shb_cov,
        "samples": cases[ncorpus:ncorpus + 2] if len(cases) > ncorpus else cases[:1],
        "modelled": "thread_list::alloc/retire, gp_thread_gc::access_lock/access_unlock, gp_singleton::flip_and_wait/check_grace_period, general_instant::synchronize/retire_ptr, spin_lock::lock/unlock",
        "flavours": {"general_instant": "step correspondence + monitors (this check)", "general_buffered": "step correspondence with the atomic buffer wrapper + C04 monitors (this check, generator aimed at retire-during-synchronize; see general_buffered); exactly-once, default Vyukov buffer: checks/C05.py",
                     "general_threaded": "Coq model LV.Model.RcuThreaded (reclamation thread + destructor as model threads; mutex/condvar hand-offs atomic): grace-period and exactly-once theorems proved for every schedule; tie to the code: the real general_threaded under the deterministic scheduler with the C04 / C05 monitors (checks/C04_gpt.py, harness/C04/gpt_sched.cpp: aimed run-to-a-point schedules, reclamation thread unscheduled; see general_threaded_scheduled) and the real-thread exploration of checks/C05.py; no step correspondence", "signal_buffered": "Coq model LV.Model.RcuSignal (signal delivery + handler = one atomic step of a pseudo-thread): all theorems proved; tie to the code: the real signal_buffered with real SIGUSR1 and the library's handler under the deterministic scheduler (checks/C04_shb.py, hooks sigsched.h: delivery = one scheduler step of the target thread), C04/C05 monitors on every case and step correspondence with the extracted model for the atomic-buffer variants; plus the real-thread exploration of checks/C05.py"},
    })
    return ctx.finish(vcheck.STD_TRUSTED + ["hook layer: khizmax_libcds_verif::atomic<T>, baton scheduler, event log (hooks/include)", "ocaml/conc_main.ml event printer",
                                            "harness/C04/rcu_harness.h (client programs, monitors)", "harness/C05/main.cpp (AtomicBuf wrapper: one scheduling point per buffer operation)"] + C04_gpt.TRUSTED + C04_shb.TRUSTED,
                      ["sequential consistency: memory_order arguments and fences are not modelled", "compare_exchange_weak never fails spuriously under the hook",
                       "the traversal of the thread-record list is modelled as a snapshot of the list at the head load (next_ is immutable after publication, records are never unlinked)",
                       "Lock = cds::sync::spin_lock<backoff::empty>, Backoff = backoff::empty (std::mutex cannot be scheduled by the baton scheduler)",
                       "client contract: no synchronize/retire/detach inside a read-side section, nesting depth < 2^31 (such operations are skipped by model and harness alike)"] + C04_gpt.ASSUMPTIONS + C04_shb.ASSUMPTIONS)
