"""C08 — SegmentedQueue conserves items and bounds reordering by the quasi factor (DESIGN 7, C08).

Coq: Properties/Properties_C08.v (model LV.Model.Segmented, proofs LV.Proofs.Segmented*).
Tie: step correspondence between the extracted model and cds::intrusive::SegmentedQueue<gc::HP> (variant 0) under
the deterministic scheduler; variants 1-3 (intrusive/DHP, container/HP, container/DHP) are observable-only.
Search: the monitor below computes the three statements of the property on the logged history of the real code
(every variant, every case)."""
import os, json, re
import vcheck, conc_check, conc_windows

VARIANTS = {0: "intrusive::SegmentedQueue<gc::HP> (step correspondence)", 1: "intrusive::SegmentedQueue<gc::DHP> (observable)",
            2: "container::SegmentedQueue<gc::HP> (observable)", 3: "container::SegmentedQueue<gc::DHP> (observable)"}


def ceil2(n):
    k = 1
    while k < n:
        k *= 2
    return k


# ---------------------------------------------------------------------------------------------------------------
# generators

def gen_program(rng, nthreads, k, shape):
    """shape 0: random mix; 1: producers/consumers; 2: one thread fills a segment first, the others mostly dequeue"""
    threads = []
    val = 10
    for t in range(nthreads):
        ops = []
        nops = 1 + rng.below(4)
        for j in range(nops):
            if shape == 0:
                enq = rng.chance(1, 2)
            elif shape == 1:
                enq = (t % 2 == 0) if rng.chance(4, 5) else rng.chance(1, 2)
            else:
                enq = (t == 0 and j < k) or (t != 0 and rng.chance(1, 4))
            starts = [rng.below(k) for _ in range(1 + rng.below(3))]
            if enq:
                ops.append([1, val] + starts)
                val += 1
            else:
                ops.append([2] + starts)
        threads.append(ops)
    return threads


def gen_sched(rng, nthreads, kind):
    if kind == 0:      # uniform
        return [rng.below(nthreads) for _ in range(20 + rng.below(160))]
    if kind == 1:      # bursty: long runs, few switches
        s = []
        for _ in range(2 + rng.below(8)):
            s += [rng.below(nthreads)] * (1 + rng.below(25))
        return s
    if kind == 2:
        # a victim runs to a chosen point (after the protect of the tail/head segment: 5 steps; after the load of a
        # cell: 6-9 steps; inside create_tail / remove_head: more), stalls while the others run long, then resumes
        victim = rng.below(nthreads)
        s = []
        if rng.chance(1, 2):     # somebody else fills / drains first
            s += [(victim + 1 + rng.below(nthreads - 1)) % nthreads] * (10 + rng.below(40))
        s += [victim] * (3 + rng.below(14))
        for _ in range(1 + rng.below(4)):
            o = (victim + 1 + rng.below(nthreads - 1)) % nthreads
            s += [o] * (8 + rng.below(40))
        s += [victim] * (1 + rng.below(12))
        s += [rng.below(nthreads) for _ in range(rng.below(40))]
        return s
    # kind 3: two victims stalled at (different) chosen points, a third party runs between them, then alternate
    v1 = rng.below(nthreads); v2 = (v1 + 1 + rng.below(nthreads - 1)) % nthreads
    s = []
    if rng.chance(1, 2):
        s += [rng.below(nthreads)] * (10 + rng.below(30))
    s += [v1] * (4 + rng.below(10)) + [v2] * (4 + rng.below(10))
    for _ in range(rng.below(3)):
        s += [rng.below(nthreads)] * (5 + rng.below(30))
    for _ in range(4 + rng.below(20)):
        s += [v1 if rng.chance(1, 2) else v2] * (1 + rng.below(3))
    return s


def gen_cases(ctx, n, tag="g", variants=(0, 0, 0, 0, 1, 2, 3)):
    rng = ctx.rng
    cases = []
    for i in range(n):
        arg = rng.choice([2, 2, 2, 2, 3, 4, 4, 5, 8])
        k = ceil2(arg)
        nthreads = 2 + rng.below(3)
        threads = gen_program(rng, nthreads, k, rng.below(3))
        sched = gen_sched(rng, nthreads, rng.below(4))
        cases.append({"id": "%s%d" % (tag, i), "cfg": [arg, rng.choice(list(variants)), 4000], "threads": threads, "sched": sched})
    return cases


# ---------------------------------------------------------------------------------------------------------------
# model-guided window schedules (lib/conc_windows.py) for the step-modelled variant: the victim is stalled right
# before a cell CAS (insert / mark) or before the exchange that takes the segment-list lock (or, "all", before any of
# its steps: between the two loads of a protect loop, between the scan of a segment and create_tail / remove_head),
# the actor runs exactly through one of its own CAS / exchange steps or to its end, optionally a third thread runs in
# between, then the victim gets r more steps.
# (constructor argument, set-up operations of thread 0, threads); "E2" = enqueue whose first probe starts at cell 2,
# "D0" = dequeue probing from cell 0, a second digit = start of the probe after create_tail / remove_head
WINDOW_TEMPLATES = [
    (2, "",               [["E0"], ["E0"], ["D0"]]),          # same cell: insert CAS fails; first segment created under the lock
    (2, "E0 E0",          [["E0"], ["E0"], ["D0"]]),          # full tail segment: both need create_tail, the loser takes the 'somebody else did it' branch
    (2, "E0 E0",          [["D0"], ["D0"], ["E0"]]),          # same cell: mark CAS fails
    (2, "E0 E0 D0 D0",    [["D0"], ["D0"], ["E0"]]),          # exhausted only segment: remove_head races, list becomes empty, enqueue re-creates
    (2, "E0 E0 E0 D0 D0", [["D0"], ["D0"], ["E1"]]),          # exhausted head of two segments: the loser of remove_head sees a new head
    (2, "E0 E0 E0 D0",    [["D0", "D0"], ["D1", "D0"], ["E1", "E0"]]),
    (2, "E0",             [["E1", "D0"], ["D1", "E0"]]),
    (3, "E0 E0 E0 E0",    [["E0"], ["E2"], ["D0", "D0"]]),    # quasi factor 4 (argument 3 rounded up)
    (2, "E0 E0 D0",       [["D0"], ["E0"], ["D1"]]),          # dequeue finds one marked + (soon) one empty / full cell
    (2, "E0 E0 D0 D0",    [["E0"], ["E0"], ["D0"]]),          # tail == exhausted head: create_tail against remove_head
]
WINDOW_KINDS = ("cas", "xchg")


def window_ops(txt, nv):
    ops = []
    for w in (txt.split() if isinstance(txt, str) else txt):
        starts = [int(ch) for ch in w[1:]]
        if w[0] == "E":
            ops.append([1, nv()] + starts)
        else:
            ops.append([2] + starts)
    return ops


def gen_window_cases(ctx, model, rng, quick):
    wdir = os.path.join(ctx.work, "wprobe")
    os.makedirs(wdir, exist_ok=True)
    cases = []
    info = {"templates": len(WINDOW_TEMPLATES), "enumerated": 0, "model_probes": 0}
    for ti, (arg, setup, tpl) in enumerate(WINDOW_TEMPLATES):
        cfg = [arg, 0, 4000]
        vals = [10]
        def nv():
            vals[0] += 1
            return vals[0]
        su = window_ops(setup, nv)
        ths = [window_ops(th, nv) for th in tpl]
        # (a) stalled before a write, actor through a write, third thread in between (thorough), r = 0..8
        threads, sw, inf = conc_windows.windows(model, wdir, cfg, ths, setup=su, kinds=WINDOW_KINDS, max_r=8,
                                                third=not quick and len(ths) > 2, tag="w%d" % ti)
        # (b) stalled before ANY step, actor through a write / to its end, few r
        _, sa, inf2 = conc_windows.windows(model, wdir, cfg, ths, setup=su, kinds=WINDOW_KINDS, stall="all",
                                           rs=(0, 3) if quick else (0, 1, 3, 6), tag="a%d" % ti)
        sa = [("a" + n, s) for (n, s) in sa]
        info["enumerated"] += len(sw) + len(sa)
        info["model_probes"] += inf["model_probes"] + inf2["model_probes"]
        if quick:
            sw = conc_windows.subsample(rng, sw, 26)
            sa = conc_windows.subsample(rng, sa, 12)
        for name, sched in sw + sa:
            cases.append({"id": "w%d_%s" % (ti, name), "cfg": cfg, "threads": threads, "sched": sched, "window": True})
    if not quick and len(cases) > 8000:
        # thorough tier: the full enumeration, up to a budget (a seeded subsample beyond it; 'enumerated' says how many there are)
        cases = conc_windows.subsample(rng, cases, 8000)
        info["thorough_budget"] = 8000
    info["cases"] = len(cases)
    return cases, info


def merge_stats(st, st2):
    for k in ("steps", "validated", "unfinished"):
        st[k] += st2[k]
    st["shapes"] |= st2["shapes"]; st["nontrivial"] |= st2["nontrivial"]
    for f in ("hist", "by_variant", "by_k"):
        for k, v in st2[f].items():
            st[f][k] = st[f].get(k, 0) + v


# ---------------------------------------------------------------------------------------------------------------
# the property's three statements on a logged history of the real code

MARK = re.compile(r"^(\d+) cas o\d+ 1 p(\d+)\.0 p(\d+)\.1$")


def monitor(case, ilog):
    """-> list of (kind, detail) failures.  Time = index of the line in the event log."""
    fails = []
    arg = case["cfg"][0]
    k = ceil2(arg)
    lines = ilog["lines"]
    inv_enq = {}; ret_enq = {}; deq_moment = {}; ret_deq = {}; empties = []
    cur_deq = {}       # thread -> (op id, inv index, index of its last successful mark CAS or None)
    for idx, l in enumerate(lines):
        t = l.split(" ")
        if len(t) >= 3 and t[1] == "ev":
            a = [int(x) for x in t[3:]]
            if t[2] == "inv_enq":
                inv_enq[(a[0], a[1], a[2])] = idx
            elif t[2] == "ret_enq":
                ret_enq[(a[0], a[1], a[2])] = idx
            elif t[2] == "inv_deq":
                cur_deq[int(t[0])] = [(a[0], a[1]), idx, None]
            elif t[2] == "ret_deq":
                d = cur_deq.pop(int(t[0]), [(a[0], a[1]), idx, None])
                if a[2] == 1:
                    x = (a[3], a[4], a[5])
                    if x not in inv_enq:
                        fails.append(("conservation", "dequeue %s returned item %s that was never enqueued (line %d)" % (d[0], x, idx)))
                    if x in ret_deq:
                        fails.append(("conservation", "item %s returned by two dequeues (lines %d and %d)" % (x, ret_deq[x], idx)))
                    ret_deq[x] = idx
                    deq_moment[x] = d[2] if d[2] is not None else idx
                else:
                    empties.append((d[0], d[1], idx))
        else:
            m = MARK.match(l)
            if m and m.group(2) == m.group(3) and int(m.group(1)) in cur_deq:
                cur_deq[int(m.group(1))][2] = idx
    finished = ilog["end"] == "finished"
    qf = size = None; drain = None
    for x in ilog["extra"]:
        w = x.split()
        if w[:2] == ["monitor", "qf"]:
            qf = int(w[2])
        elif w[:2] == ["monitor", "size"]:
            size = int(w[2])
        elif w[:2] == ["monitor", "drain"]:
            drain = [tuple(int(y) for y in z.split(":")) for z in w[2:]]
    if qf is not None and qf != k:
        fails.append(("quasi-factor", "quasi_factor() = %d for constructor argument %d, expected ceil2 = %d" % (qf, arg, k)))
    if finished and drain is not None:
        for x in drain:
            if x not in inv_enq:
                fails.append(("conservation", "drain returned item %s that was never enqueued" % (x,)))
            if x in ret_deq:
                fails.append(("conservation", "item %s returned by a dequeue (line %d) and again by the drain" % (x, ret_deq[x])))
        if len(set(drain)) != len(drain):
            fails.append(("conservation", "an item is drained twice: %s" % (drain,)))
        lost = [x for x in inv_enq if x not in ret_deq and x not in drain]
        if lost:
            fails.append(("conservation", "items enqueued but neither returned by a dequeue nor by the sequential drain after the run (whose last dequeue reported empty): %s" % (lost,)))
        if size is not None and size != len(drain):
            fails.append(("conservation", "size() = %d at the end of the run but %d items were left in the queue" % (size, len(drain))))
    INF = 10 ** 9
    # quasi bound: when x is dequeued, fewer than k items whose enqueue completed before x's enqueue began are still in
    for x, m in deq_moment.items():
        if x not in inv_enq:
            continue
        still = [y for y in ret_enq if y != x and ret_enq[y] < inv_enq[x] and deq_moment.get(y, INF) > m]
        if len(still) >= k:
            fails.append(("quasi-bound", "item %s dequeued at line %d while %d >= k=%d items enqueued before it began are still in the queue: %s" % (x, m, len(still), k, still[:8])))
    # empty meaning
    for d, i, j in empties:
        left = [y for y in ret_enq if ret_enq[y] < i and deq_moment.get(y, INF) > j]
        if left:
            fails.append(("empty-meaning", "dequeue %s (lines %d..%d) reported empty although %s, enqueued before it began, had not been dequeued" % (d, i, j, left[:8])))
    return fails


def histo(ilog):
    h = {"insert_cas": 0, "mark_cas": 0, "failed_cas": 0, "lock_acquired": 0, "lock_busy": 0, "deq_empty": 0, "deq_got": 0, "enq": 0}
    for l in ilog["lines"]:
        t = l.split(" ")
        if t[1] == "cas":
            if t[3] == "0":
                h["failed_cas"] += 1
            elif t[5].endswith(".1"):
                h["mark_cas"] += 1
            else:
                h["insert_cas"] += 1
        elif t[1] == "xchg":
            h["lock_acquired" if t[4] == "i0" else "lock_busy"] += 1
        elif t[1] == "ev":
            if t[2] == "ret_deq":
                h["deq_got" if len(t) > 5 and t[5] == "1" else "deq_empty"] += 1
            elif t[2] == "ret_enq":
                h["enq"] += 1
    return h


# ---------------------------------------------------------------------------------------------------------------

def run_batch(ctx, model, impl, cases, tag, keep_logs=False):
    """-> (stats, monitor failures [(case, fails, impl lines)], divergences [(case, d)])"""
    model_cases = [c for c in cases if c["cfg"][1] == 0]
    # the real code: the cases are split over several harness processes (each has its own scheduler)
    import subprocess
    nproc = max(1, min(8, vcheck.NCPU // 2, (len(cases) + 49) // 50))
    procs = []
    for j in range(nproc):
        cf = os.path.join(ctx.work, "%s_%d.txt" % (tag, j))
        conc_check.write_cases(cf, cases[j::nproc])
        procs.append(subprocess.Popen(["timeout", "900", impl, cf], stdout=subprocess.PIPE, stderr=subprocess.STDOUT, text=True, errors="replace"))
    ilog = {}; rc2 = 0
    for p in procs:
        out2, _ = p.communicate()
        rc2 = rc2 or p.returncode
        ilog.update(conc_check.parse_logs(out2))
    ctx.log("%s: real code ran %d cases in %d processes (rc %s)" % (tag, len(cases), nproc, rc2))
    mlog = {}
    if model is not None and model_cases:
        cfm = os.path.join(ctx.work, tag + "_m.txt")
        conc_check.write_cases(cfm, model_cases)
        rc1, out1 = vcheck.sh("%s %d < %s" % (model, 20000, cfm), timeout=900)
        mlog = conc_check.parse_logs(out1)
        ctx.log("%s: model ran %d cases" % (tag, len(model_cases)))
    st = {"steps": 0, "shapes": set(), "nontrivial": set(), "hist": {}, "by_variant": {}, "by_k": {}, "validated": 0, "unfinished": 0}
    bad = []; div = []
    for c in cases:
        i = ilog.get(c["id"])
        if i is None or i["end"] not in ("finished", "fuel"):
            div.append((c, {"index": -1, "model": "?", "impl": "<no output / crash: rc=%s>" % rc2, "prefix": []}))
            continue
        if i["end"] != "finished":
            st["unfinished"] += 1
        f = monitor(c, i)
        if f:
            bad.append((c, f, i["lines"]))
        h = histo(i)
        for k_, v in h.items():
            st["hist"][k_] = st["hist"].get(k_, 0) + v
        var = c["cfg"][1]
        st["by_variant"][var] = st["by_variant"].get(var, 0) + 1
        kk = ceil2(c["cfg"][0])
        st["by_k"]["arg%d_k%d" % (c["cfg"][0], kk)] = st["by_k"].get("arg%d_k%d" % (c["cfg"][0], kk), 0) + 1
        shape = hash(tuple(conc_check.norm_impl_line(x) for x in i["lines"]))
        st["shapes"].add((var, shape))
        if h["failed_cas"] > 0 or h["lock_busy"] > 0:
            st["nontrivial"].add((var, shape))
        if var == 0 and model is not None:
            m = mlog.get(c["id"])
            if m is None:
                div.append((c, {"index": -1, "model": "<no output>", "impl": "ok", "prefix": []}))
                continue
            st["steps"] += len(i["lines"])
            d = conc_check.compare(m, i)
            if d is not None:
                div.append((c, d))
            else:
                st["validated"] += 1
    if keep_logs:
        st["logs"] = ilog
    return st, bad, div


def report_monitor(ctx, bad):
    # report the smallest failing case (fewest operations, then shortest schedule)
    c, f, lines = min(bad, key=lambda b: (sum(len(th) for th in b[0]["threads"]), len(b[0]["sched"]), len(b[2])))
    kinds = sorted(set(x[0] for x in f))
    ctx.violation("SegmentedQueue (real code, %s) violates %s: %s" % (VARIANTS.get(c["cfg"][1], "?"), "/".join(kinds), f[0][1]),
                  {"case": c, "failures": [list(x) for x in f[:6]], "impl_log": lines})


def run(ctx):
    res = vcheck.coq_build(["Properties/Properties_C08.v"])
    ctx.coq_evidence(res)
    model = conc_check.build_model(ctx, "Extract_Segmented.v")
    impl = vcheck.cxx_build(os.path.join(vcheck.VERIF, "harness/C08/main.cpp"), os.path.join(ctx.work, "harness", "main"), hook=True)

    if ctx.replay:
        r = json.load(open(ctx.replay))
        c = r.get("case")
        if c is None:
            ctx.log("replay file carries no case (no-failing-input-found report)")
            return ctx.finish(vcheck.STD_TRUSTED)
        st, bad, div = run_batch(ctx, model, impl, [c], "replay")
        if bad:
            report_monitor(ctx, bad)
        elif div:
            ctx.violation("step correspondence between LV.Model.Segmented and cds/intrusive/segmented_queue.h fails on the replayed case",
                          {"case": c, "first_divergence": div[0][1]}, no_input=True)
        ctx.coverage.update({"evaluations": 1, "distinct_nontrivial": len(st["nontrivial"]), "rule": "replay of one case"})
        return ctx.finish(vcheck.STD_TRUSTED)

    n = 9000 if ctx.thorough() else 1500
    cases = []
    cdir = os.path.join(vcheck.VERIF, "corpus", "C08")
    for f in sorted(os.listdir(cdir)) if os.path.isdir(cdir) else []:
        if f.endswith(".json"):
            cases.append(json.load(open(os.path.join(cdir, f))))
    ncorpus = len(cases)
    cases += gen_cases(ctx, n)
    st, bad, div = run_batch(ctx, model, impl, cases, "cases")
    # model-guided window schedules (second batch; same comparison and monitor)
    t_w = os.times()
    wcases, winfo = gen_window_cases(ctx, model, ctx.rng.fork(), not ctx.thorough())
    st_w, bad_w, div_w = run_batch(ctx, model, impl, wcases, "windows", keep_logs=True)
    t_w2 = os.times()
    winfo["cpu_s"] = round((t_w2.user + t_w2.system + t_w2.children_user + t_w2.children_system) - (t_w.user + t_w.system + t_w.children_user + t_w.children_system), 1)
    wstats = conc_windows.RetryStats(outcome=lambda name, a: (a[2] if name == "deq" and len(a) > 2 else ""))
    for c in wcases:
        i = st_w["logs"].get(c["id"])
        if i is not None:
            wstats.add(i["lines"], (c["cfg"][0], tuple(tuple(o[1:] if o[0] == 2 else o[2:]) for th in c["threads"] for o in th)))
    winfo.update(wstats.summary())
    winfo["lock_busy"] = st_w["hist"].get("lock_busy", 0)
    winfo["validated_against_impl"] = st_w["validated"]
    winfo["rejected_by_monitor"] = len(bad_w); winfo["diverged_from_model"] = len(div_w)
    if bad_w or div_w or bad or div:
        ctx.log("rejected by the monitor: %d of %d window cases, %d of %d other cases; diverged from the model: %d window cases, %d other cases" % (
            len(bad_w), len(wcases), len(bad), len(cases), len(div_w), len(div)))
    ctx.log("window schedules: %d cases (%d enumerated), %d with a failed CAS, %d found the lock taken, cpu %.1fs" % (
        len(wcases), winfo["enumerated"], winfo["cases_with_failed_cas"], winfo["lock_busy"], winfo["cpu_s"]))
    merge_stats(st, st_w); bad += bad_w; div += div_w; cases += wcases
    if bad:
        report_monitor(ctx, bad)
    elif div:
        # the correspondence broke: look for a failure of the property itself over an enlarged seed set
        more = gen_cases(ctx, 2 * n, tag="s")
        st2, bad2, _ = run_batch(ctx, None, impl, more, "search")
        if bad2:
            report_monitor(ctx, bad2)
        else:
            c, d = div[0]
            ctx.violation("step correspondence between LV.Model.Segmented and cds/intrusive/segmented_queue.h no longer holds",
                          {"correspondence": "Model/Segmented.v vs cds::intrusive::SegmentedQueue<cds::gc::HP> (enqueue, do_dequeue, segment_list)",
                           "case": c, "first_divergence": d, "diverging_cases": len(div), "monitor_cases_searched": len(cases) + len(more)}, no_input=True)
    if ctx.thorough() and res.ok:
        rc, out = vcheck.coqchk("LV.Properties.Properties_C08")
        ctx.coverage["coqchk"] = "ok: " + " ".join(out.split())[:300] if rc == 0 else "FAILED"
        if rc != 0:
            ctx.violation("coqchk rejects LV.Properties.Properties_C08", {"theorem": "Properties_C08", "coqchk": out[-1500:]}, no_input=True)
    if not res.ok:
        ctx.violation("Coq obligations of C08 do not check: %s" % (res.failed[:2],), {"theorem": [f[2] for f in res.failed], "errors": res.failed[:3]}, no_input=True)
    nmodel = sum(1 for c in cases if c["cfg"][1] == 0)
    ctx.coverage.update({
        "evaluations": len(cases), "distinct_nontrivial": len(st["nontrivial"]),
        "rule": "program x schedule pairs (2-4 threads, 1-4 enq/deq ops each, distinct values, constructor arguments 2,3,4,5,8; "
                "uniform, bursty, one-victim-stalled and two-victims-stalled schedules from one splitmix64 stream) plus model-guided window schedules on templates with a set-up prefix (full / exhausted segments; see window_schedules); distinct = distinct "
                "(variant, event log); non-trivial = at least one failed CAS on a cell or one exchange that found the segment-list lock taken",
        "distinct_event_logs": len(st["shapes"]), "impl_steps_compared": st["steps"], "diverged": len(div), "corpus_cases": ncorpus,
        "traces_validated_against_impl": st["validated"], "model_cases": nmodel, "monitor_cases": len(cases), "monitor_failures": len(bad),
        "unfinished_cases": st["unfinished"],
        "window_schedules": winfo,
        "histogram": st["hist"], "cases_by_variant": {VARIANTS[k]: v for k, v in sorted(st["by_variant"].items())}, "cases_by_quasi_factor": st["by_k"],
        "samples": cases[ncorpus:ncorpus + 2] if len(cases) > ncorpus else cases[:1],
        "modelled": "cds::intrusive::SegmentedQueue<gc::HP>: enqueue, dequeue/do_dequeue, segment_list::{head,tail,create_tail,remove_head}, HP guard traffic, item counter, spin lock",
    })
    return ctx.finish(vcheck.STD_TRUSTED + ["hook layer: khizmax_libcds_verif::atomic<T>, baton scheduler, event log (hooks/include)", "ocaml/conc_main.ml event printer",
                                            "harness/C08 det_permutation: random2_permutation<int> with reset() fed from the case"],
                      ["sequential consistency: memory_order arguments are not modelled", "compare_exchange_weak never fails spuriously under the hook",
                       "smr_safe: segments are never recycled while reachable (never-reusing allocator in the model; HP retired capacity never reached in a case)",
                       "variants 1-3 (DHP, container wrapper) are covered by the history monitor only"])
