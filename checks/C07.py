"""C07 — bounded Vyukov queue is a linearizable bounded FIFO (DESIGN 7, C07).

1. Coq: Properties/Properties_C07.v (invariants and linearizability of LV.Model.Vyukov for every schedule).
2. Step correspondence LV.Model.Vyukov <-> cds::container::VyukovMPMCCycleQueue / cds::intrusive::VyukovMPMCCycleQueue
   (harness/C07/main.cpp), values read/written by every atomic access included.
3. Implementation-side monitor (failing-input search): the history of every implementation run must be
   linearizable w.r.t. the bounded FIFO of the configured capacity, the items drained at quiescence included."""
import os, json
import vcheck, conc_check, conc_windows

CAPS = [2, 4, 8]

# ------------------------------------------------------------------------------------------------------------
# log handling: the instrumented atomics print "<tid> <kind> o<id> <ok> i<read> i<written>"; the model prints
# "<tid> <kind> o<id> <ok>" followed by "<tid> ev val <read> <written>"

def ocaml_int(v):
    """ocaml/conc_main.ml prints Z values through OCaml's 63-bit int: reduce the same way"""
    v %= 1 << 63
    return v - (1 << 63) if v >= (1 << 62) else v


def expand_impl(lines):
    out = []
    for l in lines:
        t = l.split(" ")
        if len(t) >= 2 and t[1] in ("ev", "begin"):
            out.append(l)
            continue
        out.append(" ".join(t[:4]))
        if len(t) >= 6 and t[4].startswith("i") and t[5].startswith("i"):
            out.append("%s ev val %d %d" % (t[0], ocaml_int(int(t[4][1:])), ocaml_int(int(t[5][1:]))))
    return out


def compare(mlog, ilog):
    m = mlog["lines"]
    i = expand_impl(ilog["lines"])
    n = min(len(m), len(i))
    for k in range(n):
        if m[k] != i[k]:
            return {"index": k, "model": m[k], "impl": i[k], "prefix": m[max(0, k - 14):k]}
    if len(m) != len(i):
        if mlog["end"] == "fuel" or ilog["end"] == "fuel":
            return None
        return {"index": n, "model": m[n] if n < len(m) else "<end>", "impl": i[n] if n < len(i) else "<end>", "prefix": m[max(0, n - 14):n]}
    return None


# ------------------------------------------------------------------------------------------------------------
# history extraction and bounded-FIFO linearizability (Wing & Gong search with memoisation)

def history_of(lines, drain=None):
    """-> list of operations {tid, kind, arg, inv (index), res (index or None), ret}.
    empty()/size() are not part of the specification checked here."""
    ops = []
    open_op = {}
    k = 0
    for l in lines:
        t = l.split(" ")
        if len(t) < 3 or t[1] != "ev":
            continue
        tid, name, args = int(t[0]), t[2], [int(x) for x in t[3:]]
        if name in ("inv_enq", "inv_deq", "inv_front", "inv_pop"):
            o = {"tid": tid, "kind": name[4:], "arg": args[0] if args else None, "inv": k, "res": None, "ret": None}
            ops.append(o)
            open_op[tid] = o
            k += 1
        elif name in ("ret_enq", "ret_deq", "ret_front", "ret_pop"):
            o = open_op.pop(tid, None)
            if o is not None:
                o["res"] = k
                o["ret"] = tuple(args)
                k += 1
    if drain is not None:
        for v in drain:
            ops.append({"tid": -1, "kind": "deq", "arg": None, "inv": k, "res": k + 1, "ret": (1, v)})
            k += 2
        ops.append({"tid": -1, "kind": "deq", "arg": None, "inv": k, "res": k + 1, "ret": (0, 0)})
    return ops


def spec_step(q, cap, o):
    """bounded FIFO with front/pop_front -> (new state, result tuple)"""
    k = o["kind"]
    if k == "enq":
        if len(q) < cap:
            return q + (o["arg"],), (1,)
        return q, (0,)
    if k == "deq":
        if q:
            return q[1:], (1, q[0])
        return q, (0, 0)
    if k == "front":
        if q:
            return q, (1, q[0])
        return q, (0, 0)
    if k == "pop":
        if q:
            return q[1:], (1,)
        return q, (0,)
    raise ValueError(k)


def linearizable(ops, cap, budget=400000):
    """True / False / None (undecided: budget exhausted)"""
    n = len(ops)
    if n == 0:
        return True
    full = (1 << n) - 1
    completed_mask = 0
    for i, o in enumerate(ops):
        if o["res"] is not None:
            completed_mask |= 1 << i
    seen = set()
    count = [0]
    stack = [(0, ())]
    while stack:
        done, q = stack.pop()
        if (done & completed_mask) == completed_mask:
            return True
        if (done, q) in seen:
            continue
        seen.add((done, q))
        count[0] += 1
        if count[0] > budget:
            return None
        # earliest response among operations not yet linearized
        first_res = None
        for i in range(n):
            if not (done >> i) & 1 and ops[i]["res"] is not None:
                if first_res is None or ops[i]["res"] < first_res:
                    first_res = ops[i]["res"]
        for i in range(n):
            if (done >> i) & 1:
                continue
            o = ops[i]
            if first_res is not None and o["inv"] > first_res:
                continue    # some unlinearized operation returned before o was invoked
            q2, r = spec_step(q, cap, o)
            if o["res"] is not None and r != o["ret"]:
                continue
            stack.append((done | (1 << i), q2))
    return False


# ------------------------------------------------------------------------------------------------------------
# generators

def rand_sched(rng, nthreads, kind, length):
    if kind == 0:
        return [rng.below(nthreads) for _ in range(length)]
    if kind == 1:      # bursts
        s = []
        while len(s) < length:
            s += [rng.below(nthreads)] * (1 + rng.below(9))
        return s[:length]
    # run one thread a few steps (into the window between its position CAS and its publish), then the others
    first = rng.below(nthreads)
    s = [first] * (3 + rng.below(6))
    others = [t for t in range(nthreads) if t != first] or [first]
    while len(s) < length:
        s += [rng.choice(others)] * (1 + rng.below(12))
        if rng.chance(1, 4):
            s += [first] * (1 + rng.below(3))
    return s[:length]


def gen_case(rng, i):
    cap = rng.choice(CAPS)
    variant = rng.choice([0, 0, 1, 2])
    if variant == 1:
        cap = 4
    counter = 1 if rng.chance(1, 4) else 0
    shape = rng.below(6)
    threads = []
    vals = [0]

    def nv():
        vals[0] += 1
        return vals[0] if rng.chance(3, 4) else 1 + rng.below(3)    # mostly distinct values, some duplicates
    if shape == 0:        # wrap the ring >= 3 times: producers and consumers of 3*cap+ items
        total = 3 * cap + 1 + rng.below(cap)
        np_ = 1 + rng.below(2)
        nc = 1 + rng.below(2)
        for p in range(np_):
            threads.append([[1, nv()] for _ in range((total + np_ - 1) // np_)])
        for c in range(nc):
            threads.append([[2] for _ in range((total + nc - 1) // nc + rng.below(2))])
    elif shape == 1:      # full boundary: more enqueues than capacity, few dequeues
        nt = 2 + rng.below(2)
        for t in range(nt):
            ops = [[1, nv()] for _ in range(1 + rng.below(cap + 1))]
            if rng.chance(1, 2):
                ops.insert(rng.below(len(ops) + 1), [2])
            threads.append(ops)
    elif shape == 2:      # empty boundary: more dequeues than enqueues
        nt = 2 + rng.below(2)
        for t in range(nt):
            ops = [[2] for _ in range(1 + rng.below(3))]
            if rng.chance(2, 3):
                ops.insert(rng.below(len(ops) + 1), [1, nv()])
            threads.append(ops)
    elif shape == 3 and variant != 2:   # single consumer using front/pop_front, producers on the other threads
        nprod = 1 + rng.below(2)
        for p in range(nprod):
            threads.append([[1, nv()] for _ in range(1 + rng.below(cap + 2))])
        cons = []
        for _ in range(2 + rng.below(2 * cap + 2)):
            cons.append(rng.choice([[3], [4], [3], [4], [2]]))
        threads.append(cons)
    else:                 # mixed
        nt = 2 + rng.below(3)
        for t in range(nt):
            ops = []
            for _ in range(1 + rng.below(5)):
                r = rng.below(10)
                if r < 5:
                    ops.append([1, nv()])
                elif r < 9:
                    ops.append([2])
                elif counter:
                    ops.append([6])
                else:
                    ops.append([5])
            threads.append(ops)
    nthreads = len(threads)
    nops = sum(len(t) for t in threads)
    sched = rand_sched(rng, nthreads, rng.below(3), 6 * nops + rng.below(40))
    return {"id": "g%d" % i, "cfg": [cap, variant, counter, 4000], "threads": threads, "sched": sched, "shape": shape}


def steps_of(lines):
    """thread id of every scheduled step (begin and atomic accesses) of a model/impl log"""
    out = []
    for l in lines:
        t = l.split(" ")
        if len(t) >= 2 and t[1] != "ev":
            out.append((int(t[0]), t[1], t[2] if len(t) > 2 else "", t[3] if len(t) > 3 else ""))
    return out


def stall_variants(rng, case, lines, n):
    """cases that replay the run up to a successful position CAS of some thread, then keep that thread off the
    processor (stalled between the CAS and the sequence publish) while the others run"""
    st = steps_of(lines)
    cas = [k for k, s in enumerate(st) if s[1] == "cas" and s[3] == "1"]
    out = []
    nthreads = len(case["threads"])
    for j in range(n):
        if not cas or nthreads < 2:
            break
        k = rng.choice(cas)
        victim = st[k][0]
        others = [t for t in range(nthreads) if t != victim]
        s = [x[0] for x in st[:k + 1]]
        stall = 10 + rng.below(60)
        for _ in range(stall):
            s.append(rng.choice(others))
        c = dict(case)
        c["id"] = "%ss%d" % (case["id"], j)
        c["sched"] = s
        c["stall"] = True
        out.append(c)
    return out


# ------------------------------------------------------------------------------------------------------------
# model-guided window schedules (lib/conc_windows.py): the victim is stalled right before its position CAS or its
# sequence publish (a plain store), the actor runs exactly through one of its own CAS / publish steps (or to its end),
# optionally a third thread runs through one of its writes in between, then the victim gets r more steps.
# (set-up operations of thread 0, threads): E = enqueue of a fresh value, D = dequeue, F = front, P = pop_front,
# Y = empty(); every template is run at the capacity given (2: the full / empty boundaries are one operation away)
WINDOW_TEMPLATES = [
    # (capacity, set-up, threads, third-thread schedules too)
    (2, "",   [["E"], ["E"], ["D"]], True),          # two producers race for cell 0, consumer sees claimed-but-unpublished cell
    (2, "E",  [["E"], ["E"], ["D"]], True),          # two producers race for the LAST free cell (loser must re-validate: full)
    (2, "E",  [["D"], ["D"], ["E"]], True),          # two consumers race for the only item (loser must re-validate: empty)
    (2, "EE", [["D"], ["D"], ["E"]], True),          # full queue: the producer waits for / sees a claimed-but-unreleased cell
    (2, "EE", [["E"], ["D"], ["E"]], False),         # enqueue on full racing with the dequeue that makes room
    (2, "",   [["D"], ["E"], ["D"]], False),         # dequeue on empty racing with the enqueue
    (2, "E",  [["E", "D"], ["D", "E"]], False),      # ring wrap with two threads, windows in the second operations too
    (4, "EEE", [["E"], ["E"], ["D", "D"]], False),   # capacity 4 (static buffer variant), last free cell
    (2, "E",  [["F", "P"], ["E"], ["E"]], False),    # single consumer front / pop_front against two producers (container only)
    (2, "EE", [["D", "E"], ["E"], ["Y"]], False),
]
WINDOW_KINDS = ("cas", "st")


def window_ops(tpl_ops, nv):
    ops = []
    for o in tpl_ops:
        if o == "E":
            ops.append([1, nv()])
        else:
            ops.append([{"D": 2, "F": 3, "P": 4, "Y": 5}[o]])
    return ops


def gen_window_cases(ctx, model, rng, quick):
    """every template x variant (container dynamic / static-4 / intrusive) x item counter; the quick tier keeps a
    seed-chosen variant per template and a deterministic subsample of its schedules"""
    wdir = os.path.join(ctx.work, "wprobe")
    os.makedirs(wdir, exist_ok=True)
    cases = []
    info = {"templates": len(WINDOW_TEMPLATES), "enumerated": 0, "model_probes": 0}
    per_tpl = 70 if quick else None
    for ti, (cap, setup, tpl, third) in enumerate(WINDOW_TEMPLATES):
        combos = []
        for variant in (0, 1, 2):
            if variant == 1 and cap != 4:
                continue
            if variant == 2 and any(o in "FP" for th in tpl for o in th):
                continue
            for counter in (0, 1):
                combos.append((variant, counter))
        if quick:
            combos = [combos[(ctx.seed + ti) % len(combos)]]
        for (variant, counter) in combos:
            cfg = [cap, variant, counter, 4000]
            vals = [10]
            def nv():
                vals[0] += 1
                return vals[0]
            su = window_ops(setup, nv)
            ths = [window_ops(th, nv) for th in tpl]
            tag = "w%d_%d%d" % (ti, variant, counter)
            threads, scheds, inf = conc_windows.windows(model, wdir, cfg, ths, setup=su, kinds=WINDOW_KINDS, max_r=8,
                                                        third=third and not quick, tag=tag)
            info["enumerated"] += len(scheds)
            info["model_probes"] += inf["model_probes"]
            for name, sched in conc_windows.subsample(rng, scheds, per_tpl):
                cases.append({"id": "%s_%s" % (tag, name), "cfg": cfg, "threads": threads, "sched": sched, "shape": "window", "window": True})
    if not quick and len(cases) > 6000:
        # thorough tier: the full enumeration, up to a budget (a seeded subsample beyond it; 'enumerated' says how many there are)
        cases = conc_windows.subsample(rng, cases, 6000)
        info["thorough_budget"] = 6000
    info["cases"] = len(cases)
    return cases, info


def drain_of(ilog):
    for x in ilog["extra"]:
        if x.startswith("monitor drain"):
            return [int(v) for v in x.split()[2:]]
    return None


def monitor(case, ilog):
    """-> None if the implementation history is fine, else a description"""
    cap = case["cfg"][0]
    finished = ilog["end"] == "finished" and not any(" ev outoffuel" in l for l in ilog["lines"])
    ops = history_of(ilog["lines"], drain_of(ilog) if finished else None)
    if len(ops) > 40:
        return None
    r = linearizable(ops, cap)
    if r is False:
        return {"history": [{k: o[k] for k in ("tid", "kind", "arg", "ret", "inv", "res")} for o in ops], "capacity": cap}
    return None


def run_impl(ctx, impl, cases, tag, max_hangs=4):
    """run the harness over the cases; a hanging case ends the process ("endcase hang") and a crash of the code
    under test kills it: the case is recorded ("hang" / "crash") and the rest is re-run"""
    ilog = {}
    rest = list(cases)
    bad = 0
    while rest:
        cf = os.path.join(ctx.work, tag + "_impl.txt")
        conc_check.write_cases(cf, rest)
        rc, out = vcheck.sh([impl, cf], timeout=900)
        il = conc_check.parse_logs(out)
        done = 0
        for k, c in enumerate(rest):
            e = il.get(c["id"])
            if e is not None and e["end"] is not None:
                ilog[c["id"]] = e
                done = k + 1
        last = ilog.get(rest[done - 1]["id"]) if done > 0 else None
        if last is not None and last["end"] == "hang":
            bad += 1
        elif done < len(rest):
            # the process died inside case rest[done] (abort / segmentation fault / timeout of the whole run)
            c = rest[done]
            part = il.get(c["id"])
            ilog[c["id"]] = {"lines": part["lines"] if part else [], "end": "crash", "extra": [], "rc": rc, "output_tail": out[-600:]}
            done += 1
            bad += 1
        if bad >= max_hangs:
            break
        rest = rest[done:]
    return ilog


def run_batch(ctx, model, impl, cases, tag):
    cf = os.path.join(ctx.work, tag + ".txt")
    conc_check.write_cases(cf, cases)
    rc1, out1 = vcheck.sh("%s %d < %s" % (model, 20000, cf), timeout=900)
    return conc_check.parse_logs(out1), run_impl(ctx, impl, cases, tag)


WHAT_LIN = "history of the real VyukovMPMCCycleQueue is not linearizable to a bounded FIFO of the configured capacity (bounded-FIFO linearizability monitor on the implementation log, items drained at quiescence included)"
WHAT_CRASH = "the harness process running the real VyukovMPMCCycleQueue died (abort / fault) on this program and schedule"
WHAT_HANG = "an operation of the real VyukovMPMCCycleQueue does not return within 20000 scheduled steps of a fair (round-robin) schedule; the model terminates on the same program and schedule"


def impl_bad(case, i, m=None):
    """implementation-side oracle -> None | (what, details)"""
    if i is None:
        return None
    bad = monitor(case, i)
    if bad is not None:
        return (WHAT_LIN, bad)
    if i["end"] == "crash":
        return (WHAT_CRASH, {"exit_status": i.get("rc"), "output_tail": i.get("output_tail")})
    if i["end"] in ("hang", "fuel") and (m is None or m["end"] == "finished"):
        return (WHAT_HANG, {"impl_end": i["end"], "pending": [l for l in i["lines"] if " ev inv_" in l][-4:]})
    return None


def minimise(ctx, impl, case, tag, what):
    """greedy: drop operations / shorten the schedule while the oracle still rejects the implementation run"""
    best = case
    budget = 6 if what in (WHAT_HANG, WHAT_CRASH) else 25
    improved = True
    while improved and budget > 0:
        improved = False
        cands = []
        for ti, th in enumerate(best["threads"]):
            for oi in range(len(th)):
                c = json.loads(json.dumps(best))
                del c["threads"][ti][oi]
                if all(len(t) == 0 for t in c["threads"]):
                    continue
                cands.append(c)
        if len(best["sched"]) > 4:
            c = json.loads(json.dumps(best)); c["sched"] = c["sched"][:len(c["sched"]) // 2]; cands.append(c)
        for k, c in enumerate(cands):
            c["id"] = "m%d" % k
        if not cands:
            break
        budget -= 1
        # candidates one batch at a time; a hanging candidate ends the batch: run_impl resumes after it
        il = run_impl(ctx, impl, cands, tag + "_min", max_hangs=3)
        for c in cands:
            b = impl_bad(c, il.get(c["id"]))
            if b is not None and b[0] == what:
                best = c
                improved = True
                break
    return best


def report(ctx, model, impl, case, bad, extra=None):
    what, det = bad
    cm = minimise(ctx, impl, case, "min", what)
    ml, il = run_batch(ctx, model, impl, [dict(cm, id="min")], "minrun")
    im = il.get("min"); mm = ml.get("min")
    b2 = impl_bad(cm, im, mm)
    obj = {"case": {k: cm[k] for k in ("cfg", "threads", "sched")}, "impl_log": im["lines"] if im else None,
           "observed": b2[1] if b2 else det, "model_log_same_case": mm["lines"] if mm else None,
           "first_divergence_model_vs_impl": compare(mm, im) if (mm and im) else None,
           "unminimised_case": {k: case[k] for k in ("cfg", "threads", "sched")}, "unminimised_case_id": case.get("id")}
    if extra:
        obj.update(extra)
    ctx.violation(what, obj)


def run(ctx):
    res = vcheck.coq_build(["Properties/Properties_C07.v"])
    ctx.coq_evidence(res)
    model = conc_check.build_model(ctx, "Extract_Vyukov.v")
    impl = vcheck.cxx_build(os.path.join(vcheck.VERIF, "harness/C07/main.cpp"), os.path.join(ctx.work, "harness"), hook=True, link_cds=False)
    trusted = vcheck.STD_TRUSTED + ["hook layer: khizmax_libcds_verif::atomic<T>, baton scheduler, event log (hooks/include)", "ocaml/conc_main.ml event printer",
                                    "checks/C07.py: log normalisation and the Python bounded-FIFO linearizability monitor (failing-input search only)"]
    assumptions = ["sequential consistency: memory_order arguments are not modelled", "compare_exchange_weak never fails spuriously under the hook",
                   "back-off (cds::backoff::empty in the harness traits) is not a scheduling point",
                   "capacity is a power of two >= 2 (asserted by the constructor only without NDEBUG)",
                   "fewer than 2^62 - capacity successful enqueue claims (position counters do not wrap)"]

    if ctx.replay:
        rp = json.load(open(ctx.replay))
        c = rp.get("case")
        if c is None:
            ctx.log("replay file carries no case"); return ctx.finish(trusted, assumptions)
        c["id"] = "replay"
        mlog, ilog = run_batch(ctx, model, impl, [c], "replay")
        i = ilog.get("replay"); m = mlog.get("replay")
        bad = impl_bad(c, i, m)
        d = compare(m, i) if (m and i) else {"index": -1}
        ctx.log("replay: oracle %s, correspondence %s" % ("REJECTS (%s)" % bad[0][:60] if bad else "accepts", "DIVERGES at %s" % d["index"] if d else "agrees"))
        if bad:
            ctx.violation(bad[0] + " (replay)", {"case": c, "impl_log": i["lines"], "observed": bad[1]})
        elif d:
            ctx.violation("step correspondence LV.Model.Vyukov / vyukov_mpmc_cycle_queue.h diverges (replay)", {"case": c, "first_divergence": d}, no_input=True)
        return ctx.finish(trusted, assumptions)

    n = 2500 if ctx.thorough() else 500
    nstall = 2 if ctx.thorough() else 1
    cases = []
    cdir = os.path.join(vcheck.VERIF, "corpus", "C07")
    for f in sorted(os.listdir(cdir)) if os.path.isdir(cdir) else []:
        if f.endswith(".json"):
            c = json.load(open(os.path.join(cdir, f)))
            c = c.get("case", c)
            c["id"] = "c" + f[:-5].replace(" ", "_")
            cases.append(c)
    ncorpus = len(cases)
    cases += [gen_case(ctx.rng, i) for i in range(n)]
    mlog, ilog = run_batch(ctx, model, impl, cases, "cases")
    # second pass: stall a thread between its position CAS and its publish (positions taken from the first pass)
    stalls = []
    for c in cases[ncorpus:]:
        m = mlog.get(c["id"])
        if m is not None:
            stalls += stall_variants(ctx.rng, c, m["lines"], nstall)
    mlog2, ilog2 = run_batch(ctx, model, impl, stalls, "stalls")
    mlog.update(mlog2); ilog.update(ilog2)
    cases += stalls
    # third pass: model-guided window schedules (victim stalled before its CAS / publish, actor through one write)
    t_w = os.times()
    wcases, winfo = gen_window_cases(ctx, model, ctx.rng.fork(), not ctx.thorough())
    mlog3, ilog3 = run_batch(ctx, model, impl, wcases, "windows")
    mlog.update(mlog3); ilog.update(ilog3)
    cases += wcases
    t_w2 = os.times()
    winfo["cpu_s"] = round((t_w2.user + t_w2.system + t_w2.children_user + t_w2.children_system) - (t_w.user + t_w.system + t_w.children_user + t_w.children_system), 1)
    wstats = conc_windows.RetryStats()
    for c in wcases:
        if ilog.get(c["id"]) is not None:
            wstats.add(ilog[c["id"]]["lines"], tuple(c["cfg"][:3]))
    winfo.update(wstats.summary())
    ctx.log("window schedules: %d cases (%d enumerated), %d with a failed CAS, %d with an operation on a retry path, cpu %.1fs" % (
        len(wcases), winfo["enumerated"], winfo["cases_with_failed_cas"], winfo["cases_with_retry_path"], winfo["cpu_s"]))

    shapes = set(); nontrivial = set(); diverged = 0; steps = 0; first_div = None; nbad = 0; not_run = 0
    hist = {"enq_ok": 0, "enq_full": 0, "deq_ok": 0, "deq_empty": 0, "front_ok": 0, "front_empty": 0, "pop_ok": 0, "pop_empty": 0,
            "cas_failed": 0, "wrapped_ge3": 0, "stall_cases": len(stalls), "model_fuel": 0, "impl_fuel_or_hang": 0,
            "by_capacity": {}, "by_variant": {}, "with_counter": 0, "histories_checked": 0}
    for c in cases:
        m = mlog.get(c["id"]); i = ilog.get(c["id"])
        if i is None and m is not None:
            not_run += 1        # harness stopped after repeated hangs
            continue
        if m is None or i is None:
            diverged += 1
            first_div = first_div or (c, {"index": -1, "model": "<no output>" if m is None else "ok", "impl": "<no output>" if i is None else "ok", "prefix": []})
            continue
        steps += len(i["lines"])
        d = compare(m, i)
        key = hash((tuple(c["cfg"][:3]), tuple(m["lines"])))
        shapes.add(key)
        cap = c["cfg"][0]
        hist["by_capacity"][cap] = hist["by_capacity"].get(cap, 0) + 1
        hist["by_variant"][c["cfg"][1]] = hist["by_variant"].get(c["cfg"][1], 0) + 1
        hist["with_counter"] += c["cfg"][2]
        nenq = 0; nt = False
        if m["end"] != "finished":
            hist["model_fuel"] += 1
        if i["end"] != "finished":
            hist["impl_fuel_or_hang"] += 1
        for l in m["lines"]:
            if " ev ret_enq 1" in l: hist["enq_ok"] += 1; nenq += 1
            elif " ev ret_enq 0" in l: hist["enq_full"] += 1; nt = True
            elif " ev ret_deq 1" in l: hist["deq_ok"] += 1
            elif " ev ret_deq 0" in l: hist["deq_empty"] += 1; nt = True
            elif " ev ret_front 1" in l: hist["front_ok"] += 1
            elif " ev ret_front 0" in l: hist["front_empty"] += 1
            elif " ev ret_pop 1" in l: hist["pop_ok"] += 1
            elif " ev ret_pop 0" in l: hist["pop_empty"] += 1
            else:
                t = l.split(" ")
                if len(t) == 4 and t[1] == "cas" and t[3] == "0":
                    hist["cas_failed"] += 1; nt = True
        if nenq >= 3 * cap:
            hist["wrapped_ge3"] += 1; nt = True
        if c.get("stall") or c.get("window"):
            nt = True
        if nt:
            nontrivial.add(key)
        bad = impl_bad(c, i, m)
        hist["histories_checked"] += 1
        if c.get("window"):
            winfo["rejected_by_oracle"] = winfo.get("rejected_by_oracle", 0) + (1 if bad is not None else 0)
            winfo["diverged_from_model"] = winfo.get("diverged_from_model", 0) + (1 if d is not None else 0)
        if bad is not None:
            nbad += 1
            if bad[0] not in getattr(ctx, "what_count", {}):
                report(ctx, model, impl, c, bad)
        if d is not None:
            diverged += 1
            if first_div is None:
                first_div = (c, d)
    if first_div is not None and nbad == 0:
        c, d = first_div
        # the correspondence broke: search for a failing implementation run over more seeds
        found = False
        rounds = 6 if ctx.thorough() else 3
        for r in range(rounds):
            more = [gen_case(ctx.rng, 100000 + r * 2000 + k) for k in range(1200)]
            il = run_impl(ctx, impl, more, "search")
            extra = []
            for c2 in more:
                i2 = il.get(c2["id"])
                bad = impl_bad(c2, i2)
                if bad is not None:
                    report(ctx, model, impl, c2, bad, {"correspondence_first_divergence": d, "correspondence_case": {k: c[k] for k in ("cfg", "threads", "sched")}})
                    found = True
                    break
                if i2 is not None and len(extra) < 1200:
                    extra += stall_variants(ctx.rng, c2, i2["lines"], 1)
            if not found and extra:
                il = run_impl(ctx, impl, extra, "search2")
                for c2 in extra:
                    bad = impl_bad(c2, il.get(c2["id"]))
                    if bad is not None:
                        report(ctx, model, impl, c2, bad, {"correspondence_first_divergence": d, "correspondence_case": {k: c[k] for k in ("cfg", "threads", "sched")}})
                        found = True
                        break
            if found:
                break
        if not found:
            ctx.violation("step correspondence between LV.Model.Vyukov and cds/container/vyukov_mpmc_cycle_queue.h no longer holds",
                          {"correspondence": "Model/Vyukov.v vs cds::container::VyukovMPMCCycleQueue / cds::intrusive::VyukovMPMCCycleQueue",
                           "case": {k: c[k] for k in ("cfg", "threads", "sched")}, "first_divergence": d}, no_input=True)
    if not res.ok:
        ctx.violation("Coq obligations of C07 do not check: %s" % (res.failed[:2],), {"theorem": [f[2] for f in res.failed], "errors": res.failed[:3]}, no_input=True)
    # counter wrap-around: the real queue started a few positions before 2^62 / 2^63 / 2^64 against LV.Model.VyukovWrap
    try:
        import C07_wrap
        ctx.coverage["counter_wrap"] = C07_wrap.run_wrap(ctx, build_coq=False)
    except vcheck.BuildError as e:
        ctx.coverage["counter_wrap"] = {"build_failure": str(e)[-1500:]}
        ctx.violation("harness/C07/wrap_main.cpp does not build against the working tree: the counter wrap-around part cannot be checked",
                      {"kind": "build-failure", "harness": "wrap_main", "error": str(e)[-2000:]}, no_input=True)
    if winfo.get("rejected_by_oracle") or winfo.get("diverged_from_model"):
        ctx.log("window schedules: %d rejected by the implementation-side oracle, %d diverged from the model" % (winfo.get("rejected_by_oracle", 0), winfo.get("diverged_from_model", 0)))
    ctx.coverage.update({
        "evaluations": len(cases) - not_run, "distinct_nontrivial": len(nontrivial),
        "rule": "program x schedule pairs: capacities 2/4/8; container (dynamic, static-4 buffers) and intrusive variants; item counter on/off; shapes: ring wrapped >= 3 times, full boundary, empty boundary, single consumer with front/pop_front, mixed; schedules uniform / bursty / run-then-switch plus a second pass that replays a run up to a successful position CAS and then stalls that thread before its sequence publish, plus a third pass of model-guided window schedules (lib/conc_windows.py: templates with a set-up prefix that puts the queue at its full / empty boundary; victim stalled right before its position CAS or its publish, actor run exactly through one of its writes, r more victim steps; see window_schedules); all from one splitmix64 stream. distinct = distinct (cfg, model event log); non-trivial = the run has a failed CAS, a failed (full/empty) operation, >= 3 ring wraps, or a thread stalled between CAS and publish",
        "distinct_event_logs": len(shapes), "impl_steps_compared": steps, "diverged": diverged, "corpus_cases": ncorpus,
        "traces_validated_against_impl": len(cases) - not_run - diverged, "histograms": hist,
        "window_schedules": winfo,
        "impl_runs_rejected_by_oracle": nbad, "cases_not_run_after_repeated_hangs": not_run,
        "samples": [{k: c[k] for k in ("id", "cfg", "threads", "sched")} for c in (cases[ncorpus:ncorpus + 2] + stalls[:1] + wcases[:1])],
        "modelled": "cds::container::VyukovMPMCCycleQueue::{enqueue_with,dequeue_with,front,pop_front,empty,size} (the intrusive queue is the same code at T*)",
        "values_compared": "every atomic access: kind, object, ok flag, value read, value written",
    })
    return ctx.finish(trusted, assumptions)
