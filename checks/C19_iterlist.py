"""C19, IterableList part — step correspondence of the thread-safe iterator of cds::intrusive::IterableList<cds::gc::HP>
(iterator_type::next / constructor / operator* / operator++, begin(), end(), erase_at( iterator )) with LV.Model.IterListIter,
and an implementation-side monitor of the clauses proved in coq/Properties/Properties_C19_IterList.v.

run_iterlist(ctx) -> dict of measured numbers; reports violations through ctx (called from checks/C19.py)."""
import os, json, glob
from concurrent.futures import ThreadPoolExecutor
import vcheck, conc_check

HDIR = os.path.join(vcheck.VERIF, "harness", "C19")
PROPS = "Properties/Properties_C19_IterList.v"      # Coq obligations of the IterableList part (build with vcheck.coq_build)
WHAT = ("LV.Model.IterListIter vs the iterator of cds::intrusive::IterableList<HP> (iterator_type( node ), next() incl. the protect loop and "
        "the skipping of empty nodes, operator*, begin(), end(), erase_at( iterator ) incl. the retry while a neighbour insert marks the data "
        "pointer; cds/intrusive/impl/iterable_list.h) together with insert / update / erase / contains of LV.Model.IterList")


def gen_sched(rng, n, kind):
    if kind == 0:
        return [rng.below(n) for _ in range(20 + rng.below(160))]
    if kind == 1:
        s = []
        for _ in range(2 + rng.below(12)):
            s += [rng.below(n)] * (1 + rng.below(25))
        return s
    if kind == 2:       # the iterating thread runs to some element, the others do a lot, the iterator continues
        return [0] * (3 + rng.below(60)) + [1 + rng.below(n - 1) for _ in range(10 + rng.below(120))] + [0] * rng.below(40)
    if kind == 3:       # the updaters fill the list first
        return [1 + rng.below(n - 1) for _ in range(40 + rng.below(120))] + [rng.below(n) for _ in range(rng.below(200))]
    return []


def gen_cases(rng, n):
    """thread 0 iterates (20 k: erase_at on the elements with key k; k = 99: none), possibly after some inserts of its own;
    1-2 other threads insert / update / erase / contains over a tiny key space"""
    cases = []
    for i in range(n):
        nthreads = 2 if rng.chance(2, 3) else 3
        nkeys = 2 + rng.below(4)
        threads = []
        ops = []
        for _ in range(rng.below(4)):
            ops.append([1, rng.below(nkeys)])
        for _ in range(1 + rng.below(2)):
            ops.append([20, rng.below(nkeys) if rng.chance(1, 2) else 99])
        threads.append(ops)
        for t in range(1, nthreads):
            ops = []
            shape = rng.below(3)
            for _ in range(1 + rng.below(5)):
                r = rng.below(100)
                if shape == 0:
                    code = 1 if r < 70 else (3 if r < 85 else 4)
                elif shape == 1:
                    code = 4 if r < 45 else (3 if r < 70 else (1 if r < 92 else 9))
                else:
                    code = [1, 1, 3, 3, 4, 4, 9, 20][rng.below(8)]
                k = rng.below(nkeys)
                if code == 3:
                    ops.append([3, k, 1 if rng.chance(3, 4) else 0])
                elif code == 20:
                    ops.append([20, k if rng.chance(1, 2) else 99])
                else:
                    ops.append([code, k])
            threads.append(ops)
        cases.append({"id": "l%d" % i, "cfg": [43 if rng.chance(1, 2) else 40, 1, 20000], "threads": threads,
                      "sched": gen_sched(rng, nthreads, rng.below(5))})
    return cases


def monitor(case, lines):
    """implementation-side monitor on the event log of the real list (-> list of findings, statistics):
       no yielded element carries the disposed flag while it is the current element; erase_at( it ) returns true at most once
       per element in the whole history (the harness adds: no disposed element is reachable after the run)"""
    bad = []
    st = {"visits": 0, "erase_at": 0, "erase_at_true": 0, "erase_at_false": 0, "iterations": 0}
    last_visit = {}
    removed_by_iter = {}
    for l in lines:
        t = l.split(" ")
        if len(t) < 3 or t[1] != "ev":
            continue
        if t[2] == "visit":
            st["visits"] += 1
            last_visit[t[0]] = int(t[4])
            if t[5] != "0":
                bad.append("iterator exposes a disposed element (item %s key %s)" % (t[4], t[3]))
        elif t[2] == "erased":
            st["erase_at"] += 1
            x = last_visit.get(t[0])
            if t[3] == "1":
                st["erase_at_true"] += 1
                removed_by_iter[x] = removed_by_iter.get(x, 0) + 1
                if removed_by_iter[x] > 1:
                    bad.append("erase_at( iterator ) returned true twice for item %s" % x)
            else:
                st["erase_at_false"] += 1
        elif t[2] == "inv" and t[3] == "20":
            st["iterations"] += 1
    return bad, st


def run_iterlist(ctx, n=None):
    src = os.path.join(HDIR, "iterlist_main.cpp")
    ext = "Extract_IterListIter.v"
    if not os.path.exists(src) or not os.path.exists(os.path.join(vcheck.COQ, "Extract", ext)):
        return None
    n = n or (4000 if ctx.thorough() else 800)
    model = conc_check.build_model(ctx, ext, tag="model_iterlist_iter")
    impl = None
    for attempt in range(3):
        try:
            impl = vcheck.cxx_build(src, os.path.join(ctx.work, "step", "iterlist_main"), hook=True,
                                    extra=("-I" + HDIR, "-I" + os.path.join(vcheck.VERIF, "harness", "C13")))
            break
        except vcheck.BuildError as e:
            if "libcds.a" not in str(e) or attempt == 2:
                raise
    rng = vcheck.SplitMix64(ctx.seed * 977 + 1913)
    cases = gen_cases(rng, n)
    for f in sorted(glob.glob(os.path.join(vcheck.VERIF, "corpus", "C19", "iterlist_step_*.json"))):
        try:
            c = json.load(open(f)).get("case")
            if c:
                cases.append(dict(c, id="corpus_" + os.path.basename(f)[:-5]))
        except Exception:
            pass
    chunks = [cases[j::8] for j in range(8)]

    def one(j):
        if not chunks[j]:
            return None
        return conc_check.run_both(ctx, model, impl, chunks[j], tag="step_iterlist_%d" % j, fuel=20000)
    with ThreadPoolExecutor(max_workers=8) as ex:
        outs = list(ex.map(one, range(8)))
    st = {"cases": len(cases), "agree": 0, "diverged": 0, "model_out_of_fuel": 0, "impl_steps_compared": 0, "visits": 0,
          "erase_at": 0, "erase_at_true": 0, "erase_at_false": 0, "erase_at_retry_on_mark": 0, "iterations": 0,
          "iterations_with_foreign_write": 0, "monitor_bad": 0, "modelled": WHAT}
    divs = []
    for j, o in enumerate(outs):
        if o is None:
            continue
        rc1, ml, rc2, il, raw = o
        for c in chunks[j]:
            m = ml.get(c["id"]); i = il.get(c["id"])
            if m is None or i is None:
                st["diverged"] += 1
                divs.append((c, {"index": -1, "model": "<no output>" if m is None else "ok", "impl": "<no output>" if i is None else "ok", "prefix": []}))
                continue
            st["impl_steps_compared"] += len(i["lines"])
            bad, s1 = monitor(c, i["lines"])
            for k, v in s1.items():
                st[k] += v
            bad += [x[8:] for x in i["extra"] if x.startswith("mon bad ")]
            # statistics: erase_at retries (two CAS of the same thread inside one erase_at), iterations overlapped by writes of others
            inside = {}; casn = {}
            for l in i["lines"]:
                t = l.split(" ")
                if len(t) >= 3 and t[1] == "ev" and t[2] == "visit":
                    casn[t[0]] = 0
                elif len(t) >= 3 and t[1] == "ev" and t[2] == "erased":
                    if casn.get(t[0], 0) > 1:
                        st["erase_at_retry_on_mark"] += 1
                elif len(t) >= 2 and t[1] == "cas":
                    casn[t[0]] = casn.get(t[0], 0) + 1
                if len(t) >= 4 and t[1] == "ev" and t[2] == "inv":
                    inside[t[0]] = 1 if t[3] == "20" else 0
                elif len(t) >= 3 and t[1] == "ev" and t[2] == "ret" and inside.get(t[0]):
                    if inside[t[0]] == 2:
                        st["iterations_with_foreign_write"] += 1
                    inside[t[0]] = 0
                elif len(t) >= 4 and t[1] in ("cas", "st") and t[3] == "1":
                    for u in inside:
                        if u != t[0] and inside[u]:
                            inside[u] = 2
            if bad:
                st["monitor_bad"] += 1
                ctx.violation("IterableList<HP> iterator (step harness): %s" % bad[0], {"case": c, "findings": bad, "impl_log": i["lines"]})
            d = conc_check.compare(m, i)
            if d is not None and ("outoffuel" in d["model"] or any("outoffuel" in x for x in m["lines"][-3:])):
                st["model_out_of_fuel"] += 1
                continue
            if d is not None:
                st["diverged"] += 1
                divs.append((c, d))
            else:
                st["agree"] += 1
    if divs and not st["monitor_bad"]:
        c, d = divs[0]
        ctx.violation("step correspondence between the IterableList iterator model and the real iterator no longer holds",
                      {"correspondence": WHAT, "case": c, "first_divergence": d, "diverged_cases": len(divs)}, no_input=True)
    st["_divs"] = [(c, d) for c, d in divs[:3]]
    return st
