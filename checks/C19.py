"""C19 — thread-safe iterators stay valid and complete under concurrent updates (DESIGN 7, C19).

Implementation side (harness/C19): one iterating thread + 1-2 updating threads on the real intrusive
IterableList, MichaelHashSet<IterableList>, SplitListSet<IterableList> and FeldmanHashSet (forward and reverse
iterators, head/array bits 4/2) under the deterministic scheduler.  The disposer only marks elements (nothing is
freed), every element has a unique id, and every operation logs the element it put in / took out.  The monitor
below is computed from that log:
  * a yielded element that is marked disposed while it is the current element        -> violation
  * every element present during the whole iteration is yielded: exactly once (IterableList and the hash sets
    over it; IterableList additionally in strictly increasing key order), at least once (Feldman)
  * erase_at(it) == true  <=> this call is the one and only removal of that element in the history
    erase_at(it) == false  => some other operation removed or replaced that element
  * the contents after the run are exactly (inserted - removed), no key twice.
Coq side: coq/Properties/Properties_C19.v when present."""
import os, json, glob, time, hashlib
from concurrent.futures import ThreadPoolExecutor
import vcheck, conc_check
import C14

HDIR = os.path.join(vcheck.VERIF, "harness", "C19")
INC = (C14.HDIR, HDIR)


def list_variants(exe):
    rc, out = vcheck.sh([exe, "--list"], timeout=60)
    vs = []
    for l in out.strip().split("\n"):
        t = l.split(" ")
        if len(t) >= 4:
            vs.append({"idx": int(t[0]), "name": t[1], "family": t[2], "reverse": int(t[3])})
    return vs


def gen_case(rng, v, cid):
    fam = v["family"]
    if fam == "feldman":
        hk = rng.choice([1, 2, 4, 6, 7, 2, 4, 0, 3, 5])       # mostly hashes sharing slots: array nodes split during the iteration
        cfg = [v["idx"], hk, 1, 1] if rng.chance(4, 5) else [v["idx"], hk, 4, rng.choice([2, 3])]
    elif fam == "split":
        cfg = [v["idx"], rng.below(8), rng.choice([4, 8, 16]), 1]
    elif fam == "michael":
        cfg = [v["idx"], rng.below(8), rng.choice([1, 2, 4, 8]), 1]
    else:
        cfg = [v["idx"], 0, 0, 0]
    pre = 0
    for k in range(6):
        if rng.chance(1, 2):
            pre |= 1 << k
    cfg.append(pre)
    nupd = 1 if rng.chance(1, 2) else 2
    threads = []
    emask = 0
    if rng.chance(1, 2):
        for k in range(6):
            if rng.chance(1, 3):
                emask |= 1 << k
    it_ops = []
    if rng.chance(1, 5):
        it_ops.append([rng.choice([1, 8]), rng.below(6)])
    it_ops.append([20, rng.below(2) if v["reverse"] else 0, emask])
    if rng.chance(1, 4):
        it_ops.append([20, rng.below(2) if v["reverse"] else 0, 0])
    threads.append(it_ops)
    shape = rng.below(3)
    for _ in range(nupd):
        ops = []
        for _ in range(2 + rng.below(4)):
            k = rng.below(6)
            r = rng.below(100)
            if shape == 0:      # inserts dominate: splits / bucket initialisation while iterating
                code = 1 if r < 60 else (3 if r < 70 else rng.choice([8, 10, 9, 12]))
            elif shape == 1:    # removals and replacements of what the iterator is looking at
                code = rng.choice([8, 10, 9]) if r < 45 else (rng.choice([3, 4]) if r < 75 else 1)
            else:
                code = rng.choice([1, 1, 3, 4, 8, 9, 10, 12])
            ops.append([code, k])
        threads.append(ops)
    n = len(threads)
    kind = rng.below(4)
    if kind == 0:
        sched = [rng.below(n) for _ in range(30 + rng.below(150))]
    elif kind == 1:
        sched = []
        for _ in range(3 + rng.below(12)):
            sched += [rng.below(n)] * (1 + rng.below(20))
    elif kind == 2:   # the iterator runs to some element, then the updaters do a lot, then the iterator continues
        sched = [0] * (3 + rng.below(40)) + [1 + rng.below(n - 1) for _ in range(20 + rng.below(100))] + [0] * rng.below(30)
    else:
        sched = []
    return {"id": cid, "cfg": cfg, "threads": threads, "sched": sched}


def parse_output(text):
    res = {}
    cur = None
    for line in text.split("\n"):
        line = line.rstrip()
        if line.startswith("case "):
            cur = {"variant": None, "family": None, "log": [], "end": None}
            res[line[5:].strip()] = cur
        elif cur is None:
            continue
        elif line.startswith("variant "):
            cur["variant"] = line[8:]
        elif line.startswith("family "):
            cur["family"] = line[7:]
        elif line.startswith("endcase"):
            cur["end"] = line[8:].strip()
        elif line:
            cur["log"].append(line)
    return res


def monitor(lg):
    """-> (list of violation strings, statistics dict)"""
    fam = lg["family"]
    bad = []
    st = {"iterations": 0, "yields": 0, "present_throughout": 0, "erase_at_true": 0, "erase_at_false": 0,
          "iter_with_concurrent_update": 0, "iter_with_structural_event": 0}
    key_of = {}
    inserted = {}        # id -> index at which the insertion completed (-1 prefill)
    removals = {}        # id -> list of (inv index, res index, what)
    last_inv = {}
    iters = []           # (tid, begin idx, end idx, dir, [ (idx, key, id) ], events begin, events end)
    open_it = {}
    final = []
    log = lg["log"]
    for i, l in enumerate(log):         # pass 1: every element ever put into the container (an inserter may still be inside its call when the element is seen)
        t = l.split()
        if t[0] == "pre":
            key_of[int(t[2])] = int(t[1])
        elif t[0] == "res" and t[5] != "-":
            key_of[int(t[5])] = int(t[3])
    for i, l in enumerate(log):
        t = l.split()
        if t[0] == "pre":
            key_of[int(t[2])] = int(t[1]); inserted[int(t[2])] = -1
        elif t[0] == "inv":
            last_inv[t[1]] = i
        elif t[0] == "res":
            tid, code, k, ret, nid, oid = t[1], int(t[2]), int(t[3]), int(t[4]), t[5], t[6]
            if nid != "-":
                key_of[int(nid)] = k; inserted[int(nid)] = i
            if oid != "-":
                removals.setdefault(int(oid), []).append((last_inv.get(tid, i), i, "op%d by thread %s" % (code, tid)))
        elif t[0] == "ibegin":
            open_it[t[1]] = [t[1], i, None, int(t[2]), [], int(t[3]) if len(t) > 3 else 0, 0]
        elif t[0] == "yield":
            tid, k, eid, d0, d1 = t[1], int(t[2]), int(t[3]), int(t[4]), int(t[5])
            st["yields"] += 1
            if d0 or d1:
                bad.append("iterator exposes a disposed element while it is the current element (element %d key %d)" % (eid, k))
            if tid in open_it:
                open_it[tid][4].append((i, k, eid))
            if eid not in key_of:
                bad.append("iterator yields an element that was never inserted (element %d)" % eid)
        elif t[0] == "eat":
            tid, k, eid, ret = t[1], int(t[2]), int(t[3]), int(t[4])
            if ret:
                st["erase_at_true"] += 1
                yidx = max([y[0] for y in open_it.get(tid, [0, 0, 0, 0, [(i, 0, 0)]])[4] if y[2] == eid] or [i])
                removals.setdefault(eid, []).append((yidx, i, "erase_at by thread %s" % tid))
            else:
                st["erase_at_false"] += 1
                removals.setdefault(eid, [])
                removals[eid].append(("eat_false", i, tid))
        elif t[0] == "iend":
            it = open_it.pop(t[1], None)
            if it:
                it[2] = i; it[6] = int(t[2]) if len(t) > 2 else 0
                iters.append(it)
        elif t[0] == "final":
            final.append((int(t[1]), int(t[2])))
        elif t[0] == "bad":
            bad.append("harness monitor: " + " ".join(t[1:]))
    # erase_at exactness and single removal
    real_removals = {}
    for eid, lst in removals.items():
        real = [r for r in lst if r[0] != "eat_false"]
        falses = [r for r in lst if r[0] == "eat_false"]
        real_removals[eid] = real
        if len(real) > 1:
            bad.append("element %d (key %s) removed %d times: %s" % (eid, key_of.get(eid), len(real), [r[2] for r in real]))
        if falses and not real:
            bad.append("erase_at(iterator) returned false for element %d (key %s) although no operation removed or replaced it" % (eid, key_of.get(eid)))
    # final contents
    if lg["end"] == "finished":
        expect = sorted(e for e in inserted if not real_removals.get(e))
        got = sorted(e for _, e in final)
        if expect != got:
            bad.append("contents after the run differ from inserted - removed: expected elements %s, iteration gives %s" % (expect, got))
        fk = [k for k, _ in final]
        if len(set(fk)) != len(fk):
            bad.append("key present twice after the run: %s" % sorted(k for k in set(fk) if fk.count(k) > 1))
    # completeness
    for tid, b, e, d, ys, ev0, ev1 in iters:
        st["iterations"] += 1
        if e is None:
            continue
        if ev1 > ev0:
            st["iter_with_structural_event"] += 1
        if any(b < idx < e for idx in inserted.values()) or any(b < r[1] < e and r[2].split()[-1] != tid for lst in real_removals.values() for r in lst):
            st["iter_with_concurrent_update"] += 1
        pt = [eid for eid, ins in inserted.items() if ins < b and not any(r[0] <= e for r in real_removals.get(eid, []))]
        st["present_throughout"] += len(pt)
        ycount = {}
        for _, k, eid in ys:
            ycount[eid] = ycount.get(eid, 0) + 1
        for eid in pt:
            n = ycount.get(eid, 0)
            if n == 0:
                bad.append("iterator (%s) skips element %d (key %d) that is present during the whole iteration" % ("reverse" if d else "forward", eid, key_of[eid]))
            elif n > 1 and fam != "feldman":
                bad.append("iterator yields element %d (key %d) %d times although it is present during the whole iteration" % (eid, key_of[eid], n))
        if fam == "list":
            ks = [k for _, k, _ in ys]
            if any(ks[i] >= ks[i + 1] for i in range(len(ks) - 1)):
                bad.append("IterableList iterator yields keys out of increasing order: %s" % ks)
    return bad, st


def run_shard(ctx, name, exe, cases, tag="cases"):
    d = os.path.join(ctx.work, "run")
    os.makedirs(d, exist_ok=True)
    cf = os.path.join(d, "%s_%s.txt" % (tag, name))
    conc_check.write_cases(cf, cases)
    rc, out = vcheck.sh([exe, cf], timeout=1500)
    return rc, parse_output(out), out[-1500:]


def judge(ctx, shard, cases, rc, logs, tail, stats):
    nbad = 0
    last = None
    for c in cases:
        lg = logs.get(c["id"])
        if lg is None:
            continue
        last = c
        vn = lg["variant"] or "?"
        agg = stats.setdefault(vn, {"cases": 0, "finished": 0, "ok": 0})
        agg["cases"] += 1
        if lg["end"] == "hang":
            nbad += 1
            ctx.violation("real container does not terminate under iteration + updates (%s)" % vn, {"shard": shard, "variant": vn, "case": c, "log": lg["log"]})
            continue
        if lg["end"] != "finished":
            continue
        agg["finished"] += 1
        bad, st = monitor(lg)
        for k, n in st.items():
            agg[k] = agg.get(k, 0) + n
        if bad:
            nbad += 1
            import re as _re
            what = _re.sub(r"element \d+ \(key \S+\)|element \d+", "an element", bad[0])
            what = _re.sub(r": \[.*$", "", what)
            what = _re.sub(r": expected elements.*$", "", what)
            what = _re.sub(r"\d+ times", "several times", what)
            ctx.violation("%s: %s" % (vn, what), {"shard": shard, "variant": vn, "case": c, "findings": bad, "log": lg["log"]},
                          signature=signature(vn, bad[0]))
        else:
            agg["ok"] += 1
    if rc != 0:
        nbad += 1
        ctx.violation("harness shard %s exits with status %s (crash/hang of the real container)" % (shard, rc), {"shard": shard, "case": last, "output_tail": tail})
    return nbad


def signature(variant, what):
    """stable identification of the two defects of the unchanged tree found by this check (see known_findings.json)"""
    if "skips element" in what and variant.startswith("FeldmanHashSet"):
        return "feldman-iterator-skips-converting-slot"
    if "erase_at(iterator) returned false" in what and variant.startswith("FeldmanHashSet"):
        return "feldman-erase-at-false-after-slot-expanded"
    if "erase_at(iterator) returned false" in what and "IterableList" in variant:
        return "iterlist-erase-at-spurious-false-while-neighbour-insert-marks-data"
    return None



# --------------------------------------------------------------------------------------------------
# step correspondence: LV.Model.FeldmanIter (iterator object on top of LV.Model.Feldman) against the real iterators

STEP_WHAT = ("LV.Model.FeldmanIter vs the iterators of cds::intrusive::FeldmanHashSet<HP> (iterator_base::forward / backward incl. re-read of "
             "a converting slot and of a slot changed under protect, operator*, do_erase_at incl. the unlink fall-back; "
             "cds/intrusive/impl/feldman_hashset.h) together with insert / update / erase / contains of LV.Model.Feldman")


def gen_step_iter(rng, n):
    """cfg = [loop fuel, head bits, array bits, hashes of keys 0..5]; at least one thread iterates (20 forward / 21 reverse,
    second number: key whose element is erased through erase_at, 99 = none) while the others insert / update / erase"""
    cases = []
    for i in range(n):
        nthreads = 2 if rng.chance(2, 3) else 3
        hb, ab = (4, 2) if rng.chance(3, 4) else rng.choice([(4, 4), (6, 2), (5, 3)])
        hs = rng.choice(C14.FHASH)
        nkeys = 2 + rng.below(4)
        keys = []
        while len(keys) < nkeys:
            k = rng.below(6)
            if k not in keys:
                keys.append(k)
        threads = []
        niter = 1 if rng.chance(3, 4) else 2
        for t in range(nthreads):
            ops = []
            if t < niter:
                for _ in range(rng.below(3)):
                    ops.append([1, rng.choice(keys)])
                for _ in range(1 + rng.below(2)):
                    ops.append([20 if rng.chance(2, 3) else 21, rng.choice(keys) if rng.chance(1, 2) else 99])
            else:
                for _ in range(1 + rng.below(5)):
                    r = rng.below(100)
                    code = 1 if r < 50 else (3 if r < 65 else (4 if r < 70 else (7 if r < 92 else 13)))
                    ops.append([code, rng.choice(keys)])
            threads.append(ops)
        cases.append({"id": "i%d" % i, "cfg": [400, hb, ab] + hs, "threads": threads, "sched": C14.gen_sched(rng, nthreads, rng.below(4))})
    return cases


# model-guided window schedules (lib/conc_windows2.py): thread 0 fills the set, then an iterating thread and 1-2 updaters
# collide in the same head slot / array node.  The iterator hardly writes: it is stalled before EVERY access (between the load
# of a slot and the hazard publication, between two slots, before the erase_at CAS), the updater runs exactly through one of
# its writes (slot marked `array converting`, array node installed, element replaced / removed) or its whole operation; the same
# from states in which an updater is parked right after one of its writes (a slot being converted while the iterator passes).
#   (name, index into C14.FHASH, (head bits, array bits), set-up operations, programs of the participants)
WINDOW_TEMPLATES = [
    ("iter_vs_expand_erase", 2, (4, 2), [[1, 0], [1, 1]], [[[20, 99]], [[1, 2]], [[7, 0]]]),
    ("erase_at_vs_erase_update", 0, (4, 2), [[1, 0], [1, 1], [1, 2]], [[[20, 1]], [[7, 1]], [[3, 1]]]),
    ("reverse_vs_expand", 2, (4, 2), [[1, 0]], [[[21, 99]], [[1, 1]], [[7, 0]]]),
    ("erase_at_deep_expand", 1, (4, 2), [[1, 0]], [[[20, 0]], [[1, 1]], [[3, 0]]]),
    ("two_iterators", 0, (4, 2), [[1, 0], [1, 3]], [[[20, 99]], [[21, 3]], [[7, 0], [1, 0]]]),
    ("reverse_erase_at_reinsert", 2, (4, 2), [[1, 0], [1, 1]], [[[21, 1]], [[7, 1], [1, 1]], [[3, 0]]]),
]
WINDOW_QUICK = 360
WINDOW_QUICK_CANDIDATES = 2500
WINDOW_THOROUGH = 10000


def gen_window_cases(ctx, model, rng):
    import conc_windows2
    templates = [{"name": n, "cfg": [400, hb, ab] + C14.FHASH[hi], "threads": [setup] + parts, "setup": 1}
                 for n, hi, (hb, ab), setup, parts in WINDOW_TEMPLATES]
    th = ctx.thorough()
    wdir = os.path.join(ctx.work, "wprobe_iter")
    cases, info = conc_windows2.expand(model, wdir, templates, "wit_", fuel=200000,
                                       r_values=tuple(range(0, 13)) if th else (0, 1, 2, 3, 5, 8, 12), read_points=True,
                                       staged=True, max_ws=4 if th else 2, staged_max_wa=4 if th else 3,
                                       staged_r_values=(0, 1, 2, 3, 5, 8) if th else (0, 1, 3, 6), lazy=True)
    info["enumerated"] = len(cases)
    if th:
        cases = conc_windows2.stratified(rng, cases, WINDOW_THOROUGH)
    else:
        cases = conc_windows2.stratified(rng, cases, WINDOW_QUICK_CANDIDATES)
        paths = conc_windows2.model_paths(model, wdir, cases, "wit", fuel=200000)
        cases, info["selection"] = conc_windows2.select_by_cover(rng, cases, paths, WINDOW_QUICK)
    cases = conc_windows2.finalize(cases)
    info["run"] = len(cases)
    info.pop("per_template", None)
    return cases, info


def step_stage(ctx, n):
    src = os.path.join(HDIR, "step_feldman_iter.cpp")
    if not os.path.exists(src) or not os.path.exists(os.path.join(vcheck.COQ, "Extract", "Extract_FeldmanIter.v")):
        return None, []
    model = conc_check.build_model(ctx, "Extract_FeldmanIter.v", tag="model_feldman_iter")
    impl = None
    for attempt in range(3):
        try:
            impl = vcheck.cxx_build(src, os.path.join(ctx.work, "step", "step_feldman_iter"), hook=True, extra=("-I" + HDIR, "-I" + C14.HDIR))
            break
        except vcheck.BuildError as e:
            if "libcds.a" not in str(e) or attempt == 2:
                raise
    rng = vcheck.SplitMix64(ctx.seed * 131 + 19)
    cases = gen_step_iter(rng, n)
    for f in sorted(glob.glob(os.path.join(vcheck.VERIF, "corpus", "C19", "step_*.json"))):
        try:
            c = json.load(open(f)).get("case")
            if c:
                cases.append(dict(c, id="corpus_" + os.path.basename(f)[:-5]))
        except Exception:
            pass
    wcases, winfo = gen_window_cases(ctx, model, vcheck.SplitMix64(ctx.seed * 977 + 19))
    cases = cases + wcases
    chunks = [cases[j::8] for j in range(8)]

    def one(j):
        if not chunks[j]:
            return None
        return conc_check.run_both(ctx, model, impl, chunks[j], tag="step_iter_%d" % j, fuel=200000)
    with ThreadPoolExecutor(max_workers=8) as ex:
        outs = list(ex.map(one, range(8)))
    st = {"cases": len(cases), "agree": 0, "diverged": 0, "model_out_of_fuel": 0, "impl_steps_compared": 0, "visits": 0, "erase_at": 0,
          "erase_at_false": 0, "erase_at_unlink_path": 0, "monitor_bad": 0, "modelled": STEP_WHAT}
    divs = []
    allimpl = {}
    st["diverged_window_schedules"] = 0
    for j, o in enumerate(outs):
        if o is None:
            continue
        rc1, ml, rc2, il, raw = o
        allimpl.update(il)
        for c in chunks[j]:
            m = ml.get(c["id"]); i = il.get(c["id"])
            if m is None or i is None:
                st["diverged"] += 1
                divs.append((c, {"index": -1, "model": "<no output>" if m is None else "ok", "impl": "<no output>" if i is None else "ok", "prefix": []}))
                continue
            st["impl_steps_compared"] += len(i["lines"])
            inwin = {}
            for l in i["lines"]:
                t = l.split(" ")
                if len(t) >= 2 and t[1] == "faa" and inwin.get(t[0]):
                    inwin[t[0]] = 2          # a hazard publication inside erase_at: the unlink fall-back ran
                if len(t) >= 5 and t[1] == "ev" and t[2] == "visit":
                    inwin[t[0]] = 1
                    st["visits"] += 1
                    if t[4] != "0":
                        st["monitor_bad"] += 1
                        ctx.violation("iterator of the real FeldmanHashSet exposes a disposed element (step harness)", {"case": c, "impl_log": i["lines"]})
                if len(t) >= 4 and t[1] == "ev" and t[2] == "erased":
                    st["erase_at"] += 1
                    st["erase_at_false"] += 1 if t[3] == "0" else 0
                    st["erase_at_unlink_path"] += 1 if inwin.get(t[0]) == 2 else 0
                    inwin[t[0]] = 0
            d = conc_check.compare(m, i)
            if d is not None and "outoffuel" in d["model"]:
                st["model_out_of_fuel"] += 1
                continue
            if d is not None:
                st["diverged"] += 1
                st["diverged_window_schedules"] += 1 if c.get("kind") == "window" else 0
                divs.append((c, d))
            else:
                st["agree"] += 1
    import conc_windows2
    ws = conc_windows2.event_stats(cases, allimpl)
    ws["generator"] = winfo
    ws["rule"] = ("victim (iterator or updater) stalled before each CAS and before every other access, actor runs exactly through one of its writes (measured "
                  "on the model in that state) or its whole program, victim gets r more steps, third thread before / after / in between; also from states with "
                  "an updater parked right after one of its writes; with_retry_path = a thread executed more CAS than in its solo run")
    st["window_schedules"] = ws
    ctx.log("step[iterators] windows: %d schedules, %d with a failed CAS, %d with a retry path, %d with a longer path, %d diverged"
            % (ws["window_cases"], ws["with_failed_cas"], ws["with_retry_path"], ws["with_longer_path"], st["diverged_window_schedules"]))
    return st, divs

def run(ctx):
    srcs = C14.shard_filter(sorted(glob.glob(os.path.join(HDIR, "tu_*.cpp"))))
    if ctx.replay:
        rp = json.load(open(ctx.replay))
        shard, case = rp.get("shard"), rp.get("case")
        ctx.coverage.update({"obligations": 0, "discharged": 0, "checker_cmd": "replay only"})
        if shard and case:
            exes = C14.build_shards(ctx, [os.path.join(HDIR, shard + ".cpp")], INC)
            rc, logs, tail = run_shard(ctx, shard, exes[shard], [case], tag="replay")
            stats = {}
            n = judge(ctx, shard, [case], rc, logs, tail, stats)
            lg = logs.get(case["id"])
            if lg:
                print("\n".join(lg["log"]))
            ctx.log("replay of %s: %s" % (case["id"], "VIOLATION reproduced" if n else "no violation"))
        return ctx.finish(vcheck.STD_TRUSTED)
    props = ["Properties/Properties_C19.v"] if os.path.exists(os.path.join(vcheck.COQ, "Properties", "Properties_C19.v")) else []
    res = None
    if props:
        res = vcheck.coq_build(props)
        ctx.coq_evidence(res)
    if os.environ.get("VERIF_ONLY") == "step":
        srcs = []           # mutation experiments on the step-modelled code: the breadth stage is skipped
        ctx.coverage["restricted_run"] = "VERIF_ONLY=step"
    exes = C14.build_shards(ctx, srcs, INC) if srcs else {}
    per_variant = 1500 if ctx.thorough() else 350
    allcases = {}
    corpus = []
    for f in sorted(glob.glob(os.path.join(vcheck.VERIF, "corpus", "C19", "*.json"))):
        try:
            corpus.append(json.load(open(f)))
        except Exception:
            pass
    for name in sorted(exes):
        cases = [dict(c["case"], id="corpus%d" % i) for i, c in enumerate(corpus) if c.get("shard") == name and c.get("case")]
        for v in list_variants(exes[name]):
            rng = vcheck.SplitMix64(ctx.seed * 7919 + int(hashlib.sha256(v["name"].encode()).hexdigest()[:12], 16))
            for i in range(per_variant):
                cases.append(gen_case(rng, v, "v%d_%d" % (v["idx"], i)))
        allcases[name] = cases
    # split every shard's cases into chunks so that all cores are used
    jobs = []
    for name, cases in allcases.items():
        nchunk = max(1, min(8, len(cases) // 200))
        for j in range(nchunk):
            jobs.append((name, j, cases[j::nchunk]))
    t0 = time.time()
    with ThreadPoolExecutor(max_workers=max(2, vcheck.NCPU)) as ex:
        outs = list(ex.map(lambda jb: (jb, run_shard(ctx, jb[0], exes[jb[0]], jb[2], tag="cases%d" % jb[1])), jobs))
    stats = {}
    nbad = 0
    for (name, j, cases), (rc, logs, tail) in outs:
        nbad += judge(ctx, name, cases, rc, logs, tail, stats)
    ncases = sum(len(c) for c in allcases.values())
    ctx.log("%d cases over %d variants, %d bad, %.1fs" % (ncases, len(stats), nbad, time.time() - t0))
    t1 = time.time()
    sst, sdivs = step_stage(ctx, 4000 if ctx.thorough() else 800)
    if sst is not None:
        ctx.log("step correspondence (iterators): %d agree, %d diverged, %d model out of fuel, %.1fs" % (sst["agree"], sst["diverged"], sst["model_out_of_fuel"], time.time() - t1))
        if sdivs and not sst["monitor_bad"]:
            c, d = sdivs[0]
            ctx.violation("step correspondence between the Feldman iterator model and the real iterators no longer holds",
                          {"correspondence": STEP_WHAT, "case": c, "first_divergence": d, "diverged_cases": len(sdivs)}, no_input=True)
    if res is not None and not res.ok:
        ctx.violation("Coq obligations of C19 do not check: %s" % (res.failed[:2],), {"theorem": [f[2] for f in res.failed], "errors": res.failed[:3]}, no_input=True)
    ctx.coverage.update({
        "evaluations": ncases,
        "distinct_nontrivial": sum(s.get("iter_with_concurrent_update", 0) for s in stats.values()),
        "rule": "one evaluation = one (variant, configuration, prefill, iterating thread + 1-2 updaters, schedule) run on the real container under the deterministic scheduler with the log-based monitor; non-trivial = an iteration during which another thread's insertion or removal completed",
        "variants": len(stats), "per_variant": stats, "corpus_cases": len(corpus),
        "traces_validated_against_impl": sum(s.get("ok", 0) for s in stats.values()),
        "samples": [allcases[n][len(allcases[n]) // 2] for n in sorted(allcases) if allcases[n]][:2],
    })
    if sst is not None:
        ctx.coverage["step_correspondence"] = {"feldman_iter": sst}
    # IterableList<HP> iterator: step correspondence with LV.Model.IterListIter (checks/C19_iterlist.py; its theorems are
    # in the companion file Properties_C19_IterList.v, built with the other obligations above)
    try:
        import C19_iterlist
        il = C19_iterlist.run_iterlist(ctx)
        if isinstance(il, dict):
            il.pop("_divs", None)
        ctx.coverage.setdefault("step_correspondence", {})["iterlist_iter"] = il
    except vcheck.BuildError as e:
        ctx.coverage.setdefault("step_correspondence", {})["iterlist_iter"] = {"build_failure": str(e)[-1500:]}
        ctx.violation("harness/C19/iterlist_main.cpp does not build against the working tree: the IterableList iterator part cannot be checked",
                      {"kind": "build-failure", "harness": "iterlist_main", "error": str(e)[-2000:]}, no_input=True)
    if "obligations" not in ctx.coverage:
        ctx.coverage.update({"obligations": 0, "discharged": 0, "checker_cmd": "n/a (implementation-side monitor only)"})
    return ctx.finish(vcheck.STD_TRUSTED + ["hook layer: khizmax_libcds_verif::atomic<T>, baton scheduler (hooks/include)", "harness/C19 log format and checks/C19.py monitor"],
                      ["sequential consistency", "elements are never freed by the harness (the disposer marks them): reuse of element memory is out of scope here (C01/C02)"])
