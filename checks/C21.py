"""C21 — free lists never hand out a node twice and never lose one (DESIGN 7, C21).

Coq obligations: Properties/Properties_C21.v (theorems for every schedule).
Correspondence: the extracted models of FreeList, TaggedFreeList and CachedFreeList (coq/Model/FreeList*.v,
dispatcher FreeListAll.run_case) against the real classes (harness/C21/main.cpp) under the same deterministic
schedules, event logs compared line by line.
Monitors on the real code: ownership map (double_get) during the run, quiescent drain (lost/extra/dup) after it,
watchdog (hang).
Cases: corpus, random programs x schedules aimed at the re-add race / ABA window / cache-slot collisions, and a
systematic sweep: ALL schedules with at most `switches` context switches at arbitrary points (then run to
completion) of fixed 2-thread x 2-operation programs on 2 nodes."""
import os, json, itertools
from concurrent.futures import ThreadPoolExecutor
import vcheck, conc_check, conc_windows

VARIANT_NAMES = {0: "FreeList", 1: "TaggedFreeList", 2: "CachedFreeList<FreeList,4>", 3: "CachedFreeList<TaggedFreeList,4>"}
LFUEL = 60
EXTRA = ("-Wl,--no-as-needed", "-latomic")
FLAG = 2147483648


def mk_case(cid, variant, nnodes, k, owners, threads, sched, slots=None):
    cfg = [variant, LFUEL, nnodes, k] + list(owners)
    if variant >= 2:
        cfg += list(slots if slots is not None else [0] * len(threads))
    return {"id": cid, "cfg": cfg, "threads": threads, "sched": sched}


def gen_program(rng, nthreads, owners, maxops):
    """puts are generated only when the thread may hold something at that point (optimistic count: a get may
    return nullptr, the later put is then skipped by model and harness alike)"""
    threads = []
    for t in range(nthreads):
        have = sum(1 for o in owners if o == t)
        ops = []
        for _ in range(1 + rng.below(maxops)):
            if have > 0 and rng.chance(1, 2):
                ops.append([2, rng.below(have)])
                have -= 1
            else:
                ops.append([1])
                have += 1
        threads.append(ops)
    return threads


def gen_sched(rng, nthreads, kind):
    if kind == 0:      # uniform
        return [rng.below(nthreads) for _ in range(20 + rng.below(100))]
    if kind == 1:      # bursty: long runs with few switches
        s = []
        for _ in range(2 + rng.below(10)):
            s += [rng.below(nthreads)] * (1 + rng.below(12))
        return s
    if kind == 2:
        # re-add race: one thread (the getter) runs to just after its refs CAS (begin, ld head, ld refs, cas refs
        # = 4 steps; + 1 = after the next load: the ABA window), then stalls while the others run whole operations
        g = rng.below(nthreads)
        s = [g] * (4 + rng.below(2))
        others = [t for t in range(nthreads) if t != g] or [g]
        for _ in range(1 + rng.below(4)):
            s += [rng.choice(others)] * (3 + rng.below(20))
        s += [g] * (1 + rng.below(4))
        s += [rng.below(nthreads) for _ in range(rng.below(30))]
        return s
    # kind 3: two stalls: thread a stalls inside get, thread b stalls inside add_knowing_refcount_is_zero (after its
    # refs store) or inside its own get, then a resumes
    a = rng.below(nthreads)
    b = (a + 1 + rng.below(nthreads - 1)) % nthreads if nthreads > 1 else a
    s = [a] * (3 + rng.below(4)) + [b] * (2 + rng.below(12)) + [a] * (1 + rng.below(6)) + [b] * (1 + rng.below(8))
    s += [rng.below(nthreads) for _ in range(rng.below(40))]
    return s


def handover_case(rng, cid):
    """3 threads on 2 listed nodes, jittered around the schedule in which add_knowing_refcount_is_zero loses its
    head CAS after a stale getter took a reference (the add is handed over to that getter)"""
    j = lambda x: max(0, x + rng.below(3) - 1)
    perm = [0, 1, 2]
    # random roles
    for a in range(2, 0, -1):
        b = rng.below(a + 1); perm[a], perm[b] = perm[b], perm[a]
    g2, t, u = perm
    threads = [None, None, None]
    threads[g2] = [[1]] + ([[2, 0]] if rng.chance(1, 2) else [])
    threads[t] = [[1], [2, 0]] + ([[1]] if rng.chance(1, 2) else [])
    threads[u] = [[1]] + ([[2, 0]] if rng.chance(1, 2) else [])
    sched = [g2] * j(2) + [t] * j(9) + [u] * j(7) + [t] * j(2) + [g2] * j(2) + [t] * j(3) + [g2] * j(12)
    sched += [rng.below(3) for _ in range(rng.below(20))]
    return mk_case(cid, 0 if rng.chance(3, 4) else 2, 2, 2, [], threads, sched, [rng.below(2) for _ in range(3)])


def gen_cases(ctx, n, prefix="g", variants=(0, 0, 0, 1, 2, 2, 3)):
    rng = ctx.rng
    cases = []
    for i in range(n):
        if rng.chance(1, 8):
            cases.append(handover_case(rng, "%s%d" % (prefix, i)))
            continue
        variant = variants[rng.below(len(variants))]
        nthreads = 2 + rng.below(3)
        nnodes = 1 + rng.below(3)
        k = rng.below(nnodes + 1)
        owners = [rng.below(nthreads) for _ in range(nnodes - k)]
        threads = gen_program(rng, nthreads, owners, 4)
        sched = gen_sched(rng, nthreads, rng.below(4))
        # cache slots: mostly colliding (that is where the exchange on a slot matters)
        slots = [rng.below(2) if rng.chance(3, 4) else rng.below(4) for _ in range(nthreads)]
        cases.append(mk_case("%s%d" % (prefix, i), variant, nnodes, k, owners, threads, sched, slots))
    return cases


# 2 threads x 2 operations x 2 nodes: (nnodes, k, owners, threads)
SWEEP_PROGRAMS = [
    (2, 2, [], [[[1], [2, 0]], [[1], [2, 0]]]),       # get;put  ||  get;put        both nodes on the list
    (2, 1, [0], [[[2, 0], [1]], [[1], [2, 0]]]),      # put;get  ||  get;put        one node held by thread 0
    (2, 2, [], [[[1], [1]], [[1], [2, 0]]]),          # get;get  ||  get;put
    (2, 0, [0, 1], [[[2, 0], [1]], [[2, 0], [1]]]),   # put;get  ||  put;get        both nodes held
]


def sweep_cases(variant, pidx, switches, maxlen, slots=(0, 0)):
    """all schedules of a 2-thread program with at most `switches` context switches: thread s runs x1 steps, the
    other x2 steps, ... (x_i in 0..maxlen), then whoever's turn it is runs to completion, then the other."""
    nnodes, k, owners, threads = SWEEP_PROGRAMS[pidx]
    out = []
    seen = set()
    for start in (0, 1):
        for lens in itertools.product(range(maxlen + 1), repeat=switches):
            sched = []
            cur = start
            for x in lens:
                sched += [cur] * x
                cur ^= 1
            sched += [cur] * 120
            key = tuple(sched)
            if key in seen:
                continue
            seen.add(key)
            out.append(mk_case("w%d_%d_%d" % (variant, pidx, len(out)), variant, nnodes, k, owners, threads, sched, list(slots)))
    return out


# model-guided window schedules (lib/conc_windows.py).  FreeList is multi-phase with helping (a getter that drops the
# last reference of a node whose SHOULD_BE_ON_FREELIST flag is set re-adds it): writes are CAS, exchange (cache slots)
# and the fetch-add / fetch-sub on refs.
#   "w" victim stalled right before one of its writes, actor through one of its writes or to its end, r victim steps;
#   "m" a third thread through one of its writes in between;  "a" victim stalled before ANY step (between the load of
#   head and the load of refs, between the load of next and the head CAS: the ABA window), few r;
#   "d" two victims stalled before their writes, the actor's write makes both fail (hand-over of an add to a stale getter).
# (nnodes, k, owners of nodes k+1.., threads): G = get, P = put the first held node
WINDOW_TEMPLATES = [
    (2, 2, [],     [["G"], ["G"], ["G"]]),
    (2, 2, [],     [["G", "P"], ["G", "P"], ["G"]]),
    (1, 1, [],     [["G", "P"], ["G", "P"], ["G"]]),            # one node: every get but one fails or waits for the put
    (2, 1, [0],    [["P", "G"], ["G"], ["G", "P"]]),            # put racing with gets of the node below it
    (2, 0, [0, 1], [["P", "G"], ["P", "G"], ["G"]]),            # two adds race for the head
    (3, 2, [2],    [["G", "P", "G"], ["G", "P"], ["P", "G"]]),
    (2, 2, [],     [["G", "P", "G"], ["G", "P", "G"]]),
    (2, 1, [1],    [["G"], ["P", "G"], ["G", "P"], ["G"]]),
]
WINDOW_KINDS = ("cas", "xchg", "faa", "fas")


def gen_window_cases(ctx, model, rng, quick):
    wdir = os.path.join(ctx.work, "wprobe")
    os.makedirs(wdir, exist_ok=True)
    cases = []
    info = {"templates": len(WINDOW_TEMPLATES), "enumerated": 0, "model_probes": 0}
    for ti, (nnodes, k, owners, tpl) in enumerate(WINDOW_TEMPLATES):
        nth = len(tpl)
        threads0 = [[([1] if o == "G" else [2, 0]) for o in th] for th in tpl]
        variants = [0, 1, 2, 3]
        if quick:
            variants = [0, (1, 2, 3)[(ctx.seed + ti) % 3]]
        for v in variants:
            base = mk_case("x", v, nnodes, k, owners, threads0, [], [t % 2 for t in range(nth)])
            cfg = base["cfg"]
            tag = "w%d_%d" % (ti, v)
            threads, sw, inf = conc_windows.windows(model, wdir, cfg, threads0, kinds=WINDOW_KINDS, max_r=8, third=not quick and nth > 2,
                                                    double=nth > 2, rs2=(0, 2, 5) if quick else (0, 1, 2, 3, 4, 6, 8, 12), rs_d=(0, 1, 3, 6) if quick else None,
                                                    double_stalls=2 if quick else 4, max_actor=3 if quick else None, tag=tag, max_stalls=4 if quick else 6)
            _, sa, inf2 = conc_windows.windows(model, wdir, cfg, threads0, kinds=WINDOW_KINDS, stall="all", rs=(0, 2) if quick else (0, 1, 2, 4, 7), tag=tag + "a")
            sa = [("a" + n, s_) for (n, s_) in sa]
            info["enumerated"] += len(sw) + len(sa)
            info["model_probes"] += inf["model_probes"] + inf2["model_probes"]
            if quick:
                sd = [x for x in sw if x[0].startswith("d_")]
                sw = conc_windows.subsample(rng, [x for x in sw if not x[0].startswith("d_")], 40) + conc_windows.subsample(rng, sd, 40)
                sa = conc_windows.subsample(rng, sa, 20)
            for name, sched in sw + sa:
                c = dict(base); c["id"] = "%s_%s" % (tag, name); c["sched"] = sched; c["threads"] = threads
                cases.append(c)
    if not quick and len(cases) > 40000:
        # thorough tier: the full enumeration, up to a budget (a seeded subsample beyond it; 'enumerated' says how many there are)
        cases = conc_windows.subsample(rng, cases, 40000)
        info["thorough_budget"] = 40000
    info["cases"] = len(cases)
    return cases, info


def impl_features(lines):
    """features of an implementation log (it carries the values read/written)"""
    f = set()
    for l in lines:
        t = l.split(" ")
        if len(t) < 4 or t[1] in ("ev", "begin"):
            continue
        if t[1] == "cas" and t[3] == "0":
            f.add("cas_fail")
        if len(t) >= 6 and t[4].startswith("i"):
            rd, wr = int(t[4][1:]), int(t[5][1:])
            if t[1] == "fas" and rd == FLAG + 1:
                f.add("readd_by_getter")            # the re-add race: last reference dropped with the flag set
            if t[1] == "faa" and (wr - rd) % (1 << 32) == FLAG and rd != 0:
                f.add("put_found_references")       # put() leaves the add to the last reference holder
            if t[1] == "faa" and (wr - rd) % (1 << 32) == FLAG - 1:
                f.add("add_cas_failed")             # add_knowing_refcount_is_zero lost the head CAS
            if t[1] == "faa" and (wr - rd) % (1 << 32) == FLAG - 1 and rd != 1:
                f.add("add_handed_over")            # ... and somebody took a reference meanwhile
    return f


def monitor_verdict(extra):
    bad = []
    for x in extra:
        t = x.split()
        if x.startswith("monitor double_get"):
            if int(t[2]) > 0: bad.append(("double_get", x))
            if int(t[4]) > 0: bad.append(("bad_node", x))
        elif x.startswith("monitor drain lost"):
            if int(t[3]) > 0: bad.append(("lost", x))
            if int(t[5]) > 0: bad.append(("extra", x))
            if int(t[7]) > 0: bad.append(("drain_dup", x))
            if int(t[9]) > 0: bad.append(("drain_bad", x))
        elif x.startswith("monitor hang"):
            bad.append(("hang", x))
    return bad


WHAT = {
    "double_get": "get() returned a node that another holder still has (real code, ownership-map monitor)",
    "bad_node": "get() returned a pointer that is not a node of the list (real code)",
    "lost": "a node that was put and not taken out cannot be obtained again once all threads are quiescent (real code, drain monitor)",
    "extra": "the quiescent drain returned a node that a thread still holds (real code, drain monitor)",
    "drain_dup": "the quiescent drain returned the same node twice (real code, drain monitor)",
    "drain_bad": "the quiescent drain returned a pointer that is not a node (real code)",
    "hang": "an operation of the free list does not terminate on this schedule (real code, watchdog)",
}


def new_stats():
    return {"n": 0, "diverged": 0, "steps": 0, "shapes": set(), "contended": set(), "features": {}, "by_variant": {}, "fuel": 0, "events": {}}


def merge_stats(a, b):
    a["n"] += b["n"]; a["diverged"] += b["diverged"]; a["steps"] += b["steps"]; a["fuel"] += b["fuel"]
    a["shapes"] |= b["shapes"]; a["contended"] |= b["contended"]
    for key in ("features", "by_variant", "events"):
        for k, v in b[key].items():
            a[key][k] = a[key].get(k, 0) + v


def run_impl(impl, cases, path):
    """the harness exits with status 3 on a hang (after printing the hung case id); the cases after it in this
    chunk are not run (one hang is a finding; a mutant that hangs often must not cost 3 s per case)"""
    conc_check.write_cases(path, cases)
    rc, out = vcheck.sh([impl, path], timeout=900)
    logs = conc_check.parse_logs(out)
    hung = [cid for cid, l in logs.items() if l["end"] == "hang"]
    skipped = set()
    if hung:
        idx = next((j for j, c in enumerate(cases) if c["id"] == hung[0]), len(cases) - 1)
        skipped = set(c["id"] for c in cases[idx + 1:])
    return logs, skipped


def run_chunk(work, model, impl, cases, tag):
    cf = os.path.join(work, tag + "_m.txt")
    conc_check.write_cases(cf, cases)
    rc1, out1 = vcheck.sh("%s %d < %s" % (model, 20000, cf), timeout=900)
    mlog = conc_check.parse_logs(out1)
    ilog, skipped = run_impl(impl, cases, os.path.join(work, tag + "_i.txt"))
    cases = [c for c in cases if c["id"] not in skipped]
    st = new_stats()
    first_div = None
    hits = []
    for c in cases:
        m = mlog.get(c["id"]); i = ilog.get(c["id"])
        v = c["cfg"][0]
        st["n"] += 1
        if i is not None:
            for kind, line in monitor_verdict(i["extra"]):
                hits.append((kind, c, line, i["lines"]))
        if m is None or i is None:
            st["diverged"] += 1
            if first_div is None:
                first_div = (c, {"index": -1, "model": "<no output>" if m is None else "ok", "impl": "<no output>" if i is None else "ok", "prefix": []})
            continue
        st["steps"] += len(i["lines"])
        d = conc_check.compare(m, i)
        shape = hash((v, tuple(m["lines"])))
        st["shapes"].add(shape)
        f = impl_features(i["lines"])
        if "cas_fail" in f:
            st["contended"].add(shape)
        for x in f:
            st["features"][x] = st["features"].get(x, 0) + 1
        st["by_variant"][v] = st["by_variant"].get(v, 0) + 1
        if m["end"] == "fuel" or i["end"] == "fuel":
            st["fuel"] += 1
        for l in m["lines"]:
            t = l.split(" ")
            if len(t) >= 3 and t[1] == "ev":
                st["events"][t[2]] = st["events"].get(t[2], 0) + 1
                if t[2] == "ret_get" and t[3] == "-1":
                    st["events"]["ret_get_null"] = st["events"].get("ret_get_null", 0) + 1
        if d is not None:
            st["diverged"] += 1
            if first_div is None:
                first_div = (c, d)
    return st, first_div, hits


def process(ctx, model, impl, cases, stats, tag, report=True, chunk=1500):
    """run model and implementation on all cases (chunks in parallel), compare, read the monitors"""
    chunks = [cases[i:i + chunk] for i in range(0, len(cases), chunk)]
    first_div = None
    all_hits = []
    with ThreadPoolExecutor(max_workers=max(2, min(12, vcheck.NCPU - 2))) as ex:
        futs = [ex.submit(run_chunk, ctx.work, model, impl, ch, "%s%d" % (tag, j)) for j, ch in enumerate(chunks)]
        for fu in futs:
            st, fd, hits = fu.result()
            merge_stats(stats, st)
            if fd is not None and first_div is None:
                first_div = fd
            all_hits += hits
    if report:
        for kind, c, line, lines in all_hits:
            ctx.violation("%s: %s" % (VARIANT_NAMES.get(c["cfg"][0], c["cfg"][0]), WHAT[kind]), {"case": c, "monitor_kind": kind, "monitor": line, "impl_log": lines})
    return first_div, all_hits


def run(ctx):
    res = vcheck.coq_build(["Properties/Properties_C21.v"])
    ctx.coq_evidence(res)
    ctx.log("coq: %d/%d obligations, %.1fs" % (len(res.discharged), len(res.obligations), res.wall_s))
    if ctx.thorough() and res.ok:
        rc, out = vcheck.coqchk("LV.Properties.Properties_C21")
        ok = rc == 0 and "Axioms: <none>" in out
        ctx.coverage["coqchk"] = "ok: no axioms, no type-in-type, no unsafe fixpoints" if ok else out[-600:]
        ctx.log("coqchk: %s" % ("ok" if ok else "FAILED"))
        if not ok:
            ctx.violation("coqchk rejects LV.Properties.Properties_C21 or finds axioms", {"theorem": "Properties_C21", "coqchk": out[-1500:]}, no_input=True)
    model = conc_check.build_model(ctx, "Extract_FreeList.v")
    impl = vcheck.cxx_build(os.path.join(vcheck.VERIF, "harness/C21/main.cpp"), os.path.join(ctx.work, "harness"),
                            hook=True, link_cds=False, extra=EXTRA)
    ctx.log("model and harness built")
    stats = new_stats()
    trusted = vcheck.STD_TRUSTED + ["hook layer: khizmax_libcds_verif::atomic<T>, baton scheduler, event log (hooks/include)", "ocaml/conc_main.ml event printer",
                                    "harness/C21/main.cpp: pooled worker threads chosen by std::hash<std::thread::id> & 3 (cache slot), ownership-map, drain and watchdog monitors",
                                    "libatomic's 16-byte compare-exchange (TaggedFreeList, -mcx16)"]
    assumptions = ["sequential consistency: memory_order arguments are not modelled", "compare_exchange_weak never fails spuriously under the hook",
                   "fewer than 2^31-1 threads (the 31-bit reference count of FreeList does not overflow into the flag bit): hypothesis of the theorems",
                   "TaggedFreeList: fewer than 2^64 successful CASes on the head (the tag does not wrap)",
                   "client discipline: a thread puts only nodes it holds; nodes are not freed while the list is in use",
                   "std::hash<std::thread::id> & (CacheSize-1) of a worker thread is what the harness computes for it (CachedFreeList slot)"]

    if ctx.replay:
        obj = json.load(open(ctx.replay))
        cases = [obj["case"]]
        fd, hits = process(ctx, model, impl, cases, stats, "replay")
        if fd is not None and not hits:
            ctx.violation("step correspondence between LV.Model.FreeList* and cds/intrusive/free_list*.h does not hold on the replayed case",
                          {"case": fd[0], "first_divergence": fd[1]}, no_input=True)
        ctx.coverage.update({"evaluations": 1, "distinct_nontrivial": len(stats["contended"]), "rule": "replay of one case"})
        return ctx.finish(trusted, assumptions)

    cases = []
    cdir = os.path.join(vcheck.VERIF, "corpus", "C21")
    for f in sorted(os.listdir(cdir)) if os.path.isdir(cdir) else []:
        if f.endswith(".json"):
            cases.append(json.load(open(os.path.join(cdir, f))))
    ncorpus = len(cases)
    nrandom = 24000 if ctx.thorough() else 6000
    cases += gen_cases(ctx, nrandom)
    samples = cases[ncorpus:ncorpus + 2]
    first_div, hits = process(ctx, model, impl, cases, stats, "c")
    ctx.log("corpus + random: %d cases, %d diverged, %d monitor hits" % (stats["n"], stats["diverged"], len(hits)))
    # model-guided window schedules
    t_w = os.times()
    wcases, winfo = gen_window_cases(ctx, model, ctx.rng.fork(), not ctx.thorough())
    wst = new_stats()
    fdw, hw = process(ctx, model, impl, wcases, wst, "win")
    t_w2 = os.times()
    winfo.update({"cpu_s": round((t_w2.user + t_w2.system + t_w2.children_user + t_w2.children_system) - (t_w.user + t_w.system + t_w.children_user + t_w.children_system), 1),
                  "cases_run": wst["n"], "cases_with_failed_cas": wst["features"].get("cas_fail", 0),
                  "cases_with_feature": dict(wst["features"]), "diverged_from_model": wst["diverged"], "monitor_hits": len(hw),
                  "distinct_event_logs": len(wst["shapes"]), "get_returned_null": wst["events"].get("ret_get_null", 0)})
    ctx.log("window schedules: %d cases (%d enumerated), features %s, %d diverged, %d monitor hits, cpu %.1fs" % (
        len(wcases), winfo["enumerated"], wst["features"], wst["diverged"], len(hw), winfo["cpu_s"]))
    merge_stats(stats, wst)
    first_div = first_div or fdw
    hits += hw
    nsweep = 0
    sweep_desc = []
    # systematic sweep: every schedule with at most `sw` context switches
    plan = []
    if ctx.thorough():
        for v in (0, 1, 2):
            for p in range(len(SWEEP_PROGRAMS)):
                plan.append((v, p, 3, 22))
        plan.append((3, 0, 3, 16))
        plan.append((0, 0, 4, 13)); plan.append((0, 1, 4, 13))
    else:
        plan = [(0, 0, 2, 24), (0, 1, 2, 24), (0, 3, 2, 24), (1, 0, 2, 16), (2, 1, 2, 20)]
    for (v, p, sw, ml) in plan:
        if hits:
            break       # a concrete failing case is already reported
        sc = sweep_cases(v, p, sw, ml)
        nsweep += len(sc)
        sweep_desc.append({"variant": VARIANT_NAMES[v], "program": SWEEP_PROGRAMS[p][3], "context_switches": sw, "segment_lengths": "0..%d" % ml, "schedules": len(sc)})
        fd2, h2 = process(ctx, model, impl, sc, stats, "w%d%d" % (v, p))
        first_div = first_div or fd2
        hits += h2
    ctx.log("sweep: %d cases, total diverged %d, monitor hits %d" % (nsweep, stats["diverged"], len(hits)))

    if (first_div is not None or not res.ok) and not hits:
        # the correspondence (or a proof) broke: look for a concrete failure of the property over more seeds
        more = gen_cases(ctx, 30000, prefix="s")
        st2 = new_stats()
        fd2, hits2 = process(ctx, model, impl, more, st2, "s")
        if not hits2 and first_div is not None:
            c, d = first_div
            ctx.violation("step correspondence between LV.Model.FreeList* and cds/intrusive/free_list*.h no longer holds (%s)" % VARIANT_NAMES.get(c["cfg"][0], "?"),
                          {"correspondence": "coq/Model/FreeList*.v vs cds/intrusive/free_list*.h", "case": c, "first_divergence": d}, no_input=True)
    if not res.ok:
        ctx.violation("Coq obligations of C21 do not check: %s" % (res.failed[:2],), {"theorem": [f[2] for f in res.failed], "errors": res.failed[:3]}, no_input=True)

    ctx.coverage.update({
        "evaluations": stats["n"], "distinct_nontrivial": len(stats["contended"]),
        "rule": "program x schedule pairs: random (2-4 threads, 1-4 get/put ops each, 1-3 nodes, k of them initially on the list; uniform, bursty, "
                "stall-after-refs-CAS (re-add race / ABA window) and double-stall schedules from one splitmix64 stream) + systematic sweep (all schedules "
                "with at most N context switches of 2 threads x 2 ops x 2 nodes) + model-guided window schedules (one / two victims stalled before a CAS, exchange or refs fetch-add/sub, actor through one of its writes; see window_schedules); distinct = distinct (variant, model event log); non-trivial = at least "
                "one failed CAS in the implementation log (contention on head, refs or a cache slot)",
        "distinct_event_logs": len(stats["shapes"]), "impl_steps_compared": stats["steps"], "diverged": stats["diverged"],
        "window_schedules": winfo, "window_cases": len(wcases),
        "corpus_cases": ncorpus, "random_cases": nrandom, "sweep_cases": nsweep, "sweeps": sweep_desc,
        "cases_per_variant": {VARIANT_NAMES[v]: c for v, c in sorted(stats["by_variant"].items())},
        "cases_with_feature": stats["features"], "cases_cut_by_step_limit": stats["fuel"],
        "client_events": stats["events"], "monitor_hits": len(hits),
        "traces_validated_against_impl": stats["n"] - stats["diverged"],
        "samples": samples,
        "modelled": "cds::intrusive::FreeList (put, get, add_knowing_refcount_is_zero), TaggedFreeList (put, get), CachedFreeList<FreeList,4> and CachedFreeList<TaggedFreeList,4> (put, get)",
    })
    # empty() / clear( disposer ): LV.Model.FreeListClear vs the real free lists (checks/C21_clear.py; theorems in the
    # companion file Properties_C21_Clear.v)
    try:
        import C21_clear
        cr = C21_clear.run_clear(ctx, report=True)
        ccov = dict(cr["coverage"])
        for k in ("print_assumptions", "obligation_names", "obligations", "discharged"):
            ccov.pop(k, None)
        ctx.coverage["empty_clear"] = ccov
        trusted = list(trusted) + list(cr["trusted"])
        assumptions = list(assumptions) + list(cr["assumptions"])
    except vcheck.BuildError as e:
        ctx.coverage["empty_clear"] = {"build_failure": str(e)[-1500:]}
        ctx.violation("harness/C21/clear_main.cpp does not build against the working tree: the empty()/clear() part cannot be checked",
                      {"kind": "build-failure", "harness": "clear_main", "error": str(e)[-2000:]}, no_input=True)
    return ctx.finish(trusted, assumptions)
