"""C21 — free lists never hand out a node twice and never lose one (DESIGN 7, C21).

Coq obligations: Properties/Properties_C21.v.  Correspondence: the extracted models of FreeList,
TaggedFreeList and CachedFreeList (coq/Model/FreeList*.v, dispatcher FreeListAll.run_case) against the real
classes (harness/C21/main.cpp) under the same deterministic schedules, event log compared line by line.
Monitor on the real code: ownership map (double_get) during the run and a quiescent drain (lost/extra/dup)
after it."""
import os, json, itertools
import vcheck, conc_check

VARIANT_NAMES = {0: "FreeList", 1: "TaggedFreeList", 2: "CachedFreeList<FreeList,4>", 3: "CachedFreeList<TaggedFreeList,4>"}
LFUEL = 60
EXTRA = ("-Wl,--no-as-needed", "-latomic")


def mk_case(cid, variant, nnodes, k, owners, threads, sched, slots=None):
    cfg = [variant, LFUEL, nnodes, k] + list(owners)
    if variant >= 2:
        cfg += list(slots if slots is not None else [0] * len(threads))
    return {"id": cid, "cfg": cfg, "threads": threads, "sched": sched}


def gen_program(rng, nthreads, nnodes, k, owners, maxops):
    """ops per thread; puts are only generated when the thread can hold something at that point (best effort:
    the model skips a put with no node, and so does the harness)"""
    threads = []
    for t in range(nthreads):
        have = sum(1 for o in owners if o == t)
        ops = []
        for _ in range(1 + rng.below(maxops)):
            if have > 0 and rng.chance(1, 2):
                ops.append([2, rng.below(have)])
                have -= 1
            else:
                ops.append([1])
                have += 1          # optimistic: the get may return nullptr, then a later put is skipped
        threads.append(ops)
    return threads


def gen_sched(rng, nthreads, kind):
    if kind == 0:      # uniform
        return [rng.below(nthreads) for _ in range(20 + rng.below(100))]
    if kind == 1:      # bursty: long runs with few switches
        s = []
        for _ in range(2 + rng.below(10)):
            s += [rng.below(nthreads)] * (1 + rng.below(12))
        return s
    if kind == 2:
        # re-add race: one thread (the getter) runs to just after its refs CAS (begin, ld head, ld refs, cas refs
        # = 4 steps, + 1 with the next load = ABA window), then stalls while the others run whole operations
        g = rng.below(nthreads)
        stall = 4 + rng.below(2)
        s = [g] * stall
        others = [t for t in range(nthreads) if t != g] or [g]
        for _ in range(1 + rng.below(4)):
            s += [rng.choice(others)] * (3 + rng.below(20))
        s += [g] * (1 + rng.below(4))
        s += [rng.below(nthreads) for _ in range(rng.below(30))]
        return s
    # kind 3: two stalls: first thread a stalls inside get, then thread b stalls inside add_knowing (after its
    # refs store), then a resumes
    a = rng.below(nthreads); b = (a + 1 + rng.below(nthreads - 1)) % nthreads if nthreads > 1 else a
    s = [a] * (3 + rng.below(4)) + [b] * (2 + rng.below(12)) + [a] * (1 + rng.below(6)) + [b] * (1 + rng.below(8))
    s += [rng.below(nthreads) for _ in range(rng.below(40))]
    return s


def gen_cases(ctx, n, prefix="g", variants=(0, 0, 0, 1, 2, 2, 3)):
    rng = ctx.rng
    cases = []
    for i in range(n):
        variant = variants[rng.below(len(variants))]
        nthreads = 2 + rng.below(3)
        nnodes = 1 + rng.below(3)
        k = rng.below(nnodes + 1)
        owners = [rng.below(nthreads) for _ in range(nnodes - k)]
        threads = gen_program(rng, nthreads, nnodes, k, owners, 4)
        sched = gen_sched(rng, nthreads, rng.below(4))
        # cache slots: mostly colliding (that is where the exchange matters)
        slots = [rng.below(2) if rng.chance(3, 4) else rng.below(4) for _ in range(nthreads)]
        cases.append(mk_case("%s%d" % (prefix, i), variant, nnodes, k, owners, threads, sched, slots))
    return cases


def dfs_cases(variant, limit=None):
    """all schedules of 2 threads x 2 ops x 2 nodes: enumerated as schedule prefixes over {0,1} of bounded length;
    the scheduler's rule (first enabled thread from the entry on) makes every interleaving reachable by some
    0/1 string; strings longer than the run are harmless.  Programs: the four that exercise the re-add race."""
    progs = [
        (2, 2, [], [[[1], [2, 0]], [[1], [2, 0]]]),
        (2, 1, [0], [[[2, 0], [1]], [[1], [2, 0]]]),
        (2, 2, [], [[[1], [1]], [[1], [2, 0]]]),
        (2, 0, [0, 1], [[[2, 0], [1]], [[2, 0], [1]]]),
    ]
    return progs


def classify(lines):
    """features of a model log used for the coverage numbers"""
    f = set()
    for l in lines:
        t = l.split(" ")
        if len(t) >= 4 and t[1] == "cas" and t[3] == "0":
            f.add("cas_fail")
        if len(t) >= 2 and t[1] == "st":
            f.add("add_path")
    return f


def monitor_verdict(extra):
    """-> list of (kind, line) for every monitor line that reports a violation"""
    bad = []
    for x in extra:
        t = x.split()
        if x.startswith("monitor double_get"):
            if int(t[2]) > 0: bad.append(("double_get", x))
            if int(t[4]) > 0: bad.append(("bad_node", x))
        elif x.startswith("monitor drain lost"):
            if int(t[3]) > 0: bad.append(("lost", x))
            if int(t[5]) > 0: bad.append(("extra", x))
            if int(t[7]) > 0: bad.append(("drain_dup", x))
            if int(t[9]) > 0: bad.append(("drain_bad", x))
        elif x.startswith("monitor hang"):
            bad.append(("hang", x))
    return bad


WHAT = {
    "double_get": "get() returned a node that another holder still has (real code, ownership-map monitor)",
    "bad_node": "get() returned a pointer that is not a node of the list (real code)",
    "lost": "a node that was put and not taken out cannot be obtained again once all threads are quiescent (real code, drain monitor)",
    "extra": "the quiescent drain returned a node that a thread still holds (real code, drain monitor)",
    "drain_dup": "the quiescent drain returned the same node twice (real code, drain monitor)",
    "drain_bad": "the quiescent drain returned a pointer that is not a node (real code)",
    "hang": "an operation of the free list does not terminate on this schedule (real code, watchdog)",
}


def run_impl_batches(ctx, impl, cases, tag):
    """the harness exits with status 3 on a hang (after printing the hung case id): run the rest in a new process"""
    logs = {}
    rest = list(cases)
    rounds = 0
    while rest and rounds < 20:
        rounds += 1
        cf = os.path.join(ctx.work, "%s_impl%d.txt" % (tag, rounds))
        conc_check.write_cases(cf, rest)
        rc, out = vcheck.sh([impl, cf], timeout=900)
        part = conc_check.parse_logs(out)
        logs.update(part)
        hung = [cid for cid, l in part.items() if l["end"] == "hang"]
        if not hung:
            break
        idx = next((j for j, c in enumerate(rest) if c["id"] == hung[0]), None)
        if idx is None:
            break
        rest = rest[idx + 1:]
    return logs


def run_both(ctx, model, impl, cases, tag):
    cf = os.path.join(ctx.work, tag + ".txt")
    conc_check.write_cases(cf, cases)
    rc1, out1 = vcheck.sh("%s %d < %s" % (model, 20000, cf), timeout=900)
    mlog = conc_check.parse_logs(out1)
    ilog = run_impl_batches(ctx, impl, cases, tag)
    return mlog, ilog


def evaluate(ctx, cases, mlog, ilog, stats, report=True):
    """compare logs, read monitors.  returns (first_divergence or None, monitor_hits)"""
    first_div = None
    hits = []
    for c in cases:
        m = mlog.get(c["id"]); i = ilog.get(c["id"])
        v = c["cfg"][0]
        if i is not None:
            for kind, line in monitor_verdict(i["extra"]):
                hits.append((kind, c, line))
                if report:
                    ctx.violation("%s: %s" % (VARIANT_NAMES.get(v, v), WHAT[kind]), {"case": c, "monitor": line, "impl_log": i["lines"]})
        if m is None or i is None:
            stats["diverged"] += 1
            if first_div is None:
                first_div = (c, {"index": -1, "model": "<no output>" if m is None else "ok", "impl": "<no output>" if i is None else "ok", "prefix": []})
            continue
        stats["steps"] += len(i["lines"])
        d = conc_check.compare(m, i)
        shape = hash((v, tuple(m["lines"])))
        stats["shapes"].add(shape)
        f = classify(m["lines"])
        if "cas_fail" in f:
            stats["contended"].add(shape)
        if "add_path" in f:
            stats["add_path"] += 1
        stats["by_variant"][v] = stats["by_variant"].get(v, 0) + 1
        if m["end"] == "fuel" or i["end"] == "fuel":
            stats["fuel"] += 1
        for l in m["lines"]:
            t = l.split(" ")
            if len(t) >= 3 and t[1] == "ev":
                stats["events"][t[2]] = stats["events"].get(t[2], 0) + 1
                if t[2] == "ret_get" and t[3] == "-1":
                    stats["events"]["ret_get_null"] = stats["events"].get("ret_get_null", 0) + 1
        if d is not None:
            stats["diverged"] += 1
            if first_div is None:
                first_div = (c, d)
    return first_div, hits


def dfs_all(ctx, model, impl, stats):
    """thorough tier: exhaustive DFS over all schedules of 2 threads x 2 ops x 2 nodes.  A schedule is a 0/1
    string; the set of distinct runs is explored by extending the string while the run is longer than it."""
    total = 0
    first_div = None
    for variant in (0, 1, 2):
        for (nnodes, k, owners, threads) in dfs_cases(variant):
            frontier = [[]]
            seen_logs = set()
            depth = 0
            while frontier and depth < 64:
                cases = []
                for j, s in enumerate(frontier):
                    for b in (0, 1):
                        cases.append(mk_case("d%d_%d_%d" % (depth, j, b), variant, nnodes, k, owners, threads, s + [b], [0, 0]))
                # run the model only to find which prefixes are still live (run longer than the prefix and distinct)
                cf = os.path.join(ctx.work, "dfs.txt")
                conc_check.write_cases(cf, cases)
                rc1, out1 = vcheck.sh("%s %d < %s" % (model, 20000, cf), timeout=900)
                mlog = conc_check.parse_logs(out1)
                ilog = run_impl_batches(ctx, impl, cases, "dfs")
                fd, hits = evaluate(ctx, cases, mlog, ilog, stats)
                total += len(cases)
                if fd is not None and first_div is None:
                    first_div = fd
                nxt = []
                for c in cases:
                    m = mlog.get(c["id"])
                    if m is None:
                        continue
                    nsteps = sum(1 for l in m["lines"] if l.split(" ")[1] != "ev")
                    # the prefix decided the first len(sched) steps; keep it only if the run goes on after it and
                    # both threads are still running at that point (otherwise the continuation is forced)
                    key = tuple(m["lines"][:])
                    if nsteps > len(c["sched"]):
                        pre = []
                        cnt = 0
                        for l in m["lines"]:
                            if l.split(" ")[1] != "ev":
                                cnt += 1
                            pre.append(l)
                            if cnt == len(c["sched"]):
                                break
                        pk = tuple(pre)
                        if pk in seen_logs:
                            continue
                        seen_logs.add(pk)
                        nxt.append(c["sched"])
                frontier = nxt
                depth += 1
                if total > 400000:
                    break
    return total, first_div


def run(ctx):
    res = vcheck.coq_build(["Properties/Properties_C21.v"])
    ctx.coq_evidence(res)
    model = conc_check.build_model(ctx, "Extract_FreeList.v")
    impl = vcheck.cxx_build(os.path.join(vcheck.VERIF, "harness/C21/main.cpp"), os.path.join(ctx.work, "harness"),
                            hook=True, link_cds=False, extra=EXTRA)
    stats = {"diverged": 0, "steps": 0, "shapes": set(), "contended": set(), "add_path": 0, "by_variant": {}, "fuel": 0, "events": {}}

    if ctx.replay:
        obj = json.load(open(ctx.replay))
        cases = [obj["case"]]
        mlog, ilog = run_both(ctx, model, impl, cases, "replay")
        fd, hits = evaluate(ctx, cases, mlog, ilog, stats)
        if fd is not None and not hits:
            ctx.violation("step correspondence between LV.Model.FreeList* and cds/intrusive/free_list*.h does not hold on the replayed case",
                          {"case": fd[0], "first_divergence": fd[1]}, no_input=True)
        ctx.coverage.update({"evaluations": 1, "distinct_nontrivial": len(stats["contended"]), "rule": "replay of one case"})
        return ctx.finish(vcheck.STD_TRUSTED, [])

    n = 6000 if ctx.thorough() else 1500
    cases = []
    cdir = os.path.join(vcheck.VERIF, "corpus", "C21")
    for f in sorted(os.listdir(cdir)) if os.path.isdir(cdir) else []:
        if f.endswith(".json"):
            cases.append(json.load(open(os.path.join(cdir, f))))
    ncorpus = len(cases)
    cases += gen_cases(ctx, n)
    mlog, ilog = run_both(ctx, model, impl, cases, "cases")
    first_div, hits = evaluate(ctx, cases, mlog, ilog, stats)
    dfs_total = 0
    if ctx.thorough():
        dfs_total, fd2 = dfs_all(ctx, model, impl, stats)
        first_div = first_div or fd2

    if (first_div is not None or not res.ok) and not hits:
        # the correspondence (or a proof) broke: look for a concrete failure of the property over more seeds
        more = gen_cases(ctx, 6000, prefix="s")
        ml2, il2 = run_both(ctx, model, impl, more, "search")
        st2 = {"diverged": 0, "steps": 0, "shapes": set(), "contended": set(), "add_path": 0, "by_variant": {}, "fuel": 0, "events": {}}
        fd2, hits2 = evaluate(ctx, more, ml2, il2, st2)
        if not hits2 and first_div is not None:
            c, d = first_div
            ctx.violation("step correspondence between LV.Model.FreeList* and cds/intrusive/free_list*.h no longer holds (%s)" % VARIANT_NAMES.get(c["cfg"][0], "?"),
                          {"correspondence": "coq/Model/FreeList*.v vs cds/intrusive/free_list*.h", "case": c, "first_divergence": d}, no_input=True)
    if not res.ok:
        ctx.violation("Coq obligations of C21 do not check: %s" % (res.failed[:2],), {"theorem": [f[2] for f in res.failed], "errors": res.failed[:3]}, no_input=True)

    ctx.coverage.update({
        "evaluations": len(cases) + dfs_total, "distinct_nontrivial": len(stats["contended"]),
        "rule": "program x schedule pairs (2-4 threads, 1-4 get/put ops each, 1-3 nodes, k of them initially on the list; uniform, bursty, "
                "stall-after-refs-CAS (re-add race / ABA window) and double-stall schedules from one splitmix64 stream); distinct = distinct "
                "(variant, model event log); non-trivial = at least one failed CAS (contention on head, refs or a cache slot)",
        "distinct_event_logs": len(stats["shapes"]), "impl_steps_compared": stats["steps"], "diverged": stats["diverged"],
        "corpus_cases": ncorpus, "cases_per_variant": {VARIANT_NAMES[v]: c for v, c in sorted(stats["by_variant"].items())},
        "cases_through_add_knowing_refcount_is_zero_or_put_store": stats["add_path"], "cases_cut_by_step_limit": stats["fuel"],
        "client_events": stats["events"], "dfs_cases": dfs_total, "monitor_hits": len(hits),
        "traces_validated_against_impl": len(cases) + dfs_total - stats["diverged"],
        "samples": cases[ncorpus:ncorpus + 2] if len(cases) > ncorpus else cases[:1],
        "modelled": "cds::intrusive::FreeList (put, get, add_knowing_refcount_is_zero), TaggedFreeList (put, get), CachedFreeList<FreeList,4> and CachedFreeList<TaggedFreeList,4> (put, get)",
    })
    return ctx.finish(vcheck.STD_TRUSTED + ["hook layer: khizmax_libcds_verif::atomic<T>, baton scheduler, event log (hooks/include)", "ocaml/conc_main.ml event printer",
                                            "harness/C21/main.cpp: pooled worker threads chosen by std::hash<std::thread::id> & 3 (cache slot), ownership-map and drain monitors",
                                            "libatomic's 16-byte compare-exchange (TaggedFreeList, -mcx16)"],
                      ["sequential consistency: memory_order arguments are not modelled", "compare_exchange_weak never fails spuriously under the hook",
                       "fewer than 2^31-1 threads (the 31-bit reference count of FreeList does not overflow into the flag bit)",
                       "TaggedFreeList: fewer than 2^64 successful CASes on the head (the tag does not wrap)",
                       "client discipline: a thread puts only nodes it holds; nodes are not freed while the list is in use"])
