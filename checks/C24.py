"""C24 — object pools never hand one object to two holders; deallocated objects become available again
(DESIGN 7, C24).

1. Coq: Properties/Properties_C24.v (ownership invariant of LV.Model.Pools on top of the Vyukov queue invariants).
2. Step correspondence LV.Model.Pools <-> cds::memory::{vyukov_queue_pool, lazy_vyukov_queue_pool,
   bounded_vyukov_queue_pool} (directly and through pool_allocator), harness/C24/main.cpp.
3. Implementation-side monitor: ownership map over the implementation log (an object returned by allocate while
   another holder has it = violation) and, at quiescence, the pool drained by the main thread must contain exactly
   the objects that were deallocated into it and not handed out again."""
import os, json
import vcheck, conc_check, conc_windows
import C07 as q07

WHAT_OWN = "a pool handed out an object that is currently allocated to another holder (ownership map over the implementation log)"
WHAT_AVAIL = "objects deallocated into the pool are not all obtainable again at quiescence, or the pool yields an object it should not contain (ownership map over the implementation log + drain by the main thread)"
WHAT_CRASH = "the harness process running the real pool died (abort / fault, e.g. glibc double free detection) on this program and schedule"
WHAT_HANG = "an allocate/deallocate of the real pool does not return within 20000 scheduled steps of a fair (round-robin) schedule; the model terminates on the same program and schedule"


def monitor(case, ilog):
    cap, kind = case["cfg"][0], case["cfg"][1]
    holders = {}
    pooled = set(range(1, cap + 1)) if kind != 1 else set()   # objects in the pool or on their way into it
    for l in ilog["lines"]:
        t = l.split(" ")
        if len(t) < 3 or t[1] != "ev":
            continue
        tid, name, args = int(t[0]), t[2], [int(x) for x in t[3:]]
        if name == "ret_alloc" and args and args[0] != 0:
            p = args[0]
            if p in holders:
                return (WHAT_OWN, {"object": p, "held_by_thread": holders[p], "handed_to_thread": tid})
            holders[p] = tid
            pooled.discard(p)
        elif name == "inv_dealloc":
            holders.pop(args[0], None)
            pooled.add(args[0])
        elif name == "free":
            pooled.discard(args[0])
    finished = ilog["end"] == "finished" and not any(" ev outoffuel" in l for l in ilog["lines"])
    if finished:
        drained = None
        for x in ilog["extra"]:
            if x.startswith("monitor pool"):
                drained = [int(v) for v in x.split()[2:]]
        if drained is not None:
            if len(set(drained)) != len(drained) or set(drained) != pooled or any(p in holders for p in drained):
                return (WHAT_AVAIL, {"drained_at_quiescence": drained, "expected_pool_content": sorted(pooled), "still_held": sorted(holders)})
    return None


def impl_bad(case, i, m=None):
    if i is None:
        return None
    bad = monitor(case, i)
    if bad is not None:
        return bad
    if i["end"] == "crash":
        return (WHAT_CRASH, {"exit_status": i.get("rc"), "output_tail": i.get("output_tail"), "events_before": [l for l in i["lines"] if " ev " in l][-6:]})
    if i["end"] in ("hang", "fuel") and (m is None or m["end"] == "finished"):
        return (WHAT_HANG, {"impl_end": i["end"], "last_events": [l for l in i["lines"] if " ev " in l][-4:]})
    return None


def gen_case(rng, i):
    cap = rng.choice([2, 2, 4])
    kind = rng.below(3)
    adapter = 1 if rng.chance(1, 3) else 0
    nt = 2 + rng.below(3)
    shape = rng.below(4)
    threads = []
    for t in range(nt):
        ops = []
        if shape == 0:      # everybody allocates past capacity, then releases
            na = 1 + rng.below(cap + 1)
            ops = [[1] for _ in range(na)] + [[2, rng.below(4)] for _ in range(rng.below(na + 1))]
        elif shape == 1:    # allocate / release pairs (objects circulate through the pool many times)
            for _ in range(1 + rng.below(4)):
                ops += [[1], [2, 0]]
        else:               # mixed
            for _ in range(1 + rng.below(6)):
                ops.append([1] if rng.chance(3, 5) else [2, rng.below(4)])
        threads.append(ops)
    nops = sum(len(t) for t in threads)
    sched = q07.rand_sched(rng, nt, rng.below(3), 8 * nops + rng.below(40))
    return {"id": "g%d" % i, "cfg": [cap, kind, adapter, 400], "threads": threads, "sched": sched, "shape": shape}


# model-guided window schedules (lib/conc_windows.py): as in C07 the victim is stalled right before its position CAS
# or its sequence publish (a plain store) inside the pool's queue, the actor runs through one of its own CAS / publish
# steps or to its end, optionally a third thread in between, then r victim steps.
# (capacity, set-up operations of thread 0, threads): A = allocate, D = deallocate the first held object
WINDOW_TEMPLATES = [
    (2, "",   [["A"], ["A"], ["A"]], True),               # three allocations for two pooled objects: the loser falls back (heap / bad_alloc / retry)
    (2, "AA", [["D"], ["A"], ["A"]], True),               # empty pool: allocations race with the release that refills it
    (2, "AA", [["D", "D"], ["A"], ["A", "A"]], False),
    (2, "",   [["A", "D"], ["A", "D"], ["A", "D"]], False),
    (2, "A",  [["D", "A"], ["A", "D"]], False),
    (4, "AAA", [["A"], ["A"], ["D", "A"]], False),
    (2, "AA", [["D"], ["D"], ["A"]], True),               # two releases race for the queue position, one allocation
    (2, "A",  [["A", "D", "D"], ["A"], ["A", "D"]], False),
]
WINDOW_KINDS = ("cas", "st")


def gen_window_cases(ctx, model, rng, quick):
    wdir = os.path.join(ctx.work, "wprobe")
    os.makedirs(wdir, exist_ok=True)
    cases = []
    info = {"templates": len(WINDOW_TEMPLATES), "enumerated": 0, "model_probes": 0}
    conv = lambda txt: [([1] if ch == "A" else [2, 0]) for ch in txt]
    for ti, (cap, setup, tpl, third) in enumerate(WINDOW_TEMPLATES):
        combos = [(kind, adapter) for kind in (0, 1, 2) for adapter in (0, 1)]
        if quick:
            combos = [combos[(ctx.seed + ti) % 6], combos[(ctx.seed + ti + 3) % 6]]
        for (kind, adapter) in combos:
            cfg = [cap, kind, adapter, 400]
            tag = "w%d_%d%d" % (ti, kind, adapter)
            threads, sw, inf = conc_windows.windows(model, wdir, cfg, [conv(th) for th in tpl], setup=conv(setup), kinds=WINDOW_KINDS, max_r=8,
                                                    third=third and not quick, tag=tag, max_stalls=8)
            info["enumerated"] += len(sw)
            info["model_probes"] += inf["model_probes"]
            for name, sched in conc_windows.subsample(rng, sw, 36 if quick else None):
                cases.append({"id": "%s_%s" % (tag, name), "cfg": cfg, "threads": threads, "sched": sched, "shape": "window", "window": True})
    if not quick and len(cases) > 6000:
        # thorough tier: the full enumeration, up to a budget (a seeded subsample beyond it; 'enumerated' says how many there are)
        cases = conc_windows.subsample(rng, cases, 6000)
        info["thorough_budget"] = 6000
    info["cases"] = len(cases)
    return cases, info


# ---------------------------------------------------------------------------------------------------------------
# MONITOR-ONLY pass (harness/C24/dtor.cpp; no model, no step correspondence): the pools hold a value type whose
# constructor and destructor each perform one instrumented atomic store, so construction / destruction of the pooled
# object is a scheduling point, and the harness keeps an ownership record per address (HELD by t from the return of
# allocate, DEALLOC by t from the call of deallocate to its return, with "destructor done").  Violation: allocate() returns an
# object that another thread holds, that another thread's deallocate() has not destroyed yet, or that is not alive; a
# destructor / constructor runs on an object another thread holds.  (bounded_vyukov_queue_pool runs neither constructor
# nor destructor: only the hand-out-while-held rule applies to it.)
# Cases: small programs x uniform / bursty schedules (pass 1), then implementation-guided windows around deallocate:
# the run is replayed up to each access of a deallocating thread (the destructor's store, every access of the queue
# push), that thread is stalled there, another thread runs long enough for a whole allocate(), then the rest.
WHAT_DTOR = "a pool made an object available (or handed it out) before deallocate() was done with it: allocate() returned an object that another thread's deallocate() has not finished destroying / that another thread holds / that is already destroyed, or a destructor ran on an object another thread holds (ownership record of harness/C24/dtor.cpp; value type with an instrumented constructor and destructor)"
DTOR_PROGRAMS = [
    # lazy pool: an allocate racing with a release refills from the very object being released
    [[[1], [2, 0]], [[1]]],
    [[[1], [2, 0], [1]], [[1], [2, 0]]],
    [[[1], [2, 0]], [[1], [2, 0]], [[1]]],
    [[[1], [1], [2, 0], [2, 0]], [[1], [1]]],
    [[[1], [2, 0], [1], [2, 0]], [[1], [2, 0], [1]], [[1], [1]]],
]


def dtor_base_cases(rng, n):
    cases = []
    for i in range(n):
        prog = DTOR_PROGRAMS[i % len(DTOR_PROGRAMS)] if i < 2 * len(DTOR_PROGRAMS) else None
        if prog is None:
            nt = 2 + rng.below(2)
            prog = []
            for t in range(nt):
                ops = []
                for _ in range(1 + rng.below(3)):
                    ops += [[1], [2, rng.below(3)]] if rng.chance(2, 3) else [[1]]
                prog.append(ops)
        kind = 1 if rng.chance(3, 5) else rng.choice([0, 2])       # mostly the lazy pool (objects come back through the queue only)
        cap = rng.choice([2, 2, 4])
        nt = len(prog)
        nops = sum(len(t) for t in prog)
        k = i % 3
        if k == 0:      # one thread after the other: every later thread finds what the earlier ones released
            sched = []
            for t in range(nt):
                sched += [t] * (14 * len(prog[t]) + 4)
        else:
            sched = q07.rand_sched(rng, nt, k - 1, 10 * nops + rng.below(30))
        cases.append({"id": "d%d" % i, "cfg": [cap, kind, 1 if rng.chance(1, 3) else 0], "threads": prog, "sched": sched})
    return cases


def dtor_windows(rng, case, lines, limit):
    """implementation-guided windows of one run: stall a deallocating thread after each of its accesses"""
    steps = []          # (tid, inside a deallocate?) of every scheduled step
    inside = {}
    for l in lines:
        t = l.split(" ")
        if len(t) < 2:
            continue
        if t[1] == "ev":
            if len(t) > 2 and t[2] == "inv_dealloc": inside[t[0]] = True
            elif len(t) > 2 and t[2] == "ret_dealloc": inside[t[0]] = False
            continue
        steps.append((int(t[0]), inside.get(t[0], False)))
    nt = len(case["threads"])
    pts = [k for k, (tid, ins) in enumerate(steps) if ins]
    # also the step right before a deallocate's first access (stalled at the entry of deallocate)
    out = []
    for k in pts:
        v = steps[k][0]
        for a in range(nt):
            if a == v:
                continue
            for upto in (k, k + 1):         # stalled right before / right after this access
                sched = [x[0] for x in steps[:upto]] + [a] * 30 + [v] * 40
                out.append({"id": "%s_w%d_%d_%d" % (case["id"], upto, v, a), "cfg": case["cfg"], "threads": case["threads"], "sched": sched, "window": True})
    if len(out) > limit:
        out = conc_windows.subsample(rng, out, limit)
    return out


def run_dtor(ctx, impl, cases, tag):
    cf = os.path.join(ctx.work, tag + ".txt")
    conc_check.write_cases(cf, cases)
    rc, out = vcheck.sh([impl, cf], timeout=600)
    return rc, conc_check.parse_logs(out)


def dtor_pass(ctx):
    """-> info dict; reports violations through ctx"""
    t0 = os.times()
    impl = vcheck.cxx_build(os.path.join(vcheck.VERIF, "harness/C24/dtor.cpp"), os.path.join(ctx.work, "harness_dtor"), hook=True, link_cds=False)
    rng = ctx.rng.fork()
    quick = not ctx.thorough()
    base = dtor_base_cases(rng, 40 if quick else 200)
    rc1, logs1 = run_dtor(ctx, impl, base, "dtor_base")
    wins = []
    for c in base:
        i = logs1.get(c["id"])
        if i is not None and i["end"] == "finished":
            wins += dtor_windows(rng, c, i["lines"], 6 if quick else 40)
    rc2, logs2 = run_dtor(ctx, impl, wins, "dtor_win")
    info = {"base_cases": len(base), "window_cases": len(wins), "ran": 0, "rejected": 0, "unfinished": 0, "by_kind": {}, "destructor_steps": 0,
            "allocations_from_the_queue_while_another_deallocate_is_running": 0}
    reported = False
    for cases, logs, rc in ((base, logs1, rc1), (wins, logs2, rc2)):
        for c in cases:
            i = logs.get(c["id"])
            if i is None or i["end"] is None:
                if not reported:
                    reported = True
                    ctx.violation(WHAT_CRASH + " (monitor-only pass with an instrumented constructor / destructor)", {"case": {k: c[k] for k in ("cfg", "threads", "sched")}, "harness": "harness/C24/dtor.cpp", "exit_status": rc})
                break
            info["ran"] += 1
            info["by_kind"][c["cfg"][1]] = info["by_kind"].get(c["cfg"][1], 0) + 1
            if i["end"] != "finished":
                info["unfinished"] += 1
            # how often the window is really open: an allocate returns while another thread is inside deallocate
            inside = set()
            for l in i["lines"]:
                t = l.split(" ")
                if len(t) > 2 and t[1] == "ev":
                    if t[2] == "inv_dealloc": inside.add(t[0])
                    elif t[2] == "ret_dealloc": inside.discard(t[0])
                    elif t[2] == "ret_alloc" and (inside - {t[0]}):
                        info["allocations_from_the_queue_while_another_deallocate_is_running"] += 1
            bad = [x for x in i["extra"] if x.startswith("monitor bad")]
            if bad:
                info["rejected"] += 1
                ctx.violation(WHAT_DTOR, {"case": {k: c[k] for k in ("cfg", "threads", "sched")}, "harness": "harness/C24/dtor.cpp", "pool_kind": {0: "vyukov_queue_pool", 1: "lazy_vyukov_queue_pool", 2: "bounded_vyukov_queue_pool"}.get(c["cfg"][1]),
                                          "monitor": bad, "impl_log": i["lines"], "window_case": bool(c.get("window"))})
    t1 = os.times()
    info["cpu_s"] = round((t1.user + t1.system + t1.children_user + t1.children_system) - (t0.user + t0.system + t0.children_user + t0.children_system), 1)
    ctx.log("destructor monitor pass: %d cases (%d base + %d windows around deallocate), %d allocations completed while another thread was inside deallocate, %d rejected, cpu %.1fs" % (
        info["ran"], len(base), len(wins), info["allocations_from_the_queue_while_another_deallocate_is_running"], info["rejected"], info["cpu_s"]))
    return info


def run_batch(ctx, model, impl, cases, tag):
    cf = os.path.join(ctx.work, tag + ".txt")
    conc_check.write_cases(cf, cases)
    rc1, out1 = vcheck.sh("%s %d < %s" % (model, 20000, cf), timeout=900)
    return conc_check.parse_logs(out1), q07.run_impl(ctx, impl, cases, tag)


def minimise(ctx, impl, case, what):
    best = case
    budget = 6 if what in (WHAT_HANG, WHAT_CRASH) else 25
    improved = True
    while improved and budget > 0:
        improved = False
        cands = []
        for ti, th in enumerate(best["threads"]):
            for oi in range(len(th)):
                c = json.loads(json.dumps(best))
                del c["threads"][ti][oi]
                if all(len(t) == 0 for t in c["threads"]):
                    continue
                cands.append(c)
        if len(best["sched"]) > 4:
            c = json.loads(json.dumps(best)); c["sched"] = c["sched"][:len(c["sched"]) // 2]; cands.append(c)
        for k, c in enumerate(cands):
            c["id"] = "m%d" % k
        if not cands:
            break
        budget -= 1
        il = q07.run_impl(ctx, impl, cands, "min", max_hangs=3)
        for c in cands:
            b = impl_bad(c, il.get(c["id"]))
            if b is not None and b[0] == what:
                best = c
                improved = True
                break
    return best


def report(ctx, model, impl, case, bad, extra=None):
    what, det = bad
    cm = minimise(ctx, impl, case, what)
    ml, il = run_batch(ctx, model, impl, [dict(cm, id="min")], "minrun")
    im = il.get("min"); mm = ml.get("min")
    b2 = impl_bad(cm, im, mm)
    obj = {"case": {k: cm[k] for k in ("cfg", "threads", "sched")}, "impl_log": im["lines"] if im else None,
           "observed": b2[1] if b2 else det, "model_log_same_case": mm["lines"] if mm else None,
           "first_divergence_model_vs_impl": q07.compare(mm, im) if (mm and im) else None,
           "unminimised_case": {k: case[k] for k in ("cfg", "threads", "sched")}}
    if extra:
        obj.update(extra)
    ctx.violation(what, obj)


def run(ctx):
    res = vcheck.coq_build(["Properties/Properties_C24.v"])
    ctx.coq_evidence(res)
    model = conc_check.build_model(ctx, "Extract_Pools.v")
    impl = vcheck.cxx_build(os.path.join(vcheck.VERIF, "harness/C24/main.cpp"), os.path.join(ctx.work, "harness"), hook=True, link_cds=False)
    trusted = vcheck.STD_TRUSTED + ["hook layer: khizmax_libcds_verif::atomic<T>, baton scheduler, event log (hooks/include)", "ocaml/conc_main.ml event printer",
                                    "checks/C24.py: log normalisation and the ownership-map monitor (failing-input search only)",
                                    "harness/C24/dtor.cpp: value type with an instrumented constructor / destructor and the per-address ownership record (monitor-only pass)"]
    assumptions = ["sequential consistency: memory_order arguments are not modelled", "compare_exchange_weak never fails spuriously under the hook",
                   "clients deallocate only objects they hold, once (the property's notion of holder)",
                   "heap allocation returns an address that is not in use (fresh object numbers in the model)",
                   "pool capacity is a power of two >= 2; fewer than 2^62 - capacity successful pushes"]

    if ctx.replay:
        rp = json.load(open(ctx.replay))
        c = rp.get("case")
        if c is None:
            ctx.log("replay file carries no case"); return ctx.finish(trusted, assumptions)
        c["id"] = "replay"
        if rp.get("harness") == "harness/C24/dtor.cpp":
            # a case of the monitor-only pass: re-run it on the instrumented-destructor harness
            dimpl = vcheck.cxx_build(os.path.join(vcheck.VERIF, "harness/C24/dtor.cpp"), os.path.join(ctx.work, "harness_dtor"), hook=True, link_cds=False)
            rc_d, logs_d = run_dtor(ctx, dimpl, [c], "dtor_replay")
            i = logs_d.get("replay")
            badl = [x for x in (i["extra"] if i else []) if x.startswith("monitor bad")]
            ctx.log("replay (destructor monitor pass): %s" % ("REJECTED %s" % badl if badl else ("no output (exit status %s)" % rc_d if i is None or i["end"] is None else "accepted")))
            if badl:
                ctx.violation(WHAT_DTOR + " (replay)", {"case": c, "harness": "harness/C24/dtor.cpp", "monitor": badl, "impl_log": i["lines"]})
            elif i is None or i["end"] is None:
                ctx.violation(WHAT_CRASH + " (replay, monitor-only pass)", {"case": c, "harness": "harness/C24/dtor.cpp", "exit_status": rc_d})
            return ctx.finish(trusted, assumptions)
        mlog, ilog = run_batch(ctx, model, impl, [c], "replay")
        i = ilog.get("replay"); m = mlog.get("replay")
        bad = impl_bad(c, i, m)
        d = q07.compare(m, i) if (m and i) else {"index": -1}
        ctx.log("replay: oracle %s, correspondence %s" % ("REJECTS (%s)" % bad[0][:60] if bad else "accepts", "DIVERGES at %s" % d["index"] if d else "agrees"))
        if bad:
            ctx.violation(bad[0] + " (replay)", {"case": c, "impl_log": i["lines"], "observed": bad[1]})
        elif d:
            ctx.violation("step correspondence LV.Model.Pools / vyukov_queue_pool.h diverges (replay)", {"case": c, "first_divergence": d}, no_input=True)
        return ctx.finish(trusted, assumptions)

    n = 2500 if ctx.thorough() else 500
    cases = []
    cdir = os.path.join(vcheck.VERIF, "corpus", "C24")
    for f in sorted(os.listdir(cdir)) if os.path.isdir(cdir) else []:
        if f.endswith(".json"):
            c = json.load(open(os.path.join(cdir, f)))
            c = c.get("case", c)
            c["id"] = "c" + f[:-5].replace(" ", "_")
            cases.append(c)
    ncorpus = len(cases)
    cases += [gen_case(ctx.rng, i) for i in range(n)]
    mlog, ilog = run_batch(ctx, model, impl, cases, "cases")
    stalls = []
    for c in cases[ncorpus:]:
        m = mlog.get(c["id"])
        if m is not None:
            stalls += q07.stall_variants(ctx.rng, c, m["lines"], 1)
    mlog2, ilog2 = run_batch(ctx, model, impl, stalls, "stalls")
    mlog.update(mlog2); ilog.update(ilog2)
    cases += stalls
    # third pass: model-guided window schedules
    t_w = os.times()
    wcases, winfo = gen_window_cases(ctx, model, ctx.rng.fork(), not ctx.thorough())
    mlog3, ilog3 = run_batch(ctx, model, impl, wcases, "windows")
    mlog.update(mlog3); ilog.update(ilog3)
    cases += wcases
    t_w2 = os.times()
    winfo["cpu_s"] = round((t_w2.user + t_w2.system + t_w2.children_user + t_w2.children_system) - (t_w.user + t_w.system + t_w.children_user + t_w.children_system), 1)
    wstats = conc_windows.RetryStats(outcome=lambda name, a: ("0" if (name == "alloc" and a and a[0] == "0") else ""))
    for c in wcases:
        if ilog.get(c["id"]) is not None:
            wstats.add(ilog[c["id"]]["lines"], tuple(c["cfg"][:3]))
    winfo.update(wstats.summary())
    ctx.log("window schedules: %d cases (%d enumerated), %d with a failed CAS, %d with an operation on a retry path, cpu %.1fs" % (
        len(wcases), winfo["enumerated"], winfo["cases_with_failed_cas"], winfo["cases_with_retry_path"], winfo["cpu_s"]))

    shapes = set(); nontrivial = set(); diverged = 0; steps = 0; first_div = None; nbad = 0; not_run = 0
    hist = {"alloc_from_pool": 0, "alloc_from_heap": 0, "bad_alloc": 0, "dealloc": 0, "heap_free": 0, "cas_failed": 0,
            "stall_cases": len(stalls), "by_kind": {}, "by_capacity": {}, "through_pool_allocator": 0, "model_fuel": 0, "impl_fuel_or_hang": 0}
    for c in cases:
        m = mlog.get(c["id"]); i = ilog.get(c["id"])
        if i is None and m is not None:
            not_run += 1
            continue
        if m is None or i is None:
            diverged += 1
            first_div = first_div or (c, {"index": -1, "model": "<no output>" if m is None else "ok", "impl": "<no output>" if i is None else "ok", "prefix": []})
            continue
        steps += len(i["lines"])
        d = q07.compare(m, i)
        key = hash((tuple(c["cfg"][:3]), tuple(m["lines"])))
        shapes.add(key)
        cap, kind = c["cfg"][0], c["cfg"][1]
        hist["by_kind"][kind] = hist["by_kind"].get(kind, 0) + 1
        hist["by_capacity"][cap] = hist["by_capacity"].get(cap, 0) + 1
        hist["through_pool_allocator"] += c["cfg"][2]
        if m["end"] != "finished": hist["model_fuel"] += 1
        if i["end"] != "finished": hist["impl_fuel_or_hang"] += 1
        nt = False
        for l in m["lines"]:
            t = l.split(" ")
            if len(t) >= 4 and t[1] == "ev" and t[2] == "ret_alloc":
                p = int(t[3])
                if p == 0: hist["bad_alloc"] += 1; nt = True
                elif p <= cap and kind != 1: hist["alloc_from_pool"] += 1
                elif kind == 1 and any(l2.endswith(" ev inv_dealloc %d" % p) for l2 in m["lines"][:m["lines"].index(l)]): hist["alloc_from_pool"] += 1; nt = True
                else: hist["alloc_from_heap"] += 1; nt = True
            elif len(t) >= 3 and t[1] == "ev" and t[2] == "inv_dealloc": hist["dealloc"] += 1
            elif len(t) >= 3 and t[1] == "ev" and t[2] == "free": hist["heap_free"] += 1
            elif len(t) == 4 and t[1] == "cas" and t[3] == "0": hist["cas_failed"] += 1; nt = True
        if c.get("stall") or c.get("window"): nt = True
        if nt: nontrivial.add(key)
        bad = impl_bad(c, i, m)
        if c.get("window"):
            winfo["rejected_by_oracle"] = winfo.get("rejected_by_oracle", 0) + (1 if bad is not None else 0)
            winfo["diverged_from_model"] = winfo.get("diverged_from_model", 0) + (1 if d is not None else 0)
        if bad is not None:
            nbad += 1
            if bad[0] not in getattr(ctx, "what_count", {}):
                report(ctx, model, impl, c, bad)
        if d is not None:
            diverged += 1
            if first_div is None:
                first_div = (c, d)
    if winfo.get("rejected_by_oracle") or winfo.get("diverged_from_model"):
        ctx.log("window schedules: %d rejected by the implementation-side oracle, %d diverged from the model" % (winfo.get("rejected_by_oracle", 0), winfo.get("diverged_from_model", 0)))
    if first_div is not None and nbad == 0:
        c, d = first_div
        found = False
        for r in range(6 if ctx.thorough() else 3):
            more = [gen_case(ctx.rng, 100000 + r * 2000 + k) for k in range(1200)]
            il = q07.run_impl(ctx, impl, more, "search")
            extra = []
            for c2 in more:
                i2 = il.get(c2["id"])
                bad = impl_bad(c2, i2)
                if bad is not None:
                    report(ctx, model, impl, c2, bad, {"correspondence_first_divergence": d, "correspondence_case": {k: c[k] for k in ("cfg", "threads", "sched")}})
                    found = True
                    break
                if i2 is not None and len(extra) < 1200:
                    extra += q07.stall_variants(ctx.rng, c2, i2["lines"], 1)
            if not found and extra:
                il = q07.run_impl(ctx, impl, extra, "search2")
                for c2 in extra:
                    bad = impl_bad(c2, il.get(c2["id"]))
                    if bad is not None:
                        report(ctx, model, impl, c2, bad, {"correspondence_first_divergence": d, "correspondence_case": {k: c[k] for k in ("cfg", "threads", "sched")}})
                        found = True
                        break
            if found:
                break
        if not found:
            ctx.violation("step correspondence between LV.Model.Pools and cds/memory/vyukov_queue_pool.h no longer holds",
                          {"correspondence": "Model/Pools.v vs cds::memory::vyukov_queue_pool / lazy_vyukov_queue_pool / bounded_vyukov_queue_pool / pool_allocator",
                           "case": {k: c[k] for k in ("cfg", "threads", "sched")}, "first_divergence": d}, no_input=True)
    dinfo = dtor_pass(ctx)
    if not res.ok:
        ctx.violation("Coq obligations of C24 do not check: %s" % (res.failed[:2],), {"theorem": [f[2] for f in res.failed], "errors": res.failed[:3]}, no_input=True)
    ctx.coverage.update({
        "evaluations": len(cases) - not_run, "distinct_nontrivial": len(nontrivial),
        "rule": "program x schedule pairs: pool capacity 2/4; vyukov_queue_pool, lazy_vyukov_queue_pool, bounded_vyukov_queue_pool, each directly and through pool_allocator; 2-4 threads allocating up to and past capacity and releasing held objects; schedules uniform / bursty / run-then-switch plus a second pass stalling a thread between a position CAS and its publish, plus a third pass of model-guided window schedules (templates with a set-up prefix that empties the pool; victim stalled right before its position CAS or its publish, actor exactly through one of its writes; see window_schedules); one splitmix64 stream. distinct = distinct (cfg, model event log); non-trivial = heap fallback, bad_alloc, re-allocation of a released object (lazy), failed CAS or stalled thread",
        "distinct_event_logs": len(shapes), "impl_steps_compared": steps, "diverged": diverged, "corpus_cases": ncorpus,
        "traces_validated_against_impl": len(cases) - not_run - diverged, "histograms": hist,
        "window_schedules": winfo,
        "destructor_monitor_pass": dinfo,
        "impl_runs_rejected_by_oracle": nbad, "cases_not_run_after_repeated_hangs": not_run,
        "samples": [{k: c[k] for k in ("id", "cfg", "threads", "sched")} for c in (cases[ncorpus:ncorpus + 2] + stalls[:1] + wcases[:1])],
        "modelled": "cds::memory::vyukov_queue_pool / lazy_vyukov_queue_pool / bounded_vyukov_queue_pool ::allocate, ::deallocate over the Vyukov queue model; pool_allocator forwards",
        "values_compared": "every atomic access: kind, object, ok flag, value read, value written (object pointers appear as client events only)",
    })
    return ctx.finish(trusted, assumptions)
