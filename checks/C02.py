"""C02 — DHP never frees an object a guard still protects; C03 (DHP half) — every retired object is disposed
exactly once (DESIGN 7, C02/C03).

Step correspondence between LV.Model.Dhp (extracted) and the real cds::gc::DHP (harness/C02/main.cpp) plus
monitors of the two properties on both sides:
  * implementation side (harness): per-object dispose counter, "a guard holds p since before the disposing
    operation began", poison check on protect, after destruction every retired object disposed exactly once;
  * model side (this file, over the model log with its ghost events _slot/_own/_rel/_scanb/_scane): the exact
    statement of dhp_no_dispose_while_guarded and dhp_dispose_at_most_once."""
import os, json, subprocess, time
import vcheck, conc_check

GB, RB = 16, 256
FUEL = 400000


# ---------------------------------------------------------------------------------------------------------
# generators (everything from ctx.rng)

def sched_of(rng, n, kind=None, length=None):
    kind = rng.below(4) if kind is None else kind
    if kind == 0:      # uniform
        return [rng.below(n) for _ in range(length or (40 + rng.below(400)))]
    if kind == 1:      # bursty
        s = []
        for _ in range(2 + rng.below(12)):
            s += [rng.below(n)] * (1 + rng.below(60))
        return s
    if kind == 2:      # run one thread to a point, then another to a point, then uniform
        s = []
        for _ in range(1 + rng.below(3)):
            s += [rng.below(n)] * (5 + rng.below(300))
        return s + [rng.below(n) for _ in range(200)]
    return []          # round robin


class Objs:
    def __init__(self):
        self.next = 1
    def fresh(self, k=1):
        a = self.next
        self.next += k
        return a


def gen_small(rng, cid):
    """2-3 threads, few guards, explicit scans and detaches; a shared pool of objects that are guarded,
    published and retired (each at most once)."""
    n = 2 + rng.below(2)
    H = rng.choice([4, 4, 5, 2])
    pool = list(range(1, 7 + rng.below(4)))
    retired = set()
    threads = []
    for t in range(n):
        ops = [[1]]
        att = True
        for _ in range(3 + rng.below(8)):
            k = rng.below(13)
            if k == 0: ops.append([3, rng.below(3)])
            elif k == 1: ops.append([4, rng.below(3)])
            elif k in (2, 3): ops += [[3, 0]] if rng.chance(1, 3) else []; ops.append([5, rng.below(3), rng.choice(pool)])
            elif k == 4: ops.append([6, rng.below(3)])
            elif k == 5: ops.append([7, rng.below(3), rng.below(2)])
            elif k == 6: ops.append([8, rng.below(2), rng.choice(pool + [0])])
            elif k in (7, 8, 9):
                cand = [p for p in pool if p not in retired]
                if cand:
                    p = rng.choice(cand); retired.add(p); ops.append([9, p])
            elif k == 10: ops.append([10])
            elif k == 11: ops.append([2]); att = False
            else: ops.append([1]); att = True
        if rng.chance(2, 3): ops.append([2])
        threads.append(ops)
    return {"id": cid, "cfg": [H, GB, RB, 0, FUEL, 2, 1], "threads": threads, "sched": sched_of(rng, n), "kind": "small"}


def gen_ext(rng, cid):
    """a thread holds more guards than its initial array (17, 21, 33, 37 ...: one, two or three extension blocks)
    while another thread retires the guarded objects and scans; the holder then frees / clears / extends again or
    detaches while the scan is in stage 1."""
    H = rng.choice([4, 4, 16, 5])
    ng = rng.choice([17, 21, 33, 37, H + 1, H + 17])
    o = Objs()
    a = o.fresh(ng)
    holder = [[1], [12, 0, a, a + ng - 1], [8, 0, 1]]
    k = rng.below(5)
    if k == 0: holder += [[14, rng.below(ng), 1 + rng.below(ng)]]
    elif k == 1: holder += [[13, rng.below(ng), 1 + rng.below(ng)], [12, 100, a, a + rng.below(20)]]
    elif k == 2: holder += [[2], [1], [12, 0, a, a + rng.below(ng)]]
    elif k == 3: holder += [[12, 200, a + 1, a + 18]]
    holder += [[10]] if rng.chance(1, 2) else []
    if rng.chance(1, 2): holder.append([2])
    lo = a + rng.below(ng); hi = min(a + ng - 1, lo + rng.below(ng))
    extra = o.fresh(3)
    retirer = [[1]] + ([[15, 0, 1]] if rng.chance(3, 4) else []) + [[11, lo, hi], [9, extra], [10]]
    if rng.chance(1, 2): retirer += [[9, extra + 1], [10]]
    if rng.chance(2, 3): retirer.append([2])
    threads = [holder, retirer]
    if rng.chance(1, 3):
        b = o.fresh(4)
        threads.append([[1], [12, 0, lo, min(hi, lo + 2)], [11, b, b + 3], [10], [2]])
    n = len(threads)
    return {"id": cid, "cfg": [H, GB, RB, 0, FUEL, 2, 1], "threads": threads, "sched": sched_of(rng, n, length=300 + rng.below(2500)), "kind": "ext"}


def gen_big(rng, cid):
    """retired arrays below, at and above one block (255/256/257/513 retires) against guard populations that make
    the scan free 0, 1, < 1/4, >= 1/4 of the array; the guards are held by another thread which keeps working
    while the scans run."""
    nret = rng.choice([255, 256, 257, 513, 300])
    keep = rng.choice([0, 1, 150, 191, 192, 193, 250, 255, 256])       # guarded objects among the first 256 retired
    o = Objs()
    a = o.fresh(nret)
    H = rng.choice([4, 16])
    holder = [[1]]
    if keep:
        holder += [[12, 0, a, a + keep - 1]]
    holder += [[8, 0, 1]]
    k = rng.below(4)
    if k == 0 and keep: holder += [[15, 0, 2], [14, 0, keep], [8, 0, 3]]
    elif k == 1 and keep: holder += [[14, 0, 1 + rng.below(keep)], [12, 300, a, a + 16]]
    elif k == 2: holder += [[12, 300, a, a + 20], [13, 300, 21]]
    holder += [[2]] if rng.chance(1, 2) else []
    retirer = [[1], [15, 0, 1], [11, a, a + nret - 1], [8, 0, 2]]
    if k == 0 and keep: retirer += [[15, 0, 3], [10]]
    more = rng.choice([0, 0, 10, 300])
    if more:
        b = o.fresh(more); retirer += [[11, b, b + more - 1]]
    retirer += [[10]] if rng.chance(1, 2) else []
    retirer += [[2]] if rng.chance(1, 2) else []
    return {"id": cid, "cfg": [H, GB, RB, 0, FUEL, 2, 1], "threads": [holder, retirer],
            "sched": sched_of(rng, 2, kind=rng.choice([1, 2, 3, 3]), length=2000), "kind": "big"}


def gen_cycle(rng, cid):
    """attach / detach / re-attach cycles: retired objects left behind in a detached record (guarded by another
    thread), picked up by help_scan of a third one or by the next owner of the record; records and blocks reused."""
    o = Objs()
    H = rng.choice([4, 5])
    a = o.fresh(6)
    g = [[1], [12, 0, a, a + 2 + rng.below(3)], [8, 0, 1]]
    if rng.chance(1, 2): g += [[15, 1, 1], [14, 0, 6]]
    g += [[10], [2]] if rng.chance(1, 2) else [[2]]
    r = [[1]] + ([[15, 0, 1]] if rng.chance(2, 3) else []) + [[11, a, a + 5], [2], [8, 1, 1]]
    for _ in range(rng.below(3)):
        b = o.fresh(2)
        r += [[1], [3, 0], [5, 0, b], [9, b], [9, b + 1], rng.choice([[10], [2], [4, 0]]), [2]]
    h = [[1], [9, o.fresh()], rng.choice([[2], [10]]), [1], [9, o.fresh()], [2]]
    threads = [g, r, h][: 2 + rng.below(2)]
    n = len(threads)
    return {"id": cid, "cfg": [H, GB, RB, 0, FUEL, 2, 1], "threads": threads, "sched": sched_of(rng, n), "kind": "cycle"}


def gen_cases(ctx, n, nbig):
    rng = ctx.rng
    cases = []
    for i in range(n):
        k = rng.below(10)
        if k < 5: cases.append(gen_small(rng, "s%d" % i))
        elif k < 8: cases.append(gen_ext(rng, "e%d" % i))
        else: cases.append(gen_cycle(rng, "c%d" % i))
    for i in range(nbig):
        cases.append(gen_big(rng, "b%d" % i))
    return cases


# ---------------------------------------------------------------------------------------------------------
# running

def strip(c):
    return {k: c[k] for k in ("id", "cfg", "threads", "sched")}


def run_exe_chunks(ctx, cmd_of, cases, tag, timeout=900):
    """run the cases in parallel chunks; returns {id: log}, [ids whose process died or timed out]"""
    nproc = max(1, min(vcheck.NCPU, len(cases)))
    # big cases spread first
    order = sorted(range(len(cases)), key=lambda i: -sum(len(t) for t in cases[i]["threads"]) - (100000 if cases[i].get("kind") == "big" else 0))
    chunks = [[] for _ in range(nproc)]
    for k, i in enumerate(order):
        chunks[k % nproc].append(cases[i])
    procs = []
    for k, ch in enumerate(chunks):
        if not ch:
            continue
        cf = os.path.join(ctx.work, "%s-%d.txt" % (tag, k))
        conc_check.write_cases(cf, [strip(c) for c in ch])
        out = open(cf + ".out", "w")
        procs.append((ch, cf, out, subprocess.Popen(cmd_of(cf), shell=True, stdout=out, stderr=subprocess.STDOUT)))
    logs, dead = {}, []
    t0 = time.time()
    for ch, cf, out, p in procs:
        try:
            p.wait(timeout=max(1, timeout - (time.time() - t0)))
        except subprocess.TimeoutExpired:
            p.kill(); p.wait()
        out.close()
        txt = open(cf + ".out", errors="replace").read()
        got = conc_check.parse_logs(txt)
        for c in ch:
            l = got.get(c["id"])
            if l is None or l["end"] is None:
                dead.append((c, txt[-400:]))
            else:
                logs[c["id"]] = l
    return logs, dead


def run_one(ctx, cmd_of, case, tag, timeout=120):
    cf = os.path.join(ctx.work, "%s-one.txt" % tag)
    conc_check.write_cases(cf, [strip(case)])
    rc, out = vcheck.sh(cmd_of(cf), timeout=timeout)
    l = conc_check.parse_logs(out).get(case["id"])
    return rc, l, out


# ---------------------------------------------------------------------------------------------------------
# model-side monitor: the property statements evaluated on a log with ghost events

def model_monitor(lines, nthreads, finished_destroy):
    slot = {}        # slot key -> (value, index of the store)
    live = {}        # slot key -> owning thread
    scanb = {}       # thread -> index of its running scan's begin
    disposed = {}
    retired = {}
    pending = {}     # thread -> last 'op 9 p' waiting for its ret
    feats = set()
    bad = []
    for idx, l in enumerate(lines):
        t = l.split(" ")
        if len(t) < 3 or t[1] != "ev":
            continue
        th = int(t[0]); name = t[2]; args = t[3:]
        if name == "_slot":
            slot[tuple(args[:3])] = (int(args[3]), idx)
            if args[0] == "1" and args[3] != "0": feats.add("ext_guard")
        elif name == "_own": live[tuple(args)] = th
        elif name == "_rel": live.pop(tuple(args), None)
        elif name == "_relall":
            for k in [k for k, v in live.items() if v == th]:
                del live[k]
        elif name == "_scanb": scanb[th] = idx
        elif name == "_scane":
            scanb.pop(th, None)
        elif name == "_oob": feats.add("oob")
        elif name == "op" and args and args[0] == "9": pending[th] = int(args[1])
        elif name == "skip": pending.pop(th, None)
        elif name == "ret":
            if th in pending:
                p = pending.pop(th); retired[p] = retired.get(p, 0) + 1
        elif name == "dispose":
            p = int(args[0])
            if th == nthreads:
                live.clear()      # destruction of the singleton: every client thread has ended, no guard is alive
            disposed[p] = disposed.get(p, 0) + 1
            if disposed[p] > 1:
                bad.append("model: object %d disposed %d times" % (p, disposed[p]))
            if th in scanb:
                for k, owner in live.items():
                    v = slot.get(k)
                    if v and v[0] == p and v[1] < scanb[th]:
                        bad.append("model: object %d disposed by thread %d while guard %s of thread %d holds it since before the scan began" % (p, th, k, owner))
                        feats.add("guarded_dispose")
            if th == nthreads: feats.add("final_dispose")
    # an op 9 whose scan is still running counts as retired
    for th, p in pending.items():
        retired[p] = retired.get(p, 0) + 1
    if finished_destroy and "oob" not in feats:
        for p, n in retired.items():
            if n == 1 and disposed.get(p, 0) != 1:
                bad.append("model: object %d retired once, disposed %d times after destruction" % (p, disposed.get(p, 0)))
    return bad, feats


def features(lines):
    """what a case exercised (from the model log incl. ghost events)"""
    f = set()
    pend = {}
    rby = {}
    nsc = 0
    for l in lines:
        t = l.split(" ")
        if len(t) < 3 or t[1] != "ev":
            continue
        th = int(t[0]); name = t[2]; a = t[3:]
        if name == "op" and a[0] == "9": rby[int(a[1])] = th; pend.setdefault(th, set()).add(int(a[1]))
        elif name == "dispose":
            p = int(a[0])
            if p in rby and rby[p] != th: f.add("disposed_by_other_thread")
            for s in pend.values(): s.discard(p)
        elif name == "_scane":
            nsc += 1
            if pend.get(th): f.add("survivor")
    if nsc: f.add("scan")
    return f


# ---------------------------------------------------------------------------------------------------------

def evaluate(ctx, cases, mlog, ilog, stats, report=True):
    """compare + monitors; returns list of (case, what, detail)"""
    out = []
    for c in cases:
        m = mlog.get(c["id"]); i = ilog.get(c["id"])
        if m is None or i is None:
            continue
        nth = len(c["threads"])
        fin = m["end"] == "finished" and c["cfg"][6] == 1
        bad, feats = model_monitor(m["lines"], nth, fin)
        feats |= features(m["lines"])
        stats["feat"].append((c["id"], c.get("kind", "corpus"), feats))
        for b in bad:
            out.append((c, "model-monitor", b))
        m2 = {"lines": [l for l in m["lines"] if " ev _" not in l], "end": m["end"]}
        stats["steps"] += len(i["lines"])
        mon = [x for x in i["extra"] if x.startswith("monitor guarded")]
        if mon:
            v = mon[0].split()
            g, d, po, lo, ex = int(v[2]), int(v[4]), int(v[6]), int(v[8]), int(v[10])
            notes = [x[5:] for x in i["extra"] if x.startswith("note ")]
            if g: out.append((c, "guarded", "real cds::gc::DHP disposed an object while a guard protected it: " + "; ".join(notes[:3])))
            if d: out.append((c, "double", "real cds::gc::DHP disposed an object more than once: " + "; ".join(notes[:3])))
            # protect returning a disposed object is NOT a library failure here: the random client programs retire
            # objects that are still published in a source (no client discipline); counted for information only
            if po: stats["poison_info"] = stats.get("poison_info", 0) + 1
            if lo or ex: out.append((c, "lost", "after destruction of the DHP singleton some retired object was not disposed exactly once: " + "; ".join(notes[:3])))
        d = conc_check.compare(m2, i)
        if d is not None:
            stats["diverged"] += 1
            out.append((c, "divergence", d))
        else:
            stats["agree"] += 1
    return out


WHAT = {
    "guarded": "cds::gc::DHP gave an object to its disposer while a guard that protected it before the reclamation pass began still protected it (real code, guard monitor)",
    "double": "cds::gc::DHP gave a retired object to its disposer more than once (real code, per-object dispose counter)",
    "poison": "cds::gc::DHP: Guard::protect returned an object that had already been disposed (real code, poison monitor)",
    "lost": "cds::gc::DHP: after destruction of the singleton a retired object was not disposed exactly once (real code, per-object dispose counter)",
    "crash": "cds::gc::DHP crashed or hung on a scheduled client program (real code)",
}


def run(ctx):
    res = vcheck.coq_build(["Properties/Properties_C02.v"])
    ctx.coq_evidence(res)
    model = conc_check.build_model(ctx, "Extract_Dhp.v")
    impl = vcheck.cxx_build(os.path.join(vcheck.VERIF, "harness/C02/main.cpp"), os.path.join(ctx.work, "harness"), hook=True, link_cds=True)
    mcmd = lambda cf: "%s %d < %s" % (model, FUEL, cf)
    icmd = lambda cf: "%s %s" % (impl, cf)

    if ctx.replay:
        rp = json.load(open(ctx.replay))
        c = rp.get("case")
        if not c:
            ctx.log("replay file has no case"); return ctx.finish(vcheck.STD_TRUSTED)
        cases = [c]
    else:
        cases = []
        cdir = os.path.join(vcheck.VERIF, "corpus", "C02")
        for f in sorted(os.listdir(cdir)) if os.path.isdir(cdir) else []:
            if f.endswith(".json"):
                cases.append(json.load(open(os.path.join(cdir, f))))
        ncorpus = len(cases)
        n, nbig = (2500, 60) if ctx.thorough() else (420, 14)
        cases += gen_cases(ctx, n, nbig)
    ncorpus = len([c for c in cases if c.get("kind") is None])

    stats = {"feat": [], "steps": 0, "diverged": 0, "agree": 0}
    mlog, mdead = run_exe_chunks(ctx, mcmd, cases, "m")
    # cases in which the model itself writes outside a retired block (input the code does not reject, see
    # DhpProofs: theorems carry oob = false) are not run on the real code: it corrupts the heap there
    oobc = [c for c in cases if c["id"] in mlog and any(l.endswith(" ev _oob") for l in mlog[c["id"]]["lines"][-2:])]
    runnable = [c for c in cases if c["id"] in mlog and c not in oobc]
    ilog, idead = run_exe_chunks(ctx, icmd, runnable, "i")
    found = evaluate(ctx, runnable, mlog, ilog, stats)

    # a chunk that died: find the case that kills the real library
    crashed = []
    for c, tail in idead[:40]:
        rc, l, out = run_one(ctx, icmd, c, "crash")
        if l is None or l["end"] is None:
            crashed.append((c, out[-600:]))
            if len(crashed) >= 3:
                break
        else:
            ilog[c["id"]] = l
            found += evaluate(ctx, [c], mlog, ilog, stats)

    kinds = {}
    for c, k, d in found:
        kinds.setdefault(k, []).append((c, d))
    concrete = False
    for k in ("guarded", "double", "lost"):
        if k in kinds:
            c, d = min(kinds[k], key=lambda x: sum(len(t) for t in x[0]["threads"]))
            ctx.violation(WHAT[k], {"case": strip(c), "observed": d, "impl_monitor": [x for x in ilog[c["id"]]["extra"] if not x.startswith("monitor counts")][:14]})
            concrete = True
    if crashed:
        c, tail = crashed[0]
        ctx.violation(WHAT["crash"], {"case": strip(c), "output_tail": tail})
        concrete = True
    if "model-monitor" in kinds:
        c, d = kinds["model-monitor"][0]
        ctx.violation("LV.Model.Dhp violates the property on a concrete program and schedule (model-side monitor): " + d, {"case": strip(c), "observed": d})
        concrete = True
    if "divergence" in kinds and not concrete:
        # the correspondence broke and the generated set shows no failure of the property: enlarged search
        more = gen_cases(ctx, 900, 30)
        ml2, _ = run_exe_chunks(ctx, mcmd, more, "sm")
        more = [c for c in more if c["id"] in ml2 and not any(l.endswith(" ev _oob") for l in ml2[c["id"]]["lines"][-2:])]
        il2, dead2 = run_exe_chunks(ctx, icmd, more, "si")
        st2 = {"feat": [], "steps": 0, "diverged": 0, "agree": 0}
        f2 = evaluate(ctx, more, ml2, il2, st2)
        for k in ("guarded", "double", "lost"):
            hit = [(c, d) for c, kk, d in f2 if kk == k]
            if hit:
                c, d = min(hit, key=lambda x: sum(len(t) for t in x[0]["threads"]))
                ctx.violation(WHAT[k], {"case": strip(c), "observed": d, "impl_monitor": [x for x in il2[c["id"]]["extra"] if not x.startswith("monitor counts")][:14]})
                concrete = True
        if not concrete and dead2:
            for c, tail in dead2[:20]:
                rc, l, out = run_one(ctx, icmd, c, "crash")
                if l is None or l["end"] is None:
                    ctx.violation(WHAT["crash"], {"case": strip(c), "output_tail": out[-600:]}); concrete = True
                    break
        if not concrete:
            c, d = kinds["divergence"][0]
            ctx.violation("step correspondence between LV.Model.Dhp and cds::gc::dhp::smr (src/dhp.cpp, cds/gc/dhp.h) no longer holds",
                          {"correspondence": "Model/Dhp.v vs cds::gc::DHP", "case": strip(c), "first_divergence": d}, no_input=True)
    if mdead and not ctx.replay:
        c, tail = mdead[0]
        ctx.violation("the extracted model did not finish a case", {"case": strip(c), "output_tail": tail}, no_input=True)
    if not res.ok:
        ctx.violation("Coq obligations of C02 do not check: %s" % (res.failed[:2],), {"theorem": [f[2] for f in res.failed], "errors": res.failed[:3]}, no_input=True)

    hist = {}
    shapes = set()
    nontriv = set()
    for cid, kind, feats in stats["feat"]:
        for f in feats:
            hist[f] = hist.get(f, 0) + 1
        h = hash(tuple(l for l in mlog[cid]["lines"]))
        shapes.add(h)
        if feats & {"survivor", "ext_guard", "disposed_by_other_thread"}:
            nontriv.add(h)
    kh = {}
    for c in cases:
        kh[c.get("kind", "corpus")] = kh.get(c.get("kind", "corpus"), 0) + 1
    ctx.coverage.update({
        "evaluations": len(cases), "distinct_nontrivial": len(nontriv),
        "rule": "program x schedule pairs on the real cds::gc::DHP (GB=16, RB=256) and the extracted model; distinct = distinct model event logs; non-trivial = a retired object survived a scan because a guard held it, or a guard in an extension block was set, or an object was disposed by a thread other than the one that retired it (help_scan / record reuse / destruction)",
        "distinct_event_logs": len(shapes), "impl_steps_compared": stats["steps"], "diverged": stats["diverged"],
        "traces_validated_against_impl": stats["agree"], "corpus_cases": ncorpus, "generator_kinds": kh,
        "feature_histogram": hist, "model_oob_cases_not_run_on_impl": [c["id"] for c in oobc],
        "impl_crashes": len(crashed), "client_misuse_protect_of_disposed_info": stats.get("poison_info", 0),
        "samples": [strip(c) for c in cases[ncorpus:ncorpus + 2]],
        "modelled": "cds::gc::dhp::smr (alloc/free_thread_data, scan, help_scan, destruct), thread_hp_storage, retired_array, hp/retired allocators over cds::intrusive::FreeList, DHP::Guard, DHP::retire/scan",
    })
    return ctx.finish(vcheck.STD_TRUSTED + ["hook layer: khizmax_libcds_verif::atomic<T>, baton scheduler, event log (hooks/include)", "ocaml/conc_main.ml event printer", "checks/C02.py model-side monitor and log comparison"],
                      ["sequential consistency: memory_order arguments are not modelled", "compare_exchange_weak never fails spuriously under the hook",
                       "the extension/retired block sizes of the real code are the compile-time constants 16/256; other sizes are covered by the Coq theorems only",
                       "std::sort + std::binary_search are modelled as list membership"])
